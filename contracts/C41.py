"""
C41 - Codepage conversion round-trips (third clause: the double-byte converter).

Under contract (real source, pcbasic/basic/codepage.py): Converter._process, _process_nobox,
_process_case0 .. _process_case4, _flush, _mark.

The codepage's lead-byte set, trail-byte set and box-drawing relation connects(a, b, set) are
*uninterpreted*: arbitrary but fixed (z3 uninterpreted predicates over byte values), so every
obligation holds for every shipped and every future DBCS codepage. The preserve set (control
characters) is uninterpreted too. Byte contents are symbolic.

Representation invariant conv_ok (box protection on):
    (bset = -1 and len(buf) <= 2) or (bset in {0, 1} and len(buf) in {0, 2})
    bset = -1: len(buf) >= 1 -> buf[0] in lead;  len(buf) = 2 -> buf[1] in trail
    bset >= 0: len(buf) = 2 -> connects(buf[0], buf[1], bset);  len(last) <= 1
(box protection off: len(buf) <= 1, buf[0] in lead).
Per step, for every state satisfying conv_ok and every byte c:
    b''.join(out) + buf' = buf + c              (byte conservation: nothing lost, added, reordered)
    conv_ok'                                     (the invariant is inductive)
    every emitted sequence has 1 or 2 bytes; a 2-byte sequence is a (lead, trail) pair
    the "buffer corrupted" branches are unreachable
_flush(): emits buf, leaves it empty. Hence by induction over the bytes of s (the comprehension
in _mark is a left fold of _process over iterchar(s), read off the source and re-checked
structurally every run) _mark(s, flush=True) concatenates back to s, and converting s1 then s2
leaves the same state and emits the same sequences as converting s1 + s2.
The fold lemma is additionally discharged directly on _mark for all symbolic strings up to a
stated length with every split point.
"""

import ast
import logging

from .common import *
import importlib
codepage = importlib.import_module('pcbasic.basic.codepage')

PROPERTY = 'C41'


class _SymSet(object):
    """An arbitrary fixed set of single bytes."""
    _pyvc_trusted = True

    def __init__(self, E, name):
        self.E, self.name = E, name

    def __contains__(self, c):
        cs = to_cells(c)
        if len(cs) != 1:
            return False
        return self.E.pred(self.name, cs[0])


class _Cp(object):
    """Codepage stand-in: uninterpreted lead, trail, connects."""
    _pyvc_trusted = True

    def __init__(self, E, dbcs=True):
        self.E = E
        self.lead = _SymSet(E, 'lead')
        self.trail = _SymSet(E, 'trail')
        self.dbcs = dbcs
        self.box_protect = True

    def connects(self, a, b, bset):
        ca, cb = to_cells(a), to_cells(b)
        if len(ca) != 1 or len(cb) != 1:
            # the box-drawing sets hold single bytes only (Codepage.__init__: cp_point[0:1])
            return False
        return self.E.pred('connects', ca[0], cb[0], bset)


def _bytes(E, name, n):
    return E.bytes(name, n, kind='bytes') if n else b''


def _conv(E, box, nbuf, bset, nlast):
    cv = object.__new__(codepage.Converter)
    cv._cp = _Cp(E)
    cv._buf = _bytes(E, 'buf', nbuf)
    cv._preserve = _SymSet(E, 'preserve')
    cv._box_protect = box
    cv._use_substitutes = False
    cv._dbcs = True
    cv._bset = bset
    cv._last = _bytes(E, 'last', nlast)
    return cv


def _inv_struct(box, nbuf, bset, nlast):
    if not box:
        return nbuf <= 1
    return ((bset == -1 and nbuf <= 2) or (bset in (0, 1) and nbuf in (0, 2))) and nlast <= 1


def _inv(E, cv, box):
    """conv_ok on the current state: (structure: bool, typing: symbolic)."""
    buf = to_cells(cv._buf)
    ok = _inv_struct(box, len(buf), cv._bset, len(to_cells(cv._last)))
    typing = []
    if cv._bset == -1 or not box:
        if len(buf) >= 1:
            typing.append(E.pred('lead', buf[0]))
        if len(buf) == 2:
            typing.append(E.pred('trail', buf[1]))
    elif len(buf) == 2:
        # candidate box-drawing pair held back
        typing.append(E.pred('connects', buf[0], buf[1], cv._bset))
    return ok, And(*typing) if typing else True


def _join(seqs):
    out = []
    for s in seqs:
        out.extend(to_cells(s))
    return out


_STATES = [(box, nbuf, bset, nlast)
           for box in (True, False) for nbuf in (0, 1, 2) for bset in (-1, 0, 1) for nlast in (0, 1)
           if _inv_struct(box, nbuf, bset, nlast) and (box or (bset == -1 and nlast == 0))]


def t_process(E, box, nbuf, bset, nlast):
    cv = _conv(E, box, nbuf, bset, nlast)
    corrupted = []
    E.interp.contracts[logging.debug] = lambda I, args, kw: corrupted.append(1)
    ok0, typ0 = _inv(E, cv, box)
    assert ok0
    E.assume(typ0)
    before = to_cells(cv._buf)
    c = E.bytes('c', 1, kind='bytes')
    r = E.call(cv._process, c)
    E.prove(not r.raised, 'never raises')
    if r.raised:
        return
    out = r.value
    E.prove(corrupted == [], 'the "buffer corrupted" branches are unreachable from a well-formed state')
    after = to_cells(cv._buf)
    lhs, rhs = _join(out) + after, before + to_cells(c)
    E.prove(len(lhs) == len(rhs) and cells_equal(lhs, rhs),
            'emitted sequences followed by the new buffer are exactly the old buffer followed by the byte')
    ok1, typ1 = _inv(E, cv, box)
    E.prove(ok1, 'representation invariant preserved (buffer length / box-set state)')
    E.prove(typ1, 'buffered bytes are a lead byte, optionally followed by a trail byte, or a connecting box-drawing pair')
    for s in out:
        cs = to_cells(s)
        E.prove(len(cs) in (1, 2), 'every emitted sequence has one or two bytes')
        if len(cs) == 2:
            E.cover('double-byte sequence emitted')
            if not box or bset == -1:
                E.prove(And(E.pred('lead', cs[0]), E.pred('trail', cs[1])), 'a two-byte sequence is a lead byte and a trail byte')
            else:
                E.prove(E.pred('connects', cs[0], cs[1], bset), 'a held-back box-drawing candidate is emitted whole')
    E.canary(len(after) == 0, 'buffer always empty afterwards')
    if box:
        E.prove(cv._bset in (-1, 0, 1), 'box set is -1, 0 or 1')


def t_flush(E, box, nbuf, bset, nlast):
    cv = _conv(E, box, nbuf, bset, nlast)
    before = to_cells(cv._buf)
    r = E.call(cv._flush)
    E.prove(not r.raised, 'never raises')
    E.prove(cells_equal(_join(r.value), before) if len(_join(r.value)) == len(before) else False,
            'flush emits exactly the buffered bytes')
    E.prove(len(r.value) == (1 if nbuf else 0), 'as one sequence')
    E.prove(len(to_cells(cv._buf)) == 0, 'and leaves the buffer empty')
    # partial flush
    if nbuf == 2:
        cv2 = _conv(E, box, nbuf, bset, nlast)
        b2 = to_cells(cv2._buf)
        r2 = E.call(cv2._flush, 1)
        E.prove(not r2.raised and len(r2.value) == 1 and cells_equal(to_cells(r2.value[0]), b2[:1]),
                '_flush(1) emits the first buffered byte')
        E.prove(cells_equal(to_cells(cv2._buf), b2[1:]), 'and keeps the second')


def t_mark(E, box, n, split):
    """_mark on a symbolic string of n bytes, at once and in two pieces."""
    s = _bytes(E, 's', n)
    whole = _conv(E, box, 0, -1, 0)
    r = E.call(whole._mark, s, True)
    E.prove(not r.raised, 'never raises')
    if r.raised:
        return
    got = _join(r.value)
    E.prove(len(got) == n and cells_equal(got, to_cells(s)), 'the sequences concatenate back to the input')
    E.prove(len(to_cells(whole._buf)) == 0, 'nothing left in the buffer after a flushing conversion')
    parts = _conv(E, box, 0, -1, 0)
    r1 = E.call(parts._mark, s[:split], False)
    r2 = E.call(parts._mark, s[split:], True)
    E.prove(not r1.raised and not r2.raised, 'never raises (pieces)')
    if r1.raised or r2.raised:
        return
    a, b = list(r.value), list(r1.value) + list(r2.value)
    same = len(a) == len(b) and all(len(to_cells(x)) == len(to_cells(y)) for x, y in zip(a, b))
    E.prove(same, 'conversion in two pieces splits the string at the same places')
    if same:
        E.prove(And(*[cells_equal(to_cells(x), to_cells(y)) for x, y in zip(a, b)]) if a else True,
                'and emits the same sequences')
    E.prove(parts._bset == whole._bset and len(to_cells(parts._last)) == len(to_cells(whole._last)),
            'and ends in the same state')


def t_mark_sbcs(E, n):
    """A single-byte codepage: stateless, one sequence per byte."""
    s = _bytes(E, 's', n)
    cv = _conv(E, True, 0, -1, 0)
    cv._dbcs = False
    r = E.call(cv._mark, s, False)
    E.prove(not r.raised and len(r.value) == n, 'one sequence per byte')
    if not r.raised and len(r.value) == n:
        E.prove(And(*[And(len(to_cells(x)) == 1, to_cells(x)[0] == y) for x, y in zip(r.value, to_cells(s))]) if n else True,
                'each the byte itself')


def t_fold_structure(E):
    """_mark is a left fold of _process over the bytes of s followed by an optional flush."""
    import inspect, textwrap, os
    path = os.path.join(os.environ.get('VERIF_REPO', '/repo'), 'pcbasic/basic/codepage.py')
    tree = ast.parse(open(path).read())
    fn = None
    for node in ast.walk(tree):
        if isinstance(node, ast.ClassDef) and node.name == 'Converter':
            for f in node.body:
                if isinstance(f, ast.FunctionDef) and f.name == '_mark':
                    fn = f
    E.prove(fn is not None, '_mark found')
    if fn is None:
        return
    calls = [n for n in ast.walk(fn) if isinstance(n, ast.Call) and isinstance(n.func, ast.Attribute)
             and isinstance(n.func.value, ast.Name) and n.func.value.id == 'self']
    names = sorted(c.func.attr for c in calls)
    E.prove(names == ['_flush', '_process'], '_mark touches the converter state only through _process and _flush')
    comps = [n for n in ast.walk(fn) if isinstance(n, ast.ListComp)]
    ok = False
    for lc in comps:
        gens = lc.generators
        if (len(gens) == 2 and isinstance(gens[0].iter, ast.Call) and getattr(gens[0].iter.func, 'id', None) == 'iterchar'
                and [getattr(a, 'id', None) for a in gens[0].iter.args] == ['s']
                and isinstance(gens[1].iter, ast.Call) and getattr(gens[1].iter.func, 'attr', None) == '_process'
                and [getattr(a, 'id', None) for a in gens[1].iter.args] == [getattr(gens[0].target, 'id', 0)]
                and not gens[0].ifs and not gens[1].ifs
                and isinstance(lc.elt, ast.Name) and lc.elt.id == getattr(gens[1].target, 'id', 0)):
            ok = True
    E.prove(ok, '_mark feeds every byte of s, in order, to _process and keeps every emitted sequence')
    stores = [n for n in ast.walk(fn) if isinstance(n, (ast.Attribute,)) and isinstance(n.ctx, ast.Store)]
    E.prove(stores == [], '_mark assigns no converter attribute itself')


TASKS = [
    Task('Converter._process (one step, every well-formed state)', t_process,
         cases=[{'box': b, 'nbuf': n, 'bset': s, 'nlast': l} for b, n, s, l in _STATES]),
    Task('Converter._flush', t_flush,
         cases=[{'box': b, 'nbuf': n, 'bset': s, 'nlast': l} for b, n, s, l in _STATES]),
    Task('Converter._mark (at once = in pieces)', t_mark,
         cases=[{'box': b, 'n': n, 'split': k} for b in (True, False) for n in range(0, 5) for k in range(0, n + 1)]),
    Task('Converter._mark (single-byte codepage)', t_mark_sbcs, cases=[{'n': n} for n in (0, 1, 3, 8)]),
    Task('Converter._mark fold structure', t_fold_structure),
    Task('Converter._mark (at once = in pieces, longer)', t_mark, tier='thorough',
         cases=[{'box': b, 'n': n, 'split': k} for b in (True, False) for n in (5, 6) for k in range(0, n + 1)]),
]


ASSUMPTIONS = [
    'lead, trail, preserve and connects are arbitrary fixed sets/relation over byte values (uninterpreted predicates)',
    'the unbounded statement for _mark is the per-step invariant plus the fold structure of _mark (checked structurally); '
    'the direct obligations on _mark cover strings up to 4 bytes (6 in the thorough tier) with every split point',
]
NOT_COVERED = [
    'first and second clause (table round trips per shipped codepage, Codepage.__init__, unicode_to_bytes, '
    'bytes_to_unicode, unicodedata.normalize): enumeration of data tables, not deduction',
    'Converter.to_unicode_list / codepoint_to_unicode on the emitted sequences',
]
