"""
C08 - PRINT USING fields have the declared width (field layer; the digits themselves are C07).

Under contract (real source, devices/formatter.py): StringField.__init__/format,
NumberField.__init__/format, Formatter._print_using, over the real CodeStream.
The decimal digit string of the absolute value (Float.to_str_fixed / to_str_scientific) is taken
*by contract*: an arbitrary string of a given length made of digits, '.', ',' and exponent
characters - so the obligations below hold for every number and for whatever those functions
return; that the digits are the correctly rounded value is NOT decided here (decimal conversion,
C07).
  string fields : '!' emits the first character (a space for the empty string); '&' the whole
      string; '\ .. \' of width w emits exactly w characters - the string cut or space-padded
  number fields : parsing a field specification consumes exactly the specification and yields the
      declared digits before / after the point, the comma flag and the token string;
      format() emits exactly len(tokens) characters when sign + '$' + digit string + trailing sign
      fit, otherwise '%' followed by that full representation; the sign is placed as the field says
      (leading '+', trailing '+' or '-', otherwise a leading '-' for negatives only), '$' directly
      before the digits, the field is filled on the left with '*' for '**' fields and spaces
      otherwise, a leading zero is supplied before a bare '.' when there is room; more than 24
      digit positions is an Illegal function call
  cycling : _print_using formats the values in order with the fields in order, restarting the format
      string when it is exhausted and emitting the literal text between fields
"""

from .common import *
from pcbasic.basic.devices import formatter
from pcbasic.basic.base import codestream

PROPERTY = 'C08'


def _str(E, vals, n, tag='s'):
    return new_string(E, vals, E.bytes(tag, n, kind='bytes')) if n else E.new(strings.String, None, vals)


def t_string_field(E, spec, L):
    vals = values_env(with_strings=True)
    fors = codestream.CodeStream(spec + b'###')
    f = E.new(formatter.StringField, fors)
    E.prove(fors.tell() == len(spec), 'the field specification is consumed exactly')
    s = _str(E, vals, L)
    content = str_cells(E, s)
    r = E.call(f.format, s)
    E.prove(not r.raised, 'never raises for a string')
    out = list(to_cells(r.value))
    if spec == b'&':
        E.prove(len(out) == L and (bool(cells_equal(out, content)) if L else True), '& emits the whole string')
        return
    w = len(spec)
    E.prove(len(out) == w, 'the field emits exactly its width')
    want = (content + [32] * w)[:w]
    E.prove(cells_equal(out, want), 'the string cut to the width or padded with spaces on the right')


class _Digits(object):
    """Stand-in for the absolute value: to_str_fixed / to_str_scientific return an arbitrary digit string."""
    _pyvc_trusted = True
    def __init__(self, E, n, neg, dot_first):
        self.E, self.n, self.neg, self.dot_first = E, n, neg, dot_first
        self.calls = []
        cells = []
        for i in range(n):
            c = E.int('digit[%d]' % i, 44, 69)      # , - . / 0-9 : ; < = > ? @ A-E : digits, '.', ',', 'E', 'D', '+', '-' live here
            cells.append(c)
        if n:
            if dot_first:
                E.assume(cells[0] == 46)
            else:
                # the digit string of an absolute value starts with a digit
                E.assume(And(cells[0] >= 48, cells[0] <= 57))
        self.cells = cells
    def to_float(self):
        return self
    def is_negative(self):
        return self.neg
    def clone(self):
        return self
    def iabs(self):
        return self
    def _s(self):
        if self.E.mode == 'symbolic':
            return SBuf(list(self.cells), 'bytes') if self.cells else b''
        return bytes(self.cells)
    def to_str_fixed(self, decimals, force_dot, comma):
        self.calls.append(('fixed', decimals, force_dot, comma))
        return self._s()
    def to_str_scientific(self, digits_before, decimals, force_dot):
        self.calls.append(('sci', digits_before, decimals, force_dot))
        return self._s()


# field specification -> (digits_before, decimals, comma)
NUMBER_FIELDS = {
    b'#': (1, 0, False), b'###': (3, 0, False), b'##.##': (2, 2, False), b'.##': (0, 2, False),
    b'+##.#': (2, 1, False), b'##.#+': (2, 1, False), b'##.#-': (2, 1, False),
    b'$$###.##': (4, 2, False), b'**##.#': (4, 1, False), b'**$##.#': (4, 1, False),
    b'#,###.##': (5, 2, True), b'##.##^^^^': (2, 2, False), b'+#.#^^^^': (1, 1, False), b'#^^^^-': (1, 0, False),
    b'#' * 12 + b'.' + b'#' * 12: (12, 12, False),
    # no digit position before the point, with a sign: room for a leading zero depends on the trailing sign
    b'.##-': (0, 2, False), b'.##+': (0, 2, False), b'+.##': (0, 2, False), b'.###+': (0, 3, False), b'.##^^^^-': (0, 2, False),
    b'#.##-': (1, 2, False),
}


def t_number_parse(E, spec):
    fors = codestream.CodeStream(spec + b' rest')
    r = E.call(formatter.NumberField, fors)
    E.prove(not r.raised, 'the specification is a number field')
    if r.raised:
        return
    f = r.value
    db, dec, comma = NUMBER_FIELDS[spec]
    E.prove(fors.tell() == len(spec) and f._tokens == spec, 'the field specification is consumed exactly')
    E.prove(f._digits_before == db and f._decimals == dec and f._comma == comma, 'digit positions before / after the point and the comma flag as declared')


def t_number_format(E, spec, n, dot_first):
    fors = codestream.CodeStream(spec)
    f = E.new(formatter.NumberField, fors)
    neg = E.bool('negative')
    v = _Digits(E, n, neg, dot_first)
    if E.mode == 'symbolic':
        E.interp.contracts[values.pass_number] = lambda I, args, kw: args[0]
    else:
        formatter.values.pass_number = lambda x, err=None: x
    r = E.call(f.format, v)
    db, dec, comma = NUMBER_FIELDS[spec]
    if db + dec > 24:
        E.prove(r.is_error(BASICError, error.IFC), 'more than 24 digit positions: Illegal function call')
        return
    E.prove(not r.raised, 'never raises')
    if r.raised:
        return
    out = list(to_cells(r.value))
    w = len(spec)
    lead_plus, trail_plus, trail_minus = spec[:1] == b'+', spec[-1:] == b'+', spec[-1:] == b'-'
    dollar = b'$' in spec
    sci = b'^' in spec
    # which conversion was asked for, with which parameters
    E.prove(len(v.calls) == 1, 'the digits are produced once')
    if len(v.calls) == 1:
        c = v.calls[0]
        if sci:
            want_db = db if (lead_plus or trail_plus or trail_minus or dollar) else max(db - 1, 0)
            E.prove(c[0] == 'sci' and c[1] == want_db and c[2] == dec and c[3] == (b'.' in spec),
                    'scientific notation with the declared positions (one taken for the sign when it has no place of its own)')
        else:
            E.prove(c[0] == 'fixed' and c[1] == dec and c[2] == (b'.' in spec) and c[3] == comma,
                    'fixed notation with the declared decimals, point and thousands commas')
    # reference assembly: sign, currency sign, digits, trailing sign
    sign_lead = ([If(neg, 45, 43)] if lead_plus else ([] if (trail_plus or trail_minus) else None))
    digits = list(v.cells)
    post = [If(neg, 45, 43)] if (trail_plus and not lead_plus) else ([If(neg, 45, 32)] if (trail_minus and not lead_plus) else [])
    for negcase in ((True, False) if sign_lead is None else (None,)):
        if negcase is not None:
            if bool(neg) != negcase:
                continue
            lead = [45] if negcase else []
        else:
            lead = sign_lead
        core = lead + ([36] if dollar else []) + digits + post
        # leading zero before a bare point when there is room
        if len(core) < w and digits and dot_first and not dollar:
            k = len(lead)
            core = core[:k] + [48] + core[k:]
        if len(core) > w:
            E.cover('overflow')
            E.prove(len(out) == len(core) + 1 and out[0] == 37, 'does not fit: a % and then the full representation')
            if len(out) == len(core) + 1:
                E.prove(cells_equal(out[1:], core), 'the full representation follows unchanged')
        else:
            E.cover('fits')
            E.prove(len(out) == w, 'the field emits exactly its declared width')
            if len(out) == w:
                fill = 42 if b'*' in spec else 32
                pad = w - len(core)
                E.prove(cells_equal(out, [fill] * pad + core),
                        'sign, currency sign, digits and trailing sign in this order, filled on the left with %s' % ('asterisks' if fill == 42 else 'spaces'))


class _Out(object):
    _pyvc_trusted = True
    def __init__(self):
        self.parts = []
    def write(self, s):
        self.parts.append(bytes(s) if not isinstance(s, SBuf) else s)


def t_cycling(E, fmt, nvals, want):
    """Literal text and field cycling with string values (concrete format strings, symbolic contents)."""
    vals = values_env(with_strings=True)
    out = _Out()
    fm = object.__new__(formatter.Formatter)
    fm._output = out
    fm._console = None
    strs = [_str(E, vals, 2, 'v%d' % i) for i in range(nvals)]
    conts = [str_cells(E, s) for s in strs]
    f = new_string(E, vals, fmt)
    r = E.call(fm._print_using, iter([f] + strs))
    E.prove(not r.raised, 'PRINT USING succeeds')
    got = []
    for p in out.parts:
        got += list(to_cells(p))
    # expected: `want` is a list of literals (bytes) and value indices (int, formatted by '&' or '!' as given in fmt)
    exp = []
    for item in want:
        if isinstance(item, bytes):
            exp += list(item)
        else:
            i, how = item
            exp += conts[i] if how == '&' else conts[i][:1]
    E.prove(len(got) == len(exp) and bool(cells_equal(got, exp)), 'values in order, fields in order, literals in between, format string restarted as needed')
    E.prove(r.value is True, 'the line is ended')


# ---------------------------------------------------------------------------
# bounded stand-in (never counted as proved): the digit strings themselves

def t_digits_bounded(E, kind):
    """Float.to_str_fixed / to_str_scientific against exact rational arithmetic: the shown value is within one
    unit of the last digit shown (this decides gross errors - a wrong exponent, a lost carry - not the
    rounding of the last digit, which the property allows only up to the accuracy of decimal conversion)."""
    from fractions import Fraction
    import random
    cls = numbers.Single if kind == 'single' else numbers.Double
    vals = values_env()
    # a value with few significant digits (so that rounding carries are frequent), or an arbitrary mantissa
    nd = E.int('ndigits', 1, 9)
    digs = int(''.join(str(E.int('d%d' % i, 0, 9) if i else E.int('d0', 1, 9)) for i in range(nd)))
    near = E.int('just below a power of ten', 0, 1)
    if near:
        digs = 10 ** nd - E.int('below', 1, 9)
    e10 = E.int('exp10', -12, 12)
    txt = ('%dE%d' % (digs, e10)).replace('E', 'E' if kind == 'single' else 'D')
    x = vals.from_repr(txt.encode(), False).to_float(kind == 'double') if hasattr(numbers.Integer, 'to_float') else vals.from_repr(txt.encode(), False)
    if not isinstance(x, cls):
        x = cls(None, vals).from_value(float(Fraction(digs) * Fraction(10) ** e10))
    if x.is_zero():
        return
    b = bytes(x.to_bytes())
    man = int.from_bytes(b[:-1], 'little') | (1 << (8 * (cls.size - 1) - 1))
    exact = Fraction(man, 1 << (8 * (cls.size - 1))) * Fraction(2) ** (b[-1] - 128)
    which = E.int('fixed(0)/scientific(1)', 0, 1)
    if which == 0:
        dec = E.int('decimals', 0, 6)
        s = x.clone().iabs().to_str_fixed(dec, True, False)
        shown, unit = Fraction(s.decode() + '0'), Fraction(10) ** -dec
    else:
        db, da = E.int('digits before', 1, 4), E.int('digits after', 0, 6)
        s = x.clone().iabs().to_str_scientific(db, da, True)
        m, ex = s.decode().replace('D', 'E').split('E')
        shown, unit = Fraction(m + '0') * Fraction(10) ** int(ex), Fraction(10) ** (int(ex) - da)
    # digits beyond the precision of the type are zeros: the unit is then the last significant digit of the type
    lg = 0
    while Fraction(10) ** (lg + 1) <= exact:
        lg += 1
    while Fraction(10) ** lg > exact:
        lg -= 1
    unit = max(unit, Fraction(10) ** (lg - cls.digits + 1))
    E.prove(abs(shown - exact) < unit, 'the digits shown are within one unit of the last digit shown (or held by the type) of the stored value')


TASKS = [
    Task('StringField', t_string_field,
         cases=[{'spec': s, 'L': L} for s in (b'!', b'&', b'\\\\', b'\\ \\', b'\\    \\') for L in (0, 1, 2, 5, 9)]),
    Task('NumberField.__init__', t_number_parse, cases=[{'spec': s} for s in sorted(NUMBER_FIELDS)]),
    Task('NumberField.format', t_number_format, covers=('fits', 'overflow'),
         cases=[{'spec': s, 'n': n, 'dot_first': d} for s in sorted(NUMBER_FIELDS) for n, d in ((1, False), (2, True), (3, True), (4, True), (4, False), (7, False), (7, True), (12, False))]),
    Task('to_str_fixed / to_str_scientific digits (bounded)', t_digits_bounded, cases=[{'kind': k} for k in ('single', 'double')], bounded=True,
         samples=(2000, 40000), scope='2000 (quick) / 40000 (thorough) sampled values (1..9 significant digits, or 1..9 below a power of ten; exponents -12..12) and field shapes per type'),
    Task('Formatter._print_using (cycling)', t_cycling, cases=[
        {'fmt': b'&', 'nvals': 1, 'want': [(0, '&')]},
        {'fmt': b'a&b', 'nvals': 2, 'want': [b'a', (0, '&'), b'b', b'a', (1, '&'), b'b']},
        {'fmt': b'<&>[!]', 'nvals': 3, 'want': [b'<', (0, '&'), b'>[', (1, '!'), b']', b'<', (2, '&'), b'>[']},
        {'fmt': b'_&&_!', 'nvals': 2, 'want': [b'&', (0, '&'), b'!', b'&', (1, '&'), b'!']},
    ]),
]

ASSUMPTIONS = [
    'the digit string of the absolute value (Float.to_str_fixed / to_str_scientific) is arbitrary: symbolic characters, length a case parameter (1, 3, 4, 7, 12)',
    'field specifications are a list of 15 representative specifications covering every token kind; string lengths on a grid',
]
NOT_COVERED = [
    'the digits shown equal the value rounded to the field\'s decimal places (Float.to_str_fixed / to_str_scientific / to_decimal: decimal conversion, C07)',
    'numeric values in _print_using cycling (string values are used), the trailing-semicolon / comma handling of PRINT itself',
]
