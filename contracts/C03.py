"""
C03 - Numeric conversions and binary encodings are exact and consistent.

A float buffer denotes sign * M * 2^(e - B) with M the p-bit mantissa (hidden bit set),
B = 128 + p (24/56), and 0 when e == 0. All specs below are integer arithmetic on
(sign, M, e); the exponent byte is forked over its 256 values so that 2^k is a constant.

Under contract (real source, all bit patterns unless a precondition is stated):
  Float.to_int / to_int_truncate / _to_int_den / _denormalise      round half away / truncate
  values.cint_ (-> to_integer -> Integer.from_int)                   Overflow iff |r| leaves int16
  values.fix_ / Float.itrunc, values.int_ / Float.ifloor             exact re-encoding of trunc/floor
  Float.from_int (|n| < 2^p), Float.from_integer                      exact
  Double.from_single (exact), Double.to_single (bracketing + nearest up to 1/256 ulp)
  values.mki_/mks_/mkd_/cvi_/cvs_/cvd_                                bytes preserved both ways
  Integer.to_hex/to_oct/from_hex/from_oct, values.hex_/oct_, Values.from_repr (&H/&O/& branch)
"""

from .common import *

PROPERTY = 'C03'

CLS = {'sng': numbers.Single, 'dbl': numbers.Double}


def _parts(x, cls):
    return f_neg(x), f_man(x), f_exp(x)


def _exp_case(E, x, lo, hi):
    """Fork over the exponent byte within [lo, hi]."""
    e = f_exp(x)
    E.assume(And(e >= lo, e <= hi))
    return E.concretize(e)


def _round_half_away_mag(M, k):
    """|round(M / 2^k)| with halves away from zero (k concrete)."""
    if k <= 0:
        return M * (1 << -k)
    return (2 * M + (1 << k)) // (1 << (k + 1))

def _trunc_mag(M, k):
    if k <= 0:
        return M * (1 << -k)
    return M // (1 << k)

def _denotes(E, res, cls, neg, mag, label):
    """Buffer `res` denotes exactly the number (-1)^neg * mag (mag >= 0 integer)."""
    p = f_prec(cls)
    B = 128 + p
    if isinstance(mag, int) and mag == 0:
        E.prove(f_is_zero(res), label + ': zero result is a zero encoding')
        return
    if not isinstance(mag, int) and bool(mag == 0):
        E.prove(f_is_zero(res), label + ': zero result is a zero encoding')
        return
    E.prove(Not(f_is_zero(res)), label + ': non-zero result is not a zero encoding')
    er = E.concretize(f_exp(res))
    k = B - er
    mr = f_man(res)
    if k <= 0:
        E.prove(mr * (1 << -k) == mag, label + ': magnitude exact')
    else:
        E.prove(mr == mag * (1 << k), label + ': magnitude exact')
    E.prove(Iff(f_neg(res), neg), label + ': sign')


# ---------------------------------------------------------------------------
# CINT / to_int

def t_to_int(E, kind, method, lo, hi):
    cls = CLS[kind]
    vals = values_env()
    x = new_float(E, cls, vals, 'x')
    x0 = snapshot(x)
    e = _exp_case(E, x, lo, hi)
    neg, M, _ = _parts(x, cls)
    r = E.call(getattr(x, method))
    E.prove(not r.raised, 'never raises')
    if r.raised:
        return
    k = 128 + f_prec(cls) - e
    if e == 0:
        mag = 0
    elif method == 'to_int':
        mag = _round_half_away_mag(M, k)
    else:
        mag = _trunc_mag(M, k)
    E.prove(r.value == If(neg, -mag, mag),
            'result is the value rounded half away from zero' if method == 'to_int'
            else 'result is the value truncated toward zero')
    E.prove(same_bytes(x, x0), 'operand unchanged')
    E.canary(r.value == 0, 'canary: always zero')


def t_cint(E, kind, lo, hi):
    cls = CLS[kind]
    vals = values_env()
    x = new_float(E, cls, vals, 'x')
    e = _exp_case(E, x, lo, hi)
    neg, M, _ = _parts(x, cls)
    k = 128 + f_prec(cls) - e
    mag = 0 if e == 0 else _round_half_away_mag(M, k)
    v = If(neg, -mag, mag)
    r = E.call(values.cint_, [x])
    if r.raised:
        E.cover('overflow')
        E.prove(r.is_error(BASICError, error.OVERFLOW), 'raises only Overflow')
        E.prove(Not(in_int_range(v)), 'Overflow only outside -32768..32767')
    else:
        E.cover('returns')
        E.prove(in_int_range(v), 'values rounding outside -32768..32767 must overflow')
        E.prove(isinstance(r.value, numbers.Integer), 'result is an Integer')
        E.prove(s16(r.value) == v, 'CINT rounds halves away from zero')


def t_fix_int(E, kind, fn, lo, hi):
    cls = CLS[kind]
    vals = values_env()
    x = new_float(E, cls, vals, 'x')
    x0 = snapshot(x)
    e = _exp_case(E, x, lo, hi)
    neg, M, _ = _parts(x, cls)
    k = 128 + f_prec(cls) - e
    r = E.call(getattr(values, fn), [x])
    E.prove(not r.raised, 'never raises')
    if r.raised:
        return
    res = r.value
    E.prove(type(res) is cls, 'result keeps the operand type')
    E.prove(res is not x and same_bytes(x, x0), 'operand unchanged (result is a copy)')
    if e == 0:
        _denotes(E, res, cls, False, 0, fn)
        return
    T = _trunc_mag(M, k)
    if fn == 'fix_':
        mag = T
    else:
        # floor: negative non-integers go one further from zero
        frac_zero = True if k <= 0 else (M % (1 << k) == 0)
        mag = If(And(neg, Not(frac_zero)), T + 1, T)
    mag_zero = (mag == 0)
    if bool(mag_zero):
        E.prove(f_is_zero(res), fn + ': zero result is a zero encoding')
    else:
        _denotes(E, res, cls, neg, mag, fn)


# ---------------------------------------------------------------------------
# int -> float

def t_from_int(E, kind):
    cls = CLS[kind]
    p = f_prec(cls)
    vals = values_env()
    n = E.int('n', -(1 << p) + 1, (1 << p) - 1)
    x = E.new(cls, None, vals)
    r = E.call(x.from_int, n)
    E.prove(not r.raised, 'never raises below 2^p')
    if r.raised:
        return
    E.prove(r.value is x, 'in place')
    if bool(n == 0):
        E.prove(f_is_zero(x), 'zero')
    else:
        _denotes(E, x, cls, n < 0, Abs(n), 'from_int')


def t_from_integer(E, kind):
    cls = CLS[kind]
    vals = values_env()
    i = new_integer(E, vals, 'i')
    a = s16(i)
    conv = values.to_single if kind == 'sng' else values.to_double
    r = E.call(conv, i)
    E.prove(not r.raised and type(r.value) is cls, 'returns the wider type')
    if r.raised:
        return
    if bool(a == 0):
        E.prove(f_is_zero(r.value), 'zero')
    else:
        _denotes(E, r.value, cls, a < 0, Abs(a), 'promotion of Integer')


# ---------------------------------------------------------------------------
# single <-> double

def t_from_single(E):
    vals = values_env()
    s = new_float(E, numbers.Single, vals, 's')
    s0 = snapshot(s)
    r = E.call(values.to_double, s)
    E.prove(not r.raised and type(r.value) is numbers.Double, 'returns a Double')
    if r.raised:
        return
    d = r.value
    E.prove(f_exp(d) == f_exp(s), 'same exponent byte (both biased by 128)')
    E.prove(Iff(f_neg(d), f_neg(s)), 'same sign')
    E.prove(f_man(d) == f_man(s) * (1 << 32), 'mantissa extended with zeros: same value')
    E.prove(same_bytes(s, s0), 'operand unchanged')


def t_to_single(E):
    vals = values_env()
    d = new_float(E, numbers.Double, vals, 'd')
    d0 = snapshot(d)
    e, neg, D = f_exp(d), f_neg(d), f_man(d)
    r = E.call(d.to_single)
    lo = D // (1 << 32)
    rem = D % (1 << 32)
    if r.raised:
        E.cover('overflow')
        E.prove(isinstance(r.exc, OverflowError), 'raises only OverflowError')
        # only when rounding up carries out of the largest exponent
        E.prove(And(e == 255, lo == (1 << 24) - 1, rem >= (1 << 31) - (1 << 24)),
                'OverflowError only when the rounded value exceeds the single range')
        if isinstance(r.exc, OverflowError):
            E.prove(And(Implies(neg, same_bytes(r.exc.args[0], list(numbers.Single.neg_max))),
                        Implies(Not(neg), same_bytes(r.exc.args[0], list(numbers.Single.pos_max)))),
                    'payload is the signed single maximum')
        return
    E.cover('returns')
    s = r.value
    E.prove(type(s) is numbers.Single, 'returns a Single')
    E.prove(same_bytes(d, d0), 'operand unchanged')
    if bool(e == 0):
        E.prove(f_is_zero(s), 'zero converts to zero')
        return
    ms, es = f_man(s), f_exp(s)
    E.prove(Iff(f_neg(s), neg), 'same sign')
    is_lo = And(es == e, ms == lo)
    is_hi = Or(And(es == e, ms == lo + 1), And(lo + 1 == (1 << 24), es == e + 1, ms == (1 << 23)))
    E.prove(Or(is_lo, is_hi), 'result is one of the two neighbouring singles')
    E.prove(Implies(rem == 0, is_lo), 'representable doubles convert exactly')
    E.prove(Implies(rem < (1 << 31) - (1 << 24), is_lo),
            'rounds down when more than 1/256 ulp below halfway')
    E.prove(Implies(rem > (1 << 31) + (1 << 24), is_hi),
            'rounds up when more than 1/256 ulp above halfway')
    E.canary(is_lo, 'canary: always rounds down')


# ---------------------------------------------------------------------------
# MKx$ / CVx

_MK = {'int': (values.mki_, values.cvi_, numbers.Integer),
       'sng': (values.mks_, values.cvs_, numbers.Single),
       'dbl': (values.mkd_, values.cvd_, numbers.Double)}

def t_mk(E, kind):
    mk, cv, cls = _MK[kind]
    vals = values_env(with_strings=True)
    x = E.new(cls, E.bytes('x', cls.size), vals)
    x0 = snapshot(x)
    r = E.call(mk, [x])
    E.prove(not r.raised and isinstance(r.value, strings.String), 'returns a String')
    if r.raised:
        return
    content = str_cells(E, r.value)
    E.prove(same_bytes(content, x0), 'MKx$ returns exactly the stored binary form')
    E.prove(same_bytes(x, x0), 'operand unchanged')
    # and back
    r2 = E.call(cv, [r.value])
    E.prove(not r2.raised and type(r2.value) is cls, 'CVx returns the type')
    if not r2.raised:
        E.prove(same_bytes(r2.value, x0), 'CVx(MKx$(v)) has the encoding of v')


def t_cv(E, kind, n):
    mk, cv, cls = _MK[kind]
    vals = values_env(with_strings=True)
    content = E.bytes('s', n, kind='bytes')
    s = new_string(E, vals, content)
    r = E.call(cv, [s])
    if n < cls.size:
        E.prove(r.is_error(BASICError, error.IFC), 'string shorter than the type: Illegal function call')
        return
    E.prove(not r.raised and type(r.value) is cls, 'returns a value of the type')
    if r.raised:
        return
    E.prove(same_bytes(r.value, to_cells(content)[:cls.size]),
            'the value is encoded by the first bytes of the string')
    r2 = E.call(mk, [r.value])
    if not r2.raised:
        E.prove(same_bytes(str_cells(E, r2.value), to_cells(content)[:cls.size]),
                'MKx$(CVx(s)) gives the bytes back')
    else:
        E.prove(False, 'MKx$ of a CVx value must not raise')


# ---------------------------------------------------------------------------
# HEX$ / OCT$ / &H / &O

def _digit_value(c, base):
    return If(And(c >= 48, c <= 57), c - 48, c - 55)

def _is_digit(c, base):
    if base == 8:
        return And(c >= 48, c <= 55)
    return Or(And(c >= 48, c <= 57), And(c >= 65, c <= 70))

def t_hexoct(E, base, prefix):
    vals = values_env(with_strings=True)
    x = new_integer(E, vals, 'x')
    x0 = snapshot(x)
    u = u16(x)
    fn = values.hex_ if base == 16 else values.oct_
    r = E.call(fn, [x])
    E.prove(not r.raised and isinstance(r.value, strings.String), 'returns a String')
    if r.raised:
        return
    ds = str_cells(E, r.value)
    E.prove(len(ds) >= 1, 'at least one digit')
    E.prove(And(*[_is_digit(c, base) for c in ds]), 'only (upper-case) digits of the base')
    v = 0
    for c in ds:
        v = v * base + _digit_value(c, base)
    E.prove(v == u, 'digits denote the unsigned 16-bit pattern')
    E.prove(Or(len(ds) == 1, ds[0] != 48), 'no leading zeros')
    E.prove(same_bytes(x, x0), 'operand unchanged')
    # re-read
    word = prefix + SBuf.of(ds, 'bytes') if E.mode == 'symbolic' else prefix + bytes(ds)
    r2 = E.call(vals.from_repr, word, False)
    E.prove(not r2.raised and isinstance(r2.value, numbers.Integer), 're-reading gives an Integer')
    if not r2.raised:
        E.prove(same_bytes(r2.value, x0), 're-reading yields the same integer')
        E.canary(s16(r2.value) == 0, 'canary: always zero')


def _chunks(n=8):
    step = 256 // n
    return [(i * step, (i + 1) * step - 1) for i in range(n)]


TASKS = [
    Task('Float.to_int', t_to_int,
         cases=[{'kind': k, 'method': 'to_int', 'lo': a, 'hi': b} for k in CLS for a, b in _chunks(4)]),
    Task('Float.to_int_truncate', t_to_int,
         cases=[{'kind': k, 'method': 'to_int_truncate', 'lo': a, 'hi': b} for k in CLS for a, b in _chunks(4)]),
    Task('values.cint_', t_cint, cases=[{'kind': k, 'lo': a, 'hi': b} for k in CLS for a, b in _chunks(4)],
         covers=('overflow', 'returns')),
    Task('values.fix_', t_fix_int,
         cases=[{'kind': k, 'fn': 'fix_', 'lo': a, 'hi': b} for k in CLS for a, b in _chunks(8)]),
    Task('values.int_', t_fix_int,
         cases=[{'kind': k, 'fn': 'int_', 'lo': a, 'hi': b} for k in CLS for a, b in _chunks(8)]),
    Task('Float.from_int', t_from_int, cases=[{'kind': k} for k in CLS]),
    Task('Integer -> float promotion', t_from_integer, cases=[{'kind': k} for k in CLS]),
    Task('Double.from_single', t_from_single),
    Task('Double.to_single', t_to_single, covers=('overflow', 'returns')),
    Task('MKx$', t_mk, cases=[{'kind': k} for k in _MK]),
    Task('CVx', t_cv, cases=[{'kind': k, 'n': n} for k in _MK for n in (0, 1, 2, 3, 4, 5, 7, 8, 9, 255)]),
    Task('CVx (all lengths)', t_cv, cases=[{'kind': k, 'n': n} for k in _MK for n in range(256)
                                           if n not in (0, 1, 2, 3, 4, 5, 7, 8, 9, 255)], tier='thorough'),
    Task('HEX$/&H', t_hexoct, cases=[{'base': 16, 'prefix': b'&H'}]),
    Task('OCT$/&O', t_hexoct, cases=[{'base': 8, 'prefix': b'&O'}, {'base': 8, 'prefix': b'&'}]),
]

ASSUMPTIONS = [
    'string space behind MKx$/CVx: StringSpace.store/view are the real source, DataSegment is a stand-in '
    '(fixed layout, never out of memory)',
    "b'%X' % n / b'%o' % n and int(bytes, base) are builtin summaries (digits of the base; plain-digit strings only)",
]
NOT_COVERED = [
    'Float.from_value / to_value (Python float bridge, C43)',
    'decimal text conversion (C07)',
]
