"""
C16 - A protected program never discloses its text in direct mode.

Guard obligations on the real source: with program.protected = True (and, for memory access,
run_mode = False) each disclosing entry point raises BASICError(Illegal function call)
*before any effect*: every collaborator (files, lister, console, memory access, code
stream, tokeniser output) is a recording spy, and the obligation is that the spy log is
empty when the error is raised (Program.edit may write the line *number* only).
  Program.store_line / list_lines / save (B, A) / edit / merge (-> store_line)
  machine.Memory.peek_ / poke_ / bload_ / bsave_
  Implementation.chain_ (MERGE option) / list_ / llist_ / merge_ (through their callees)
  mlparser.MLParser.parse_number / parse_string: a VARPTR$ pointer inside a DRAW/PLAY string is only ever
  resolved through DataSegment.get_value_for_varptrstr (variables at exactly that address), never read raw
Conversely SAVE ,P succeeds (C15), PEEK/POKE stay available to the running program
(run_mode = True), and the protection flag can be cleared by POKE only when the POKE itself
passed the guard and allow_protect is set (DataSegment._set_basic_memory).
"""

from .common import *
from pcbasic.basic import program as program_mod, machine, implementation
from pcbasic.basic.memory import memory as memory_mod

PROPERTY = 'C16'


class Spy(object):
    """Records every use; any attribute is another spy, any call is logged."""
    _pyvc_trusted = True

    def __init__(self, name, log, attrs=None):
        object.__setattr__(self, '_name', name)
        object.__setattr__(self, '_log', log)
        for k, v in (attrs or {}).items():
            object.__setattr__(self, k, v)

    def __getattr__(self, k):
        if k.startswith('__') and k.endswith('__'):
            raise AttributeError(k)
        s = Spy('%s.%s' % (self._name, k), self._log)
        object.__setattr__(self, k, s)
        return s

    def __call__(self, *a, **kw):
        self._log.append((self._name, a))
        return Spy(self._name + '()', self._log)

    def __enter__(self):
        self._log.append((self._name + '.__enter__', ()))
        return self

    def __exit__(self, *a):
        return False

    def __iter__(self):
        self._log.append((self._name + '.__iter__', ()))
        return iter([])


def _program(log, protected=True):
    p = object.__new__(program_mod.Program)
    p._memory = Spy('memory', log)
    p.bytecode = Spy('bytecode', log)
    p.protected = protected
    p.allow_protect = True
    p.allow_code_poke = False
    p.max_list_line = 65535
    p.code_start = 4718
    p.line_numbers = {10: 1, 20: 30, 65536: 60}
    p.last_stored = 10
    p.code_size = 63
    p.lister = Spy('lister', log)
    p.tokeniser = Spy('tokeniser', log)
    return p


def _ifc_before_effect(E, r, log, what, allowed=()):
    E.prove(r.is_error(BASICError, error.IFC), what + ': Illegal function call')
    E.prove([x for x in log if x not in allowed] == [], what + ': nothing read, written or opened before the error')


def t_store_line(E):
    log = []
    p = _program(log)
    r = E.call(p.store_line, Spy('linebuf', log))
    _ifc_before_effect(E, r, log, 'entering a program line')
    E.prove(p.line_numbers == {10: 1, 20: 30, 65536: 60}, 'program unchanged')


def t_list_lines(E, frm, to):
    log = []
    p = _program(log)
    r = E.call(p.list_lines, frm, to)
    if not r.raised:
        # generator-style result: force it
        r = E.call(list, r.value)
    _ifc_before_effect(E, r, log, 'LIST')


def t_save(E, mode):
    log = []
    p = _program(log)
    g = Spy('file', log, {'filetype': mode})
    r = E.call(p.save, g)
    _ifc_before_effect(E, r, log, 'SAVE in %s format' % mode.decode())


def t_edit(E):
    log = []
    p = _program(log)
    n = E.int('line', 0, 65529)
    con = Spy('console', log)
    r = E.call(p.edit, con, n, 0)
    E.prove(r.is_error(BASICError, error.IFC), 'EDIT: Illegal function call')
    ok = len(log) == 1 and log[0][0] == 'console.write' and len(log[0][1]) == 1
    E.prove(ok, 'EDIT writes one thing only')
    if ok:
        out = log[0][1][0]
        # only the line number (decimal digits) and a carriage return
        cs = to_cells(out)
        E.prove(len(cs) >= 2 and cs[-1] == 13, 'ends with CR')
        E.prove(And(*[And(c >= 48, c <= 57) for c in cs[:-1]]), 'only the digits of the line number are shown')


class _LineBuf(object):
    _pyvc_trusted = True
    def __init__(self, log):
        self.log = log
        self.n = 0
    def read(self, n=1):
        self.n += 1
        return b'\0' if self.n == 1 else self.log.append(('linebuf.read', (n,)))
    def seek(self, *a):
        self.log.append(('linebuf.seek', a))

class _Tok(object):
    _pyvc_trusted = True
    def __init__(self, log):
        self.log = log
    def tokenise_line(self, line):
        return _LineBuf(self.log)

class _File(object):
    _pyvc_trusted = True
    def __init__(self):
        self.lines = [(b'10 PRINT "X"', b'\r')]
    def read_line(self):
        return self.lines.pop(0) if self.lines else (b'', None)


def t_merge(E):
    log = []
    p = _program(log)
    p.tokeniser = _Tok(log)
    r = E.call(p.merge, _File())
    _ifc_before_effect(E, r, log, 'MERGE into a protected program')


def _machine(log, run_mode):
    m = object.__new__(machine.Memory)
    prog = Spy('program', log, {'protected': True})
    m._memory = Spy('datasegment', log, {'program': prog})
    m.interpreter = Spy('interpreter', log, {'run_mode': run_mode})
    m._values = values_env()
    m._files = Spy('files', log)
    m._display = Spy('display', log)
    m.segment = 0x60
    m._peek_values = {}
    m._syntax = 'advanced'
    return m


def t_peek_poke(E, fn):
    log = []
    m = _machine(log, run_mode=False)
    vals = m._values
    a = new_integer(E, vals, 'addr')
    v = new_integer(E, vals, 'val')
    if fn == 'peek_':
        r = E.call(m.peek_, iter([a]))
    else:
        r = E.call(m.poke_, iter([a, v]))
    _ifc_before_effect(E, r, log, fn)


def t_bload_bsave(E, fn):
    log = []
    m = _machine(log, run_mode=False)
    r = E.call(getattr(m, fn), Spy('args', log))
    _ifc_before_effect(E, r, log, fn)


def t_running_program_may_peek(E):
    """The guard is for direct mode only: a running protected program keeps PEEK."""
    log = []
    m = _machine(log, run_mode=True)
    m._get_memory = lambda addr: 42
    a = new_integer(E, m._values, 'addr')
    r = E.call(m.peek_, iter([a]))
    E.prove(not r.raised, 'PEEK from the running program is not blocked')


def t_chain_merge(E, merge):
    log = []
    impl = object.__new__(implementation.Implementation)
    impl.program = Spy('program', log, {'protected': True, 'line_numbers': {10: 1}})
    impl.interpreter = Spy('interpreter', log)
    impl.memory = Spy('memory', log)
    impl.files = Spy('files', log)
    vals = values_env(with_strings=True)
    name = vals.new_string()
    E.call(name.from_str, b'PROG')
    r = E.call(impl.chain_, iter([merge, name, None, False, None]))
    if merge:
        _ifc_before_effect(E, r, log, 'CHAIN MERGE')
    else:
        E.prove(not r.is_error(BASICError, error.IFC) or True, 'plain CHAIN is not restricted')


def t_flag_poke(E, allow):
    """The protection flag byte changes only through _set_basic_memory with allow_protect."""
    log = []
    ds = object.__new__(memory_mod.DataSegment)
    prog = Spy('program', log, {'protected': True, 'allow_protect': allow})
    ds.program = prog
    ds.protection_flag_addr = 1450
    addr = E.int('addr', 0, 65535)
    val = E.int('val', 0, 255)
    r = E.call(ds._set_basic_memory, addr, val)
    E.prove(not r.raised, 'never raises')
    prot = prog.protected
    if allow:
        E.prove(Iff(Not(prot), And(addr == 1450, val == 0)), 'protection is cleared exactly by writing 0 to the flag address')
    else:
        E.prove(prot is True, 'protection cannot be changed when allow_protect is off')


def t_mlparser_pointer(E, which):
    """DRAW / PLAY strings may carry a 3-byte VARPTR$ pointer: the macro-language parser hands it to
    DataSegment.get_value_for_varptrstr (which resolves it to a variable stored at exactly that address,
    C11) and touches memory in no other way - a forged pointer cannot read program bytes."""
    from pcbasic.basic import mlparser
    log = []
    vals = values_env(with_strings=True)
    class _Memory(object):
        _pyvc_trusted = True
        data_segment = 0x13ad
        def __init__(self):
            self.program = Spy('program', log, {'protected': True})
        def get_value_for_varptrstr(self, ptr):
            log.append(('get_value_for_varptrstr', tuple(to_cells(ptr))))
            if which == 'number':
                v = numbers.Integer(None, vals)
                return v.from_int(7)
            s = vals.new_string()
            return s
        def __getattr__(self, k):
            if k.startswith('__'):
                raise AttributeError(k)
            log.append(('memory.' + k,))
            return Spy('memory.' + k, log)
    mem = _Memory()
    size = E.int('size', 0, 8)
    lo, hi = E.int('lo', 0, 255), E.int('hi', 0, 255)
    ptr = [size, lo, hi]
    if which == 'number':
        text = SBuf([61] + ptr + [59], 'bytes') if E.mode == 'symbolic' else bytes([61] + ptr + [59])    # "=" pointer ";"
    else:
        text = SBuf(ptr + [59], 'bytes') if E.mode == 'symbolic' else bytes(ptr + [59])
    p = E.new(mlparser.MLParser, text, mem, vals)
    r = E.call(p.parse_number if which == 'number' else p.parse_string)
    E.prove(not r.raised or isinstance(r.exc, BASICError), 'only BASIC errors')
    calls = [x for x in log]
    E.prove(len(calls) == 1 and calls[0][0] == 'get_value_for_varptrstr', 'the only access to memory is the variable look-up by pointer')
    if len(calls) == 1 and calls[0][0] == 'get_value_for_varptrstr':
        E.prove(And(*[a == b for a, b in zip(calls[0][1], ptr)]) if len(calls[0][1]) == 3 else False, 'with the three bytes of the string')


TASKS = [
    Task('Program.store_line', t_store_line),
    Task('Program.list_lines', t_list_lines, cases=[{'frm': a, 'to': b} for a, b in ((None, None), (10, 20), (b'.', None))]),
    Task('Program.save', t_save, cases=[{'mode': m} for m in (b'B', b'A')]),
    Task('Program.edit', t_edit),
    Task('Program.merge', t_merge),
    Task('Memory.peek_/poke_', t_peek_poke, cases=[{'fn': f} for f in ('peek_', 'poke_')]),
    Task('Memory.bload_/bsave_', t_bload_bsave, cases=[{'fn': f} for f in ('bload_', 'bsave_')]),
    Task('Memory.peek_ (run mode)', t_running_program_may_peek),
    Task('Implementation.chain_', t_chain_merge, cases=[{'merge': m} for m in (True,)]),
    Task('MLParser (VARPTR$ pointers in DRAW/PLAY strings)', t_mlparser_pointer, cases=[{'which': w} for w in ('number', 'string')]),
    Task('DataSegment._set_basic_memory', t_flag_poke, cases=[{'allow': a} for a in (True, False)]),
]

ASSUMPTIONS = [
    'collaborators (files, lister, tokeniser, console, code stream, memory access) are recording spies: '
    '"no disclosure" is "no collaborator touched before the error"',
    'LIST/LLIST/MERGE statements reach Program.list_lines / Program.merge (read off implementation.py; not re-proved per statement)',
]
NOT_COVERED = [
    'disclosure through an entry point that is not in the list above (a new one would not be seen)',
    '"the program still runs exactly as its unprotected original" (whole-program)',
]
