"""
C39 - RND is a deterministic full-period sequence in [0, 1).

Under contract: Randomiser.clear / _cycle / rnd_ / reseed (with Float.from_int, idiv,
_div_den, _normalise, mantissa, values.to_single from the real source).

 * _cycle:  seed' = (214013*seed + 2531011) mod 2^24, and 0 <= seed < 2^24 is an invariant.
 * full period: lemma chain over that contract. T^n is the affine map s -> A_n*s + C_n (mod m);
   composition of affine maps gives A_2n = A_n^2, C_2n = (A_n + 1)*C_n, so A, C for n = 2^23
   and 2^24 are computed by 23/24 squarings from the constants *read from the class*. Then
   z3 proves for all s: T^(2^24)(s) = s and T^(2^23)(s) != s. Every cycle length divides
   2^24, and none divides 2^23, so every state lies on one cycle of length exactly 2^24.
 * rnd_: returns the single whose value is exactly seed/2^24 (in [0, 1)); RND(0) leaves the
   state; RND(x<0) sets seed = mantissa(x) first; plain RND / RND(x>0) advance one step.
   The 32-step long division by the constant 2^24 is executed with state merging (one
   path) and decided by the bit-vector back end.
 * reseed: new state depends only on the argument's bytes and the old state mod 256.
"""

from .common import *
from pcbasic.basic.values import randomiser
from . import C04 as c04

PROPERTY = 'C39'

M = 1 << 24
A0 = 214013
C0 = 2531011
SEED0 = 5228370


def _rnd(vals, seed):
    r = object.__new__(randomiser.Randomiser)
    r._values = vals
    r._seed = seed
    return r


def t_constants(E):
    R = randomiser.Randomiser
    E.prove(R._period == M, 'period constant is 2^24')
    E.prove(R._multiplier == A0 and R._increment == C0, 'multiplier and increment of the fixed sequence')


def t_cycle(E):
    vals = values_env()
    s = E.int('seed', 0, M - 1)
    r = _rnd(vals, s)
    out = E.call(r._cycle)
    E.prove(not out.raised, 'never raises')
    E.prove(r._seed == (A0 * s + C0) % M, 'next state of the linear congruential sequence')
    E.prove(And(r._seed >= 0, r._seed < M), 'state stays in [0, 2^24)')
    E.canary(r._seed == s, 'canary: state never changes')


def _power_map(k):
    """Affine map of T^(2^k) from the class constants, by squaring."""
    R = randomiser.Randomiser
    a, c, m = R._multiplier % R._period, R._increment % R._period, R._period
    for _ in range(k):
        a, c = (a * a) % m, ((a + 1) * c) % m
    return a, c, m


def t_compose(E):
    """Composition step used by the squaring: (A, C) o (A, C) = (A^2, (A+1)*C)  (mod m)."""
    m = randomiser.Randomiser._period
    a = E.int('A', 0, m - 1)
    c = E.int('C', 0, m - 1)
    s = E.int('s', 0, m - 1)
    E.nl_mode = 'exact'
    once = (a * s + c) % m
    twice = (a * once + c) % m
    E.prove(twice == ((a * a) * s + (a + 1) * c) % m, 'composition of affine maps modulo m')


def t_full_period(E):
    a23, c23, m = _power_map(23)
    a24, c24, _ = _power_map(24)
    s = E.int('s', 0, m - 1)
    E.prove((a24 * s + c24) % m == s, 'T^(2^24) is the identity: every cycle length divides 2^24')
    E.prove((a23 * s + c23) % m != s, 'T^(2^23) has no fixed point: no cycle length divides 2^23')
    E.canary((a23 * s + c23) % m > s, 'canary: T^(2^23)(s) > s')


def _check_value(E, res, seed):
    """res is the single with value exactly seed / 2^24, in [0, 1)."""
    E.prove(type(res) is numbers.Single, 'returns a Single')
    if isinstance(seed, int) and seed == 0:
        E.prove(f_is_zero(res), 'seed 0 gives 0')
        return
    E.prove(Implies(seed == 0, f_is_zero(res)), 'seed 0 gives 0')
    for e in E.each_value(f_exp(res)):
        if e == 0:
            E.prove(seed == 0, 'zero only for seed 0')
            continue
        # value = M * 2^(e - 152) = seed / 2^24  <=>  M * 2^(e - 128) = seed
        k = e - 128
        E.prove(k <= 0, 'value below 1')
        if k <= 0:
            E.prove(f_man(res) == seed * (1 << -k), 'value is exactly seed / 2^24')
        E.prove(Not(f_neg(res)), 'value is not negative')


def t_rnd_plain(E, arg):
    vals = values_env()
    s = E.int('seed', 0, M - 1)
    r = _rnd(vals, s)
    if E.mode == 'symbolic':
        E.interp.merge_ifs = True
        E.prefer_bv = True
        E.BV_WIDTH = 52
    if arg == 'none':
        a = None
    elif arg == 'zero':
        a = new_float(E, numbers.Single, vals, 'x')
        E.assume(f_is_zero(a))
    else:
        a = new_float(E, numbers.Single, vals, 'x')
        E.assume(And(Not(f_is_zero(a)), Not(f_neg(a))))
    out = E.call(r.rnd_, [a])
    E.prove(not out.raised, 'never raises')
    if out.raised:
        return
    nxt = s if arg == 'zero' else (A0 * s + C0) % M
    E.prove(r._seed == nxt, 'RND(0) keeps the state' if arg == 'zero' else 'state advances one step')
    _check_value(E, out.value, r._seed)


def t_rnd_negative(E):
    """RND(x<0): the state becomes mantissa(x), then one step. The value returned is
    from_int(state) / from_int(2^24) exactly as in the other branches (proved there for every
    state), so the division is replaced by a recording stub here (modular step)."""
    vals = values_env()
    s = E.int('seed', 0, M - 1)
    r = _rnd(vals, s)
    a = new_float(E, numbers.Single, vals, 'x')
    E.assume(And(Not(f_is_zero(a)), f_neg(a)))
    calls = []
    if E.mode == 'symbolic':
        E.interp.contracts[numbers.Float._denormalise] = c04._denormalise_contract
        def h(I, args, kw):
            calls.append((args[0], args[1]))
            return args[0]
        E.interp.contracts[numbers.Float.idiv] = h
    mant = f_man(a)
    out = E.call(r.rnd_, [a])
    E.prove(not out.raised, 'never raises')
    if out.raised:
        return
    E.prove(r._seed == (A0 * mant + C0) % M,
            'negative argument reseeds with its mantissa (independent of the old state), then one step')
    if E.mode == 'symbolic':
        E.prove(len(calls) == 1, 'the value is one division')
        if len(calls) == 1:
            num, den = calls[0]
            seed = r._seed
            # numerator denotes the state exactly, denominator 2^24
            E.prove(And(f_exp(den) == 128 + 25, f_man(den) == 1 << 23, Not(f_neg(den))), 'divisor is 2^24')
            for e in E.each_value(f_exp(num)):
                if e == 0:
                    E.prove(seed == 0, 'numerator zero only for state 0')
                else:
                    k = 152 - e
                    E.prove(k >= 0, 'numerator below 2^24')
                    if k >= 0:
                        E.prove(f_man(num) == seed * (1 << k), 'numerator is the state, exactly')


def t_rnd_converts(E, kind):
    """Integer / Double arguments are converted to single first (value-preserving, C03)."""
    vals = values_env()
    r = _rnd(vals, E.int('seed', 0, M - 1))
    cls = {'int': numbers.Integer, 'dbl': numbers.Double}[kind]
    a = E.new(cls, E.bytes('x', cls.size), vals)
    calls = []
    if E.mode == 'symbolic':
        def h(I, args, kw):
            calls.append(args[0])
            out = E.new(numbers.Single, E.bytes('conv', 4), vals)
            return out
        E.interp.contracts[values.to_single] = h
        E.interp.contracts[numbers.Float.idiv] = lambda I, args, kw: args[0]
        E.interp.merge_ifs = True
        E.prefer_bv = True
        E.BV_WIDTH = 52
        out = E.call(r.rnd_, [a])
        E.prove(len(calls) == 1 and calls[0] is a, 'argument converted to single exactly once')
    else:
        out = E.call(r.rnd_, [a])
    E.prove(not out.raised or isinstance(out.exc, (BASICError, OverflowError)), 'only arithmetic errors')


def _xor8(a, b):
    return sum_bits([If(bit(a, i) != bit(b, i), 1 << i, 0) for i in range(8)])

def sum_bits(xs):
    t = 0
    for x in xs:
        t = t + x
    return t

def t_reseed(E, kind):
    vals = values_env()
    s = E.int('seed', 0, M - 1)
    r = _rnd(vals, s)
    cls = {'int': numbers.Integer, 'sng': numbers.Single, 'dbl': numbers.Double}[kind]
    v = E.new(cls, E.bytes('x', cls.size), vals)
    v0 = snapshot(v)
    out = E.call(r.reseed, v)
    E.prove(not out.raised, 'never raises')
    if out.raised:
        return
    b = v0
    lo, hi = b[-2], b[-1]
    if len(b) >= 4:
        lo, hi = _xor8(lo, b[-4]), _xor8(hi, b[-3])
    n = lo + 256 * hi
    n = If(n >= 32768, n - 65536, n)
    step = randomiser.Randomiser._step
    expect = ((A0 * (s % 256) + C0) % M + n * step) % M
    E.prove(r._seed == expect, 'new state is a function of the argument bytes and the old state mod 256 only')
    E.prove(And(r._seed >= 0, r._seed < M), 'state stays in [0, 2^24)')
    E.prove(same_bytes(v, v0), 'argument unchanged')


def t_clear(E):
    vals = values_env()
    r = _rnd(vals, E.int('seed', 0, M - 1))
    E.call(r.clear)
    E.prove(r._seed == SEED0, 'RUN/CLEAR restart the sequence at the fixed seed')
    r2 = E.new(randomiser.Randomiser, vals)
    E.prove(r2._seed == SEED0, 'a new generator starts at the fixed seed')


def t_reset_history(E, draws):
    """History: draw numbers, reset (RUN / CLEAR / NEW call clear()), then RND(0) and RND behave exactly as
    on a generator that has never been used - no value from before the reset is seen again."""
    vals = values_env()
    used = E.new(randomiser.Randomiser, vals)
    for _ in range(draws):
        E.call(used.rnd_, [None])
    E.call(used.clear)
    fresh = E.new(randomiser.Randomiser, vals)
    zero = E.new(numbers.Single, None, vals)
    a = E.call(used.rnd_, [zero])
    b = E.call(fresh.rnd_, [zero])
    E.prove(not a.raised and not b.raised, 'never raises')
    if not a.raised and not b.raised:
        E.prove(same_bytes(a.value, b.value), 'RND(0) right after a reset is the value of a fresh generator')
    a = E.call(used.rnd_, [None])
    b = E.call(fresh.rnd_, [None])
    if not a.raised and not b.raised:
        E.prove(same_bytes(a.value, b.value), 'and so is the next RND')


def t_randomize_statement(E, kind):
    """RANDOMIZE n hands n to the reseeding unchanged - in its own type, bit for bit (the seed depends on
    the internal bytes of the argument, so a conversion on the way changes the sequence)."""
    from pcbasic.basic import implementation
    vals = values_env()
    cls = {'int': numbers.Integer, 'sng': numbers.Single, 'dbl': numbers.Double}[kind]
    v = E.new(cls, E.bytes('arg', cls.size), vals)
    v0 = snapshot(v)
    got = []
    class _R(object):
        _pyvc_trusted = True
        def reseed(self, val):
            got.append((type(val), list(to_cells(val._buffer))))
    impl = object.__new__(implementation.Implementation)
    impl.randomiser = _R()
    impl.values = vals
    r = E.call(impl.randomize_, iter([v]))
    E.prove(not r.raised and len(got) == 1, 'RANDOMIZE n reseeds once')
    if len(got) == 1:
        E.prove(got[0][0] is cls, 'with the argument in its own type')
        E.prove(same_bytes(got[0][1], v0), 'and its own bytes')


TASKS = [
    Task('Implementation.randomize_', t_randomize_statement, cases=[{'kind': k} for k in ('int', 'sng', 'dbl')]),
    Task('Randomiser constants', t_constants),
    Task('Randomiser._cycle', t_cycle),
    Task('lemma: composition of affine maps', t_compose),
    Task('lemma: full period 2^24', t_full_period),
    Task('Randomiser.rnd_', t_rnd_plain, cases=[{'arg': a} for a in ('none', 'zero', 'positive')]),
    Task('Randomiser.rnd_(negative)', t_rnd_negative),
    Task('Randomiser.rnd_(argument conversion)', t_rnd_converts, cases=[{'kind': k} for k in ('int', 'dbl')]),
    Task('Randomiser.reseed', t_reseed, cases=[{'kind': k} for k in ('int', 'sng', 'dbl')]),
    Task('Randomiser.clear', t_clear),
    Task('draw, reset, RND(0)', t_reset_history, cases=[{'draws': d} for d in (0, 1, 3)]),
]

ASSUMPTIONS = [
    'full period: the squaring schedule (23/24 compositions of the affine map with itself) is carried out by the '
    'contract in exact integer arithmetic; each composition step is justified by the proved composition lemma',
    'Interpreter-level RUN/CLEAR calling Randomiser.clear is part of C23',
]
NOT_COVERED = ['RANDOMIZE prompt and argument parsing (statement layer)']
