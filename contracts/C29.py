"""
C29 - Files written to a cassette image read back intact (record framing core).

Under contract (real source, devices/cassette.py): CassetteStream.write, read, _flush_record_buffer,
_close_record_buffer, _fill_record_buffer, open_write, open_read, _write_record, _read_record,
_write_block, _read_block, and CASTextFile.close's terminator convention. The bit-level encodings
(CASBitStream / WAVBitStream: pulses, sync, leader) are replaced by a *byte tape* stand-in that
stores what write_byte is given and plays it back (leader / trailer marks kept as separators);
crc() is taken by contract as an arbitrary fixed function of the block (the same value on both
sides).
Contracts (contents symbolic, lengths case parameters):
  block   : _write_block pads to 256 bytes with the last byte and appends the CRC high byte first;
            _read_block returns exactly the 256 bytes written and rejects a wrong CRC
  text/data files ('D', 'A'): the bytes written (in any split into write calls), followed by the NUL
            that CASTextFile.close appends, are framed as full records "00 + 255 bytes" and one
            final record "count + bytes"; reading returns exactly the bytes written (without the
            terminator), consumes exactly the records of this file and leaves the next file's
            header on the tape - files never mix
  binary files ('B', 'P', 'M'): one multi-block record; reading returns exactly `length` bytes
  header  : open_read after open_write returns the same name, type, segment, offset and length
Found by this contract and repaired in /repo (fix: f-commit in known_findings.jsonl): when the length
of a text/data file plus its terminator was a multiple of 255 (254, 509, ... bytes) no final record
was written and the reader ran on into the next file.
"""

from .common import *
from pcbasic.basic.devices import cassette

PROPERTY = 'C29'


class Tape(object):
    """Byte tape: records are lists of bytes between leader and trailer marks."""
    _pyvc_trusted = True

    def __init__(self):
        self.records = []     # each: list of byte cells
        self.cur = None
        self.rpos = 0         # next record to play
        self.bpos = 0
        self.mode = 'w'
        self.pauses = 0

    def switch_mode(self, mode):
        self.mode = mode

    def write_leader(self):
        self.cur = []

    def write_byte(self, b):
        self.cur.append(b)

    def write_trailer(self):
        self.records.append(self.cur)
        self.cur = None

    def write_pause(self, ms):
        self.pauses += 1

    def read_leader(self):
        if self.rpos >= len(self.records):
            return False
        self.bpos = 0
        return True

    def read_byte(self):
        rec = self.records[self.rpos]
        if self.bpos >= len(rec):
            return None
        b = rec[self.bpos]
        self.bpos += 1
        return b

    def read_trailer(self):
        self.rpos += 1

    def counter(self):
        return 0

    def wind(self, loc):
        self.rpos = loc


def _crc_contract(E):
    """crc(data): an arbitrary fixed function - here a weak checksum that still depends on every byte."""
    def h(I, args, kw):
        cs = to_cells(args[0])
        total = 0
        for i, c in enumerate(cs):
            total = total + c * ((i % 7) + 1)
        return total % 65536
    return h


def _stream(E):
    if E.mode == 'symbolic':
        E.interp.symbolic_bytesio = True
        E.interp.contracts[cassette.crc] = _crc_contract(E)
    tape = Tape()
    cs = E.new(cassette.CassetteStream, tape)
    return cs, tape


def _split(L, pattern):
    """Split points for writing L bytes in several write calls."""
    if pattern == 'once':
        return [L]
    if pattern == 'bytes':
        return [1] * L
    if pattern == 'odd':
        out, left, k = [], L, 1
        while left > 0:
            n = min(left, (k * 97) % 300 + 1)
            out.append(n)
            left -= n
            k += 1
        return out
    raise ValueError(pattern)


def t_text_file(E, L, pattern, ftype):
    cs, tape = _stream(E)
    data = [E.int('d[%d]' % i, 1, 255) for i in range(L)]
    r = E.call(cs.open_write, b'DATA', ftype, 0, 0, 0)
    E.prove(not r.raised, 'open for output')
    pos = 0
    for n in _split(L, pattern):
        piece = data[pos:pos + n]
        pos += n
        r = E.call(cs.write, SBuf(piece, 'bytes') if E.mode == 'symbolic' else bytes(piece))
        E.prove(not r.raised, 'write never raises')
    # CASTextFile.close: terminate with NUL, then close the stream
    E.call(cs.write, b'\0')
    r = E.call(cs.close)
    E.prove(not r.raised, 'close never raises')
    own = len(tape.records)
    # framing on the tape: header + full records + one final record
    total = L + 1
    # full records of 255 bytes, and always a final record of 1..255 bytes (count byte = its length)
    full, rest = divmod(total - 1, 255)
    E.prove(own == 1 + full + 1, 'header record, full records, and always one final record')
    last = tape.records[own - 1]
    E.prove(len(last) == 258 and bool(last[0] == rest + 1), 'the final record starts with the count of its bytes (terminator included)')
    # the next file on the tape
    r = E.call(cs.open_write, b'NEXT', b'D', 0, 0, 0)
    E.call(cs.write, b'other file')
    E.call(cs.write, b'\0')
    E.call(cs.close)
    # play back
    tape.rpos = 0
    r = E.call(cs.open_read)
    E.prove(not r.raised, 'the header is found')
    if r.raised:
        return
    name, typ, seg, offs, length = r.value
    E.prove(bytes(name) == b'DATA    ' and typ == ftype, 'name and type read back')
    r = E.call(cs.read, -1)
    E.prove(not r.raised, 'read never raises')
    if r.raised:
        return
    got = list(to_cells(r.value))
    E.prove(len(got) == L, 'exactly the bytes written come back (terminator dropped)')
    if len(got) == L:
        E.prove(cells_equal(got, data) if L else True, 'with the same contents in the same order')
    E.prove(tape.rpos == own, 'exactly the records of this file were consumed: the next file is untouched')
    r = E.call(cs.open_read)
    E.prove(not r.raised and bytes(r.value[0]) == b'NEXT    ', 'the next file is found next')


def t_binary_file(E, L, ftype):
    cs, tape = _stream(E)
    data = [E.int('d[%d]' % i, 0, 255) for i in range(L)]
    r = E.call(cs.open_write, b'PROG', ftype, 0x60, 0x100, L)
    E.prove(not r.raised, 'open for output')
    half = L // 2
    for piece in (data[:half], data[half:]):
        E.call(cs.write, SBuf(piece, 'bytes') if (E.mode == 'symbolic' and piece) else bytes(piece))
    r = E.call(cs.close)
    E.prove(not r.raised, 'close never raises')
    own = len(tape.records)
    E.prove(own == (2 if L else 1), 'header record and one data record')
    E.call(cs.open_write, b'NEXT', b'D', 0, 0, 0)
    E.call(cs.write, b'x\0')
    E.call(cs.close)
    tape.rpos = 0
    r = E.call(cs.open_read)
    E.prove(not r.raised, 'the header is found')
    if r.raised:
        return
    name, typ, seg, offs, length = r.value
    E.prove(bytes(name) == b'PROG    ' and typ == ftype and seg == 0x60 and offs == 0x100 and length == L,
            'name, type, segment, offset and length read back')
    if L == 0:
        return
    r = E.call(cs.read, -1)
    E.prove(not r.raised, 'read never raises')
    if r.raised:
        return
    got = list(to_cells(r.value))
    E.prove(len(got) == L and bool(cells_equal(got, data)), 'exactly the bytes written come back')
    E.prove(tape.rpos == own, 'exactly the records of this file were consumed')


def t_block(E, n):
    cs, tape = _stream(E)
    data = [E.int('d[%d]' % i, 0, 255) for i in range(n)]
    tape.write_leader()
    r = E.call(cs._write_block, SBuf(data, 'bytes') if E.mode == 'symbolic' else bytes(data))
    tape.write_trailer()
    E.prove(not r.raised, 'write never raises')
    rec = tape.records[0]
    E.prove(len(rec) == 258, 'a block is 256 data bytes and 2 CRC bytes')
    want = data + [data[-1]] * (256 - n)
    E.prove(cells_equal(rec[:256], want), 'short blocks are filled out with the last byte')
    tape.rpos = 0
    tape.read_leader()
    r = E.call(cs._read_block)
    E.prove(not r.raised and bool(cells_equal(list(to_cells(r.value)), want)) if not r.raised else False,
            'the block reads back as written')
    # a damaged byte is detected
    k = E.int('k', 0, 255)
    kk = E.concretize(k)
    old = rec[kk]
    rec[kk] = If(old == 255, 254, old + 1)
    tape.bpos = 0
    r = E.call(cs._read_block)
    E.prove(r.is_error(cassette.CRCError), 'a changed data byte is rejected by the CRC check')


class _Console(object):
    _pyvc_trusted = True
    def __init__(self):
        self.lines = []
    def write_line(self, s):
        self.lines.append(s)


def t_search(E, first_len):
    """CASDevice._search: finds a file by name, skips the others, and a failed search leaves the tape usable."""
    cs, tape = _stream(E)
    dev = object.__new__(cassette.CASDevice)
    dev.tapestream = cs
    dev.is_quiet = False
    dev.console = _Console()
    one = [E.int('one[%d]' % i, 1, 255) for i in range(first_len)]
    two = [E.int('two[%d]' % i, 1, 255) for i in range(3)]
    for name, data in ((b'ONE', one), (b'TWO', two)):
        E.call(cs.open_write, name, b'D', 0, 0, 0)
        E.call(cs.write, (SBuf(data, 'bytes') if E.mode == 'symbolic' else bytes(data)) if data else b'')
        E.call(cs.write, b'\0')
        E.call(cs.close)
    tape.rpos = 0
    r = E.call(dev._search, b'NOSUCH', None)
    E.prove(r.is_error(BASICError, error.DEVICE_TIMEOUT), 'a file that is not on the tape: Device Timeout')
    E.prove(cs.is_open is False, 'and no file is left open')
    E.prove(tape.rpos == 0, 'and the tape is rewound')
    r = E.call(dev._search, b'TWO', None)
    E.prove(not r.raised, 'the second file is found by name')
    if r.raised:
        return
    trunk, ftype, seg, offs, length = r.value
    E.prove(bytes(trunk) == b'TWO     ' and ftype == b'D', 'with its own header')
    got = E.call(cs.read, -1)
    E.prove(not got.raised and len(to_cells(got.value)) == 3 and bool(cells_equal(list(to_cells(got.value)), two)),
            'and reading returns the second file\'s contents, nothing of the first')
    E.prove(any(bytes(l).startswith(b'ONE') and bytes(l).endswith(b'Skipped.') for l in dev.console.lines), 'the first file is reported as skipped')


class _Headers(object):
    """Tape stream stand-in for _search: delivers the given headers, then the end of the tape."""
    _pyvc_trusted = True
    def __init__(self, headers):
        self.headers = list(headers)
        self.is_open = False
        self.wound = []
    def open_read(self):
        if not self.headers:
            raise cassette.EndOfTape()
        self.is_open = True
        return self.headers.pop(0)
    def counter(self):
        return 0
    def wind(self, pos):
        self.wound.append(pos)


def t_search_decision(E, k, kh, types):
    """_search's decision for one header, all names: a file is Found exactly when its recorded name
    (8 characters, space padded) is the requested name padded the same way - a name that merely begins
    with the requested name is Skipped - and its type is among the requested types; an empty request
    matches any name."""
    req = [E.int('req[%d]' % i, 33, 126) for i in range(k)]
    nam = [E.int('name[%d]' % i, 33, 126) for i in range(kh)]
    mk = (lambda cells: SBuf(cells, 'bytes')) if E.mode == 'symbolic' else (lambda cells: bytes(cells))
    trunk = mk(nam + [32] * (8 - kh))
    dev = object.__new__(cassette.CASDevice)
    ts = _Headers([(trunk, b'D', 0, 0, 0)])
    dev.tapestream = ts
    dev.is_quiet = False
    dev.console = _Console()
    r = E.call(dev._search, mk(req) if k else b'', types)
    same = (k == 0) or (k == kh and bool(And(*[a == b for a, b in zip(req, nam)])))
    type_ok = types is None or b'D' in types
    if same and type_ok:
        E.cover('found')
        E.prove(not r.raised, 'a file with the requested name and type is found')
        if not r.raised:
            E.prove(bool(buf_equal(r.value[0], trunk)) and r.value[1] == b'D', 'its own header is returned')
        E.prove(len(dev.console.lines) == 1 and bool(dev.console.lines[0].endswith(b'.D Found.')), 'and reported as Found')
    else:
        E.cover('skipped')
        E.prove(r.is_error(BASICError, error.DEVICE_TIMEOUT), 'a file with another name (even one that begins with the requested name) or type is not delivered')
        E.prove(len(dev.console.lines) == 1 and bool(dev.console.lines[0].endswith(b'.D Skipped.')), 'it is reported as Skipped')
        E.prove(ts.is_open is False and ts.wound == [0], 'and the tape is left closed and rewound')


def t_skip_text_file(E, L):
    """Skipping a data file of L bytes: the search reports it once as Skipped and then finds the next file."""
    cs, tape = _stream(E)
    dev = object.__new__(cassette.CASDevice)
    dev.tapestream = cs
    dev.is_quiet = False
    dev.console = _Console()
    if (L + 1) % 255 == 0xa5:
        # recorded, open finding: the final record of such a file starts with the count byte 0xa5,
        # which is also the header marker (the tape format cannot tell them apart)
        if E.known_finding('C29-final-record-count-is-header-marker', True):
            return
    for name, data in ((b'FIRST', b'X' * L), (b'SECOND', b'two')):
        E.call(cs.open_write, name, b'D', 0, 0, 0)
        E.call(cs.write, data)
        E.call(cs.write, b'\0')
        E.call(cs.close)
    tape.rpos = 0
    r = E.call(dev._search, b'SECOND', None)
    E.prove(not r.raised, 'the second file is found')
    E.prove([bytes(l) for l in dev.console.lines] == [b'FIRST   .D Skipped.', b'SECOND  .D Found.'],
            'the skipped file is reported once, and nothing else is taken for a file')
    if not r.raised:
        got = E.call(cs.read, -1)
        E.prove(not got.raised and bytes(got.value) == b'two', 'and the second file reads back as written')


class _MFile(object):
    """A file opened by BLOAD: header fields and the bytes read() delivers."""
    _pyvc_trusted = True
    def __init__(self, seg, offset, length, data):
        self.seg, self.offset, self.length, self.data = seg, offset, length, data
    def read(self):
        return self.data
    def __enter__(self):
        return self
    def __exit__(self, *a):
        return False


class _Files(object):
    _pyvc_trusted = True
    def __init__(self, f):
        self.f = f
    def open(self, *a, **kw):
        return self.f


def t_bload(E, n, device):
    """BLOAD stores exactly the image: a cassette file is the image itself, a disk file is the image
    followed by an end-of-file marker."""
    from pcbasic.basic import machine
    image = [E.int('img[%d]' % i, 0, 255) for i in range(n)]
    data = image + ([0x1a] if device == 'disk' else [])
    f = _MFile(0xb800, 0x10, n, SBuf(data, 'bytes') if E.mode == 'symbolic' else bytes(data))
    m = object.__new__(machine.Memory)
    class _P(object):
        _pyvc_trusted = True
        protected = False
    class _DS(object):
        _pyvc_trusted = True
        program = _P()
    m._memory = _DS()
    m._files = _Files(f)
    m._syntax = 'advanced'
    m._values = values_env(with_strings=True)
    stored = []
    if E.mode == 'symbolic':
        E.interp.contracts[machine.Memory._set_memory_block] = lambda I, args, kw: stored.append((args[1], list(to_cells(args[2]))))
    else:
        m._set_memory_block = lambda addr, buf: stored.append((addr, list(buf)))
    name = new_string(E, m._values, b'CAS1:BLK')
    r = E.call(m.bload_, iter([name, None]))
    E.prove(not r.raised and len(stored) == 1, 'BLOAD stores one block')
    if r.raised or len(stored) != 1:
        return
    addr, buf = stored[0]
    E.prove(addr == 0xb800 * 16 + 0x10, 'at the address recorded in the header')
    E.prove(len(buf) == n, 'exactly the image: no byte dropped, the end-of-file marker of a disk file not stored')
    if len(buf) == n:
        E.prove(cells_equal(buf, image), 'with the bytes that were saved')


TASKS = [
    Task('text/data file framing', t_text_file, timeout_ms=20000,
         cases=[{'L': L, 'pattern': p, 'ftype': t} for L, p, t in (
             (0, 'once', b'D'), (1, 'once', b'D'), (5, 'bytes', b'D'), (253, 'once', b'D'), (253, 'odd', b'A'),
             (254, 'once', b'D'), (255, 'once', b'D'), (255, 'odd', b'A'), (256, 'once', b'D'), (300, 'odd', b'D'),
             (508, 'odd', b'D'), (509, 'odd', b'D'), (510, 'once', b'A'), (511, 'odd', b'D'), (600, 'once', b'D'))]),
    Task('binary file framing', t_binary_file,
         cases=[{'L': L, 'ftype': t} for L, t in ((1, b'B'), (3, b'B'), (255, b'P'), (256, b'M'), (257, b'B'), (600, b'P'))]),
    Task('block and CRC', t_block, cases=[{'n': n} for n in (1, 17, 256)]),
    Task('CASDevice._search', t_search, cases=[{'first_len': n} for n in (0, 4, 300)]),
    Task('CASDevice._search (skipping a data file)', t_skip_text_file, cases=[{'L': n} for n in (0, 163, 164, 165, 254, 255, 419, 600)]),
    Task('CASDevice._search (name and type decision)', t_search_decision, covers=('found', 'skipped'),
         cases=[{'k': k, 'kh': kh, 'types': t} for k in (0, 1, 3, 8) for kh in (1, 3, 4, 8) for t in (None, (b'D',), (b'B', b'P'))]),
    Task('Memory.bload_ (image read back whole)', t_bload, cases=[{'n': n, 'device': d} for n in (1, 4, 10) for d in ('cassette', 'disk')]),
]

ASSUMPTIONS = [
    'the bit level (CAS/WAV pulse encoding, leader and sync detection) is replaced by a byte tape stand-in',
    'crc() is taken by contract as a fixed function of the block contents (a position-weighted sum in the harness)',
    'file lengths and the split into write calls are case parameters; contents are symbolic',
]
NOT_COVERED = [
    'CASBitStream / WAVBitStream encodings and their resynchronisation; crc() itself',
    'reading with explicit sizes (INPUT$); a data record whose count byte is &HA5 is taken for a header while skipping (spurious Skipped message)',
]
