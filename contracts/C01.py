"""
C01 - No BASIC input ever produces an internal interpreter error (per-function exception contracts).

The whole-program claim is not a per-function property. What is decided here is the
*exception contract* "only BASICError / Break / Exit / Reset leave this function" for
  * the error funnel Implementation._handle_exceptions / _handle_error: BASIC errors and Break
    are consumed (message written, prompt restored), Exit is passed on;
  * the value layer called by the expression evaluator, swept over every operand *type*
    pairing that involves a string or mixes strings and numbers (symbolic contents):
    values.add/sub/mul/div/intdiv/mod_/pow, the six relational and six logical operators, and the
    unary functions cint_/csng_/cdbl_/fix_/int_/sgn_/abs_/neg/not_/len_/asc_/chr_/space_/
    hex_/oct_/mki_/mks_/mkd_/cvi_/cvs_/cvd_/str_ - numeric-only pairings are the subject of
    C02-C06, whose obligations already include "raises only <the documented BASIC error>";
  * machine.Memory built with its documented default peek_values=None: PEEK does not crash;
  * Interpreter._handle_break: the Break is handed on for every error position (direct mode included);
  * Clock.time_ / Clock.date_: the C44 contracts (only Illegal function call for malformed values).
The mechanisms named in the property that were found defective on the unchanged tree (PEEK on a
default Session, TIME$ with a negative field, ENVIRON with NUL, RENUM with a trap before the
range, LOAD of an empty protected file) are repaired (`fix:` commits) and their contracts live
in C01/C44/C14/C15.
"""

from .common import *
from pcbasic.basic import implementation, machine
from pcbasic.basic.base import error as err_mod
from . import C44 as _c44

PROPERTY = 'C01'

ALLOWED = (err_mod.BASICError, err_mod.Break, err_mod.Exit, err_mod.Reset)

KINDS = ('int', 'sng', 'dbl', 'str')
CLS = {'int': numbers.Integer, 'sng': numbers.Single, 'dbl': numbers.Double}


def _val(E, vals, kind, tag, slen=2):
    if kind == 'str':
        return new_string(E, vals, E.bytes(tag, slen, kind='bytes'))
    cls = CLS[kind]
    return E.new(cls, E.bytes(tag, cls.size), vals)


_BINARY = ['add', 'sub', 'mul', 'div', 'intdiv', 'mod_', 'pow', 'eq', 'neq', 'gt', 'gte', 'lt', 'lte',
           'and_', 'or_', 'xor_', 'eqv_', 'imp_']

def t_binary(E, fn, lk, rk):
    vals = values_env(with_strings=True)
    x = _val(E, vals, lk, 'x')
    y = _val(E, vals, rk, 'y')
    r = E.call(getattr(values, fn), x, y)
    E.prove(not r.raised or isinstance(r.exc, ALLOWED), 'only BASIC errors leave the operator')
    strs = (lk == 'str') + (rk == 'str')
    if strs == 1:
        # (an integer operator may report Overflow of its numeric operand before it looks at the string)
        E.prove(r.is_error(BASICError, error.TYPE_MISMATCH) or
                (fn in ('intdiv', 'mod_', 'and_', 'or_', 'xor_', 'eqv_', 'imp_') and r.is_error(BASICError, error.OVERFLOW)),
                'string with number: Type mismatch')
    elif strs == 2:
        if fn == 'add':
            E.prove(not r.raised and isinstance(r.value, strings.String), 'string + string concatenates')
        elif fn in ('eq', 'neq', 'gt', 'gte', 'lt', 'lte'):
            E.prove(not r.raised and isinstance(r.value, numbers.Integer), 'strings compare to -1/0')
        else:
            E.prove(r.is_error(BASICError, error.TYPE_MISMATCH), 'no arithmetic on strings: Type mismatch')


_UNARY_LIST = ['cint_', 'csng_', 'cdbl_', 'fix_', 'int_', 'sgn_', 'abs_', 'len_', 'asc_', 'chr_', 'space_',
               'hex_', 'oct_', 'mki_', 'mks_', 'mkd_', 'cvi_', 'cvs_', 'cvd_', 'str_']
_UNARY_DIRECT = ['neg', 'not_']

def t_unary(E, fn, kind, slen):
    vals = values_env(with_strings=True)
    x = _val(E, vals, kind, 'x', slen)
    if kind != 'str' and fn in ('cint_', 'chr_', 'space_', 'hex_', 'oct_', 'mki_', 'not_') and kind != 'int':
        # bound the exponent so that the shift loops stay small; large magnitudes overflow alike
        E.assume(f_exp(x) <= 128 + 20)
    if fn in _UNARY_DIRECT:
        r = E.call(getattr(values, fn), x)
    else:
        r = E.call(getattr(values, fn), [x])
    E.prove(not r.raised or isinstance(r.exc, ALLOWED), 'only BASIC errors leave the function')


_MATH = ['sqr_', 'exp_', 'sin_', 'cos_', 'tan_', 'atn_', 'log_']

def t_math(E, fn, kind):
    """SQR/EXP/SIN/COS/TAN/ATN/LOG: conversion to the working precision and the host maths may
    fail (Overflow, domain errors); only BASIC errors may come out. The numeric value handed to the
    host function is abstracted to a representative float (to_value / from_value are stubs)."""
    vals = values_env(with_strings=True)
    x = _val(E, vals, kind, 'x')
    v = E.choice('value', [-1.0, 0.0, 1.0, 3.5, 1e38, 1e300, -1e300])
    if E.mode == 'symbolic':
        E.interp.contracts[numbers.Float.to_value] = lambda I, args, kw: v
        E.interp.contracts[numbers.Float.from_value] = lambda I, args, kw: args[0]
    r = E.call(getattr(values, fn), [x])
    E.prove(not r.raised or isinstance(r.exc, ALLOWED), 'only BASIC errors leave the function')


class _Rec(object):
    _pyvc_trusted = True
    def __init__(self):
        self.log = []
    def __getattr__(self, k):
        if k.startswith('__'):
            raise AttributeError(k)
        def f(*a, **kw):
            self.log.append((k, a))
            return 17
        return f


def t_funnel(E, exc, parse_mode=True):
    impl = object.__new__(implementation.Implementation)
    con, snd, itp, prg = _Rec(), _Rec(), _Rec(), _Rec()
    impl.console, impl.sound, impl.program = con, snd, prg
    class _I(object):
        _pyvc_trusted = True
        input_mode = False
        error_num = 5
        def set_pointer(self, *a): pass
        def set_parse_mode(self, v): self.parse_mode = v
    impl.interpreter = _I()
    impl.interpreter.parse_mode = parse_mode
    impl._prompt = False
    impl._edit_prompt = False
    raw = implementation.Implementation._handle_exceptions.__wrapped__
    if E.mode == 'symbolic':
        g = E.call(raw, impl).value
    else:
        g = raw(impl)
    next(g)
    code = E.int('err', 1, 77)
    e = {'basic': lambda: BASICError(E.concretize(code) if E.mode == 'symbolic' else code, 10),
         'break': lambda: _break(parse_mode), 'exit': lambda: err_mod.Exit(), 'reset': lambda: err_mod.Reset(),
         'value': lambda: ValueError('internal')}[exc]()
    try:
        g.throw(e)
        escaped = None
    except StopIteration:
        escaped = None
    except BaseException as x:
        if isinstance(x, (Unsupported, PathEnd)):
            raise
        escaped = x
    if exc in ('basic', 'break'):
        E.prove(escaped is None, 'BASIC errors and Break are consumed by the funnel')
        if exc == 'basic':
            E.prove(any(k == 'write' for k, a in con.log), 'the error message is written to the console')
            E.prove(impl._prompt is True, 'the prompt is restored')
    elif exc in ('exit', 'reset'):
        E.prove(escaped is e, 'Exit (and Reset) pass through to end the session')
    else:
        E.prove(escaped is e, 'the funnel does not hide a host exception (absence of those is the callbacks\' contract)')


def _break(parse_mode):
    """A Break as it reaches the funnel: from a running program it has passed
    Interpreter._handle_break (which sets err = 0 and pos); from the console it is bare."""
    e = err_mod.Break()
    if parse_mode:
        e.err = 0
        e.pos = 10
    return e


def t_peek_default(E):
    """machine.Memory with the documented default peek_values=None."""
    vals = values_env()
    spy = _Rec()
    class _DS(object):
        _pyvc_trusted = True
        data_segment = 0x13ad
        class program(object):
            protected = False
        def get_memory(self, addr):
            return 7
    class _Itp(object):
        run_mode = False
    m = E.new(machine.Memory, vals, _DS(), spy, spy, spy, None, _Itp(), None, 'advanced')
    a = new_integer(E, vals, 'addr')
    m.segment = 0x13ad
    r = E.call(m.peek_, iter([a]))
    E.prove(not r.raised or isinstance(r.exc, ALLOWED), 'PEEK with default peek_values raises no host exception')


def t_handle_break(E, trapping):
    """Interpreter._handle_break (STOP, Ctrl-Break) hands on the Break itself whatever the error position:
    in a program line, in direct mode (position -1, e.g. STOP in a handler entered from a direct
    statement) or anywhere else."""
    from pcbasic.basic import interpreter as itp_mod, program as program_mod
    it = object.__new__(itp_mod.Interpreter)
    prog = object.__new__(program_mod.Program)
    prog.line_numbers = {10: 1, 20: 30, 110: 45, 65536: 60}
    class _Code(object):
        _pyvc_trusted = True
        def skip_to(self, *a):
            return b''
        def tell(self):
            return 33
    prog.bytecode = _Code()
    class _Parser(object):
        redo_on_break = False
    class _Con(object):
        _pyvc_trusted = True
        def write(self, s):
            pass
    it._program = prog
    it.parser = _Parser()
    it.parser.redo_on_break = E.bool('redo')
    it._console = _Con()
    it.input_mode = E.bool('input mode')
    it.run_mode = E.bool('run mode')
    it.current_statement = E.int('current statement', 0, 59)
    it.error_handle_mode = trapping
    it.error_num = E.int('err', 1, 255)
    it.error_pos = E.int('error position', -1, 100)
    it.stop_pos = None
    e = err_mod.Break(stop=E.bool('stop'))
    r = E.call(it._handle_break, e)
    E.prove(r.raised and r.exc is e, 'the Break itself is handed on (no host exception)')
    if r.raised and r.exc is e:
        E.prove(e.err == 0, 'marked as a break')
        if trapping:
            # ERL after the break: start of the line the error was in, or the position itself outside the program
            pos = it.error_pos
            want = If(pos >= 60, pos, If(pos >= 45, 45, If(pos >= 30, 30, If(pos >= 1, 1, pos))))
            E.prove(e.trapped_error_pos == want, 'the trapped error position is the start of its line, or itself outside any line')


# ---------------------------------------------------------------------------
# bounded stand-in (never counted as proved): listed direct-mode statements and program files
# through a real Session with default arguments

_STATEMENTS = [
    b'OUT &H3CF,1', b'OUT &H3C5,2', b'OUT &H3CF,255: OUT &H3C5,0', b'PRINT PEEK(4073)', b'POKE 4073,1', b'PRINT PEEK(4588)',
    b'POKE 4588,255', b'DEF SEG=&H1000: PRINT PEEK(4073)', b'BSAVE "A:X",0,5000', b'BSAVE "A:X",0,100: BLOAD "A:X",4073',
    b'PRINT VARPTR(#"")', b'PRINT VARPTR(#"A")', b'PRINT VARPTR(#1)', b'PRINT VARPTR(#0)', b'PRINT VARPTR(#255)', b'PRINT VARPTR(#256)',
    b'PRINT VARPTR(#-1)', b'DEF SEG=&HB700: POKE 0,65: PRINT PEEK(0)', b'DEF SEG=&HA000: POKE 0,65: PRINT PEEK(0)',
    b'DEF SEG=0: POKE 1050,0: PRINT PEEK(1056)', b'DEF SEG=0: POKE 1052,255: PRINT PEEK(1054)', b'PRINT PEEK(-1)', b'POKE -1,1', b'PRINT PEEK(65535)', b'POKE 65535,255', b'DEF SEG=&HFFFF: PRINT PEEK(65535)',
    b'SCREEN 1: OUT &H3CF,3: OUT &H3C5,15', b'SCREEN 0: DEF SEG=&HB800: BSAVE "A:S",4090,20: BLOAD "A:S"',
]

_PROGRAMS = [
    b'\xff\x01\x01\x0a\x00A\x1f\x01\x02\x03\x04', b'\xff\x01\x01\x0a\x00A\x1f', b'\xff\x01\x01\x0a\x00A\x1c', b'\xff\x01\x01\x0a\x00A\x1d\x01',
    b'\xff\x01\x01\x0a\x00A\x0f', b'\xff\x01\x01\x0a\x00A\x0b', b'\xff\x01\x01\x0a\x00A\x0c\x01', b'\xff\x01\x01\x0a\x00A\x0e', b'\xff\x01\x01\x0a\x00\x0d\x01',
    b'\xff', b'\xff\x00', b'\xff\x01', b'\xff\x01\x01\x0a', b'\xff\x01\x01\x0a\x00', b'\xff\x01\x01\x0a\x00\xff', b'\xff\x01\x01\x0a\x00\xfd', b'\xfe', b'\xfe\x01\x02\x03',
    b'\xff' + b''.join(b'\x01\x01' + bytes([i % 256, i // 256]) + b'\x91 "' + b'A' * 200 + b'"\x00' for i in range(1, 401)),
    b'\xff' + b''.join(b'\x01\x01' + bytes([i % 256, i // 256]) + b'\x91 "' + b'A' * 200 + b'"\x00' for i in range(1, 301)),
]


def t_session_e2e(E, which):
    from pcbasic.basic import Session
    import io, tempfile, shutil, os
    d = tempfile.mkdtemp(prefix='pyvc-c01-')
    out = io.BytesIO()
    try:
        try:
            with Session(output_streams=out, input_streams=None, devices={b'A:': d}) as s:
                if which < len(_STATEMENTS):
                    what = _STATEMENTS[which]
                    s.execute(what)
                else:
                    what = _PROGRAMS[which - len(_STATEMENTS)][:40]
                    with open(os.path.join(d, 'P.BAS'), 'wb') as f:
                        f.write(_PROGRAMS[which - len(_STATEMENTS)])
                    s.execute(b'LOAD "A:P"')
                    s.execute(b'LIST')
                    s.execute(b'PRINT FRE(0)')
                    s.execute(b'RUN')
        except Exception as e:
            E.prove(False, 'no host exception for %r (escaped: %s)' % (what, type(e).__name__))
            return
    finally:
        shutil.rmtree(d, ignore_errors=True)
    res = out.getvalue()
    E.prove(b'Internal error' not in res and b'Traceback' not in res, 'no internal error for %r' % (what,))


def _pairs():
    out = []
    for fn in _BINARY:
        for a in KINDS:
            for b in KINDS:
                if 'str' in (a, b):
                    out.append({'fn': fn, 'lk': a, 'rk': b})
    return out


TASKS = [
    Task('Implementation._handle_exceptions', t_funnel,
         cases=[{'exc': e, 'parse_mode': p} for e in ('basic', 'break', 'exit', 'reset', 'value') for p in (True, False)]),
    Task('value layer: binary operators with strings', t_binary, cases=_pairs()),
    Task('value layer: unary functions', t_unary,
         cases=[{'fn': f, 'kind': k, 'slen': n} for f in _UNARY_LIST + _UNARY_DIRECT for k in KINDS
                for n in ((0, 1, 2, 4, 8, 9) if k == 'str' else (2,))
                if not (f == 'str_' and k in ('sng', 'dbl'))]),     # decimal conversion of floats is C07
    Task('value layer: mathematical functions', t_math, cases=[{'fn': f, 'kind': k} for f in _MATH for k in KINDS]),
    Task('Memory.peek_ (default session)', t_peek_default),
    Task('direct statements and program files end to end (bounded)', t_session_e2e, bounded=True, samples=(1, 1),
         cases=[{'which': i} for i in range(len(_STATEMENTS) + len(_PROGRAMS))],
         scope='%d literal direct-mode statements (PEEK/POKE/OUT/VARPTR/BSAVE/BLOAD boundary arguments) and %d literal tokenised/protected program files (truncated tokens, oversize) through a real Session with default arguments' % (len(_STATEMENTS), len(_PROGRAMS))),
    Task('Interpreter._handle_break', t_handle_break, cases=[{'trapping': t} for t in (True, False)]),
    Task('Clock.time_ (exception contract, shared with C44)', _c44.t_time, cases=[{'shape': s} for s in _c44._TIME_SHAPES]),
    Task('Clock.date_ (exception contract, shared with C44)', _c44.t_date, cases=[{'shape': s} for s in _c44._DATE_SHAPES]),
]

ASSUMPTIONS = [
    'C01 is claimed only as the exception contracts listed in this file plus those stated by the other claimed properties; '
    'the statement parser, tokeniser and the callbacks without a contract are not covered',
    'float operands of the unary sweep are bounded to exponents <= 2^20 for the integer-converting functions (larger values take the same Overflow path; C03 covers all exponents)',
]
NOT_COVERED = ['whole-program claim: all programs, all direct-mode inputs, all loaded files',
               'statement parser / tokeniser / device layers without a contract']
