"""
C21 - Error trapping reports and resumes at the right place (per-function transitions).

Under contract (real source, interpreter.py): Interpreter.trap_error / resume_ / erl_ / err_ /
on_error_goto_ / error_ / jump / set_pointer.
  trap_error(e): ERR = e.err, error position = e.pos (defaulted from the pointer); iff a handler
      line is set and no handler is active: records (current statement, run mode) for RESUME,
      jumps to the handler line, enters handler mode and suspends event traps; otherwise (no
      handler, ON ERROR GOTO 0, or an error inside the handler) leaves handler mode, stops the
      program and re-raises the same error
  RESUME / RESUME 0: back to the failing statement; RESUME NEXT: the statement after it;
      RESUME n: line n; all clear ERR, handler mode and the suspension; outside a handler:
      RESUME without error
  ERL: 0 before any error, 65535 for an error in direct mode, else the line containing the
      error position;  ERR: the code;  ERROR n: raises error n for 1..255, else Illegal function call
  ON ERROR GOTO n: Undefined line number for a missing line; GOTO 0 inside a handler re-raises
The code stream is an opaque position; the program is a fixed line table.
"""

from .icommon import *

PROPERTY = 'C21'


def t_trap_error(E, on_error, in_handler, run_mode, has_pos):
    it = make_interpreter(E, run_mode=run_mode, pos=70)
    it.on_error = on_error
    it.error_handle_mode = in_handler
    code = E.int('err', 1, 255)
    codec = E.concretize(code) if E.mode == 'symbolic' else code
    epos = E.int('pos', 0, 140) if has_pos else None
    e = BASICError(codec, epos)
    stmt0 = it.current_statement
    r = E.call(it.trap_error, e)
    want_pos = epos if has_pos else (69 if run_mode else -1)
    E.prove(it.error_num == codec, 'ERR is the error code')
    E.prove(bool(it.error_pos == want_pos), 'the error position is recorded (the pointer when the error carries none)')
    trapped = on_error not in (None, 0) and not in_handler
    if trapped:
        E.prove(not r.raised, 'a trapped error does not stop the program')
        E.prove(it.error_resume == (stmt0, run_mode), 'RESUME information: the failing statement and its mode')
        E.prove(it.run_mode is True and last_seek(it._program_code) == LINES[on_error], 'jumps to the handler line')
        E.prove(it.error_handle_mode is True and it._basic_events.suspend_all is True, 'handler mode on, event traps suspended')
    else:
        E.prove(r.raised and r.exc is e, 'without a handler, after ON ERROR GOTO 0, or inside the handler: the same error stops the program')
        E.prove(it.error_handle_mode is False and it.run_mode is False, 'handler mode off, program stopped')


def t_resume(E, where, run_mode):
    it = make_interpreter(E, run_mode=True, pos=100)
    stmt = E.int('stmt', 0, 140)
    it.error_resume = (stmt, run_mode)
    it.error_handle_mode = True
    it.error_num = 11
    it._basic_events.suspend_all = True
    arg = {'none': None, 'zero': 0, 'next': tk.NEXT, 'line': 200, 'missing': 999}[where]
    r = E.call(it.resume_, iter([arg]))
    if where == 'missing':
        E.prove(r.is_error(BASICError, error.UNDEFINED_LINE_NUMBER), 'RESUME to a missing line: Undefined line number')
        return
    E.prove(not r.raised, 'RESUME succeeds')
    E.prove(it.error_num == 0 and it.error_handle_mode is False and it.error_resume is None
            and it._basic_events.suspend_all is False, 'ERR cleared, handler mode off, event traps resumed')
    cs = it._program_code if run_mode else it.direct_line
    if where in ('none', 'zero'):
        E.prove(it.run_mode is run_mode and bool(last_seek(cs) == stmt), 'RESUME re-executes the failing statement')
        E.prove(not any(x[0] == 'skip_to' for x in cs.log), 'nothing skipped')
    elif where == 'next':
        E.prove(it.run_mode is run_mode and bool(last_seek(cs) == stmt), 'RESUME NEXT starts from the failing statement')
        E.prove([x for x in cs.log if x[0] == 'skip_to'] == [('skip_to', tk.END_STATEMENT, False)],
                'and skips exactly to the end of that statement')
    else:
        E.prove(it.run_mode is True and last_seek(it._program_code) == LINES[200], 'RESUME n continues at line n')


def t_resume_without_error(E):
    it = make_interpreter(E)
    it.on_error = 100
    r = E.call(it.resume_, iter([None]))
    E.prove(r.is_error(BASICError, error.RESUME_WITHOUT_ERROR), 'RESUME outside a handler: RESUME without error')
    E.prove(it._program_code.log == [], 'no jump')


def t_erl_err(E):
    it = make_interpreter(E)
    pos = E.int('error_pos', -1, 150)
    it.error_pos = pos
    it.error_num = E.int('error_num', 0, 255)
    r = E.call(it.erl_, iter([]))
    r2 = E.call(it.err_, iter([]))
    E.prove(not r.raised and not r2.raised, 'never raise')
    E.prove(s16(r2.value) == it.error_num, 'ERR is the last error code')
    for p in E.each_value(pos):
        if p == 0:
            want = 0
        elif p == -1:
            want = 65535
        else:
            want = max([k for k, v in LINES.items() if k != 65536 and v <= p] or [-1])
        got = r.value
        if want == 0:
            E.prove(f_is_zero(got), 'ERL is 0 before any error')
        elif want > 0:
            # single with integer value `want`
            v = E.call(got.to_int).value
            E.prove(v == want, 'ERL is the line containing the error position (65535 in direct mode)')


def t_error_statement(E):
    it = make_interpreter(E)
    n = E.int('n', -300, 300)
    x = E.new(numbers.Integer, None, it._values)
    E.call(x.from_int, n)
    r = E.call(it.error_, iter([x]))
    E.prove(r.raised and isinstance(r.exc, BASICError), 'ERROR always raises a BASIC error')
    if r.raised and isinstance(r.exc, BASICError):
        E.prove(If(And(n >= 1, n <= 255), r.exc.err == n, r.exc.err == error.IFC), 'error n for 1..255, else Illegal function call')


def t_on_error_goto(E, line, in_handler):
    it = make_interpreter(E)
    it.error_handle_mode = in_handler
    it.error_num, it.error_pos = 11, 42
    it._values.error_handler = Rec('feh')
    r = E.call(it.on_error_goto_, iter([line]))
    if line not in LINES and line != 0:
        E.prove(r.is_error(BASICError, error.UNDEFINED_LINE_NUMBER) and it.on_error is None, 'missing line: Undefined line number, trap unchanged')
    elif line == 0 and in_handler:
        E.prove(r.is_error(BASICError, 11) and bool(r.exc.pos == 42), 'ON ERROR GOTO 0 inside the handler re-raises the error being handled')
    else:
        E.prove(not r.raised and it.on_error == line, 'trap line set')
        E.prove(('suspend', (line != 0,)) in it._values.error_handler.log, 'soft arithmetic errors are raised while a trap is set')


class _Stop(Exception):
    pass


class _StmtStream(Stream):
    """A code stream positioned at a statement start whose first token is given."""
    def __init__(self, pos, first):
        Stream.__init__(self, pos)
        self.first = first
    def skip_blank_read(self, n=1):
        self.pos += 1
        return self.first
    def read(self, n=1):
        self.pos += n
        return b'\x0a\x00\x14\x00'[:n]


class _OneStatement(object):
    """Parser stand-in: records where the interpreter thinks the statement started, then stops the loop."""
    _pyvc_trusted = True
    def __init__(self, it):
        self.it = it
        self.seen = None
    def parse_statement(self, ins):
        self.seen = self.it.current_statement
        raise _Stop()


def t_statement_start(E, first):
    """Interpreter.parse records the start of EVERY statement it is about to run - also a statement that
    begins a THEN / ELSE branch - because RESUME re-executes from that position and ERL is taken from it."""
    it = make_interpreter(E, run_mode=True, pos=40)
    P = E.int('position', 1, 150)
    it._program_code = _StmtStream(P, first)
    it.current_statement = 7
    it.tron = False
    it.step = lambda token: None
    it.parser = _OneStatement(it)
    r = E.call(it.parse)
    E.prove(r.raised and isinstance(r.exc, _Stop), 'the statement is handed to the statement parser')
    E.prove(it.parser.seen is not None and bool(it.parser.seen == P), 'current_statement is the position where this statement starts')


TASKS = [
    Task('Interpreter.parse (statement start bookkeeping)', t_statement_start,
         cases=[{'first': f} for f in (b':', tk.THEN, tk.ELSE, tk.GOTO, b'\0')]),
    Task('Interpreter.trap_error', t_trap_error,
         cases=[{'on_error': o, 'in_handler': h, 'run_mode': m, 'has_pos': p} for o in (None, 0, 100)
                for h in (False, True) for m in (True, False) for p in (True, False)]),
    Task('Interpreter.resume_', t_resume,
         cases=[{'where': w, 'run_mode': m} for w in ('none', 'zero', 'next', 'line', 'missing') for m in (True, False)]),
    Task('Interpreter.resume_ (no error)', t_resume_without_error),
    Task('Interpreter.erl_/err_', t_erl_err),
    Task('Interpreter.error_', t_error_statement),
    Task('Interpreter.on_error_goto_', t_on_error_goto, cases=[{'line': l, 'in_handler': h} for l in (0, 100, 999) for h in (False, True)]),
]

ASSUMPTIONS = [
    'code stream is an opaque position; devices and queues are recording stand-ins; the program is a fixed line table',
]
NOT_COVERED = ['that current_statement is the start of the failing statement for every statement form (maintained by parse())',
               'messages printed when the program stops']
