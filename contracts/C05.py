"""
C05 - Arithmetic identities hold for every value.

Relational obligations on the real code (two symbolic executions compared byte for byte):
  x+y = y+x, x*y = y*x               values.add / values.mul, Single and Double
  x+0 = x, 0+x = x, x*1 = x, x-x = 0  all zero encodings (e == 0, any mantissa bytes)
  -(-x) = x, ABS, SGN                 values.neg / abs_ / sgn_, Integer Single Double
  promotion                           values.add/sub/mul/div call the arithmetic of the wider
                                      operand type on exactly the promoted operands (modular:
                                      Float.iadd/isub/imul/idiv replaced by recording stubs)
x/1 = x bit for bit is proved from the exact power-of-two contract of Float._div_den (loop invariant, task in C04
                                      re-run here).
"""

from .common import *
from . import C04 as c04

PROPERTY = 'C05'

CLS = {'int': numbers.Integer, 'sng': numbers.Single, 'dbl': numbers.Double}


def _same_outcome(E, r1, r2, label):
    """Both calls raise the same BASIC error or return byte-identical values of one type."""
    if r1.raised or r2.raised:
        E.cover('raises')
        E.prove(r1.raised and r2.raised, label + ': both raise or neither')
        if r1.raised and r2.raised:
            E.prove(type(r1.exc) is type(r2.exc) and getattr(r1.exc, 'err', None) == getattr(r2.exc, 'err', None),
                    label + ': same error')
        return
    E.cover('returns')
    E.prove(type(r1.value) is type(r2.value), label + ': same result type')
    E.prove(same_bytes(r1.value, r2.value), label + ': bit for bit')


def t_add_comm(E, kind, dlo, dhi):
    cls = CLS[kind]
    vals = values_env()
    x = new_float(E, cls, vals, 'x')
    y = new_float(E, cls, vals, 'y')
    dd = f_exp(x) - f_exp(y)
    E.assume(And(dd >= dlo, dd <= dhi))      # y+x covers the other sign of the difference
    E.concretize(dd)
    r1 = E.call(values.add, x, y)
    r2 = E.call(values.add, y, x)
    _same_outcome(E, r1, r2, 'x+y = y+x')


def t_mul_comm(E, kind):
    cls = CLS[kind]
    vals = values_env()
    x = new_float(E, cls, vals, 'x')
    y = new_float(E, cls, vals, 'y')
    if E.mode == 'symbolic':
        E.interp.contracts[numbers.Float._denormalise] = c04._denormalise_contract
        E.nl_mode = 'abstract'
    r1 = E.call(values.mul, x, y)
    r2 = E.call(values.mul, y, x)
    _same_outcome(E, r1, r2, 'x*y = y*x')


def _canonical(E, x):
    """Assume x is a canonical value: non-zero, or the all-zero encoding."""
    E.assume(Or(Not(f_is_zero(x)), same_bytes(x, [0] * len(cells(x)))))


def t_add_zero(E, kind, side):
    cls = CLS[kind]
    vals = values_env()
    x = new_float(E, cls, vals, 'x')
    z = new_float(E, cls, vals, 'z')
    E.assume(f_is_zero(z))                   # any zero encoding
    x0 = snapshot(x)
    r = E.call(values.add, x, z) if side == 'right' else E.call(values.add, z, x)
    E.prove(not r.raised, 'never raises')
    if r.raised:
        return
    E.prove(type(r.value) is cls, 'same type')
    E.prove(Implies(Not(f_is_zero(x)), same_bytes(r.value, x0)), 'x+0 = x bit for bit (non-zero x)')
    E.prove(Implies(f_is_zero(x), f_is_zero(r.value)), '0+0 = 0')


def t_mul_one(E, kind, side):
    cls = CLS[kind]
    vals = values_env()
    x = new_float(E, cls, vals, 'x')
    one = E.new(cls, None, vals)
    E.call(one.from_bytes, cls._one)
    x0 = snapshot(x)
    r = E.call(values.mul, x, one) if side == 'right' else E.call(values.mul, one, x)
    E.prove(not r.raised, 'never raises')
    if r.raised:
        return
    E.prove(type(r.value) is cls, 'same type')
    E.prove(Implies(Not(f_is_zero(x)), same_bytes(r.value, x0)), 'x*1 = x bit for bit (non-zero x)')
    E.prove(Implies(f_is_zero(x), f_is_zero(r.value)), '0*1 = 0')


def t_sub_self(E, kind):
    cls = CLS[kind]
    vals = values_env()
    x = new_float(E, cls, vals, 'x')
    x2 = E.new(cls, None, vals)
    E.call(x2.from_bytes, x._buffer)
    r = E.call(values.sub, x, x2)
    E.prove(not r.raised, 'never raises')
    if not r.raised:
        E.prove(f_is_zero(r.value), 'x-x = 0')
    r3 = E.call(values.sub, x, x)
    E.prove(not r3.raised, 'never raises (same object)')
    if not r3.raised:
        E.prove(f_is_zero(r3.value), 'x-x = 0 (same object)')


def new_value(E, kind, vals, name):
    cls = CLS[kind]
    return E.new(cls, E.bytes(name, cls.size), vals)


def t_neg_neg(E, kind):
    vals = values_env()
    x = new_value(E, kind, vals, 'x')
    x0 = snapshot(x)
    r1 = E.call(values.neg, x)
    E.prove(not r1.raised, 'never raises')
    if r1.raised:
        return
    r2 = E.call(values.neg, r1.value)
    E.prove(not r2.raised, 'never raises')
    if r2.raised:
        return
    E.prove(same_bytes(x, x0), 'operand unchanged')
    if kind == 'int':
        # unary minus promotes to Single: compare with the (C03-exact) promotion of x
        px = E.call(values.to_single, x).value
        E.prove(type(r2.value) is numbers.Single and same_bytes(r2.value, px), '-(-x) = x (as Single)')
        n = r1.value
        E.prove(Or(And(f_is_zero(px), f_is_zero(n)),
                   And(f_exp(n) == f_exp(px), f_man(n) == f_man(px), f_neg(n) != f_neg(px))),
                '-x has the opposite sign and the same magnitude')
    else:
        E.prove(type(r2.value) is CLS[kind] and same_bytes(r2.value, x0), '-(-x) = x bit for bit')
        n = r1.value
        E.prove(And(f_exp(n) == f_exp(x), f_man(n) == f_man(x), f_neg(n) != f_neg(x)),
                '-x has the opposite sign and the same magnitude')


def t_abs(E, kind):
    vals = values_env()
    x = new_value(E, kind, vals, 'x')
    x0 = snapshot(x)
    r = E.call(values.abs_, [x])
    E.prove(not r.raised, 'never raises')
    if r.raised:
        return
    a = r.value
    px = E.call(values.to_single, x).value if kind == 'int' else x
    E.prove(type(a) is type(px), 'result type')
    E.prove(Not(f_neg(a)), 'ABS(x) >= 0')
    E.prove(And(f_exp(a) == f_exp(px), f_man(a) == f_man(px)), 'ABS(x) is x or -x')
    E.prove(same_bytes(x, x0), 'operand unchanged')


def t_sgn(E, kind):
    vals = values_env()
    x = new_value(E, kind, vals, 'x')
    r = E.call(values.sgn_, [x])
    E.prove(not r.raised and isinstance(r.value, numbers.Integer), 'returns an Integer')
    if r.raised:
        return
    s = s16(r.value)
    if kind == 'int':
        a = s16(x)
        spec = If(a > 0, 1, If(a == 0, 0, -1))
    else:
        spec = If(f_is_zero(x), 0, If(f_neg(x), -1, 1))
    E.prove(s == spec, 'SGN is the sign of the value')


_RANK = {'int': 0, 'sng': 1, 'dbl': 2}
_ARITH = {'add': 'iadd', 'sub': 'isub', 'mul': 'imul', 'div': 'idiv'}

def t_promotion(E, op, lk, rk):
    vals = values_env()
    x = new_value(E, lk, vals, 'x')
    y = new_value(E, rk, vals, 'y')
    x0, y0 = snapshot(x), snapshot(y)
    wide = lk if _RANK[lk] >= _RANK[rk] else rk
    if wide == 'int':
        wide = 'sng'            # integers are computed in single precision
    wcls = CLS[wide]
    conv = values.to_single if wide == 'sng' else values.to_double
    calls = []
    if E.mode == 'symbolic':
        def make(name):
            def h(I, args, kw):
                calls.append((name, args[0], args[1], snapshot(args[0]), snapshot(args[1])))
                return args[0]
            return h
        for m in _ARITH.values():
            E.interp.contracts[getattr(numbers.Float, m)] = make(m)
    r = E.call(getattr(values, op), x, y)
    if E.mode != 'symbolic':
        # native replay: only the result type can be observed
        E.prove(r.raised or type(r.value) is wcls, 'result has the wider operand type')
        return
    E.prove(not r.raised, 'no error before the arithmetic is reached')
    if r.raised:
        return
    ok = len(calls) == 1 and calls[0][0] == _ARITH[op]
    E.prove(ok, 'exactly one arithmetic operation of the right kind')
    if not ok:
        return
    _, a, b, a0, b0 = calls[0]
    E.prove(type(a) is wcls and type(b) is wcls, 'computed in the wider operand type')
    px = E.call(conv, x).value if lk != wide else x
    py = E.call(conv, y).value if rk != wide else y
    E.prove(same_bytes(a0, px), 'left operand is the promoted left value')
    E.prove(same_bytes(b0, py), 'right operand is the promoted right value')
    E.prove(a is not x and a is not y, 'computed on a copy')
    E.prove(And(same_bytes(x, x0), same_bytes(y, y0)), 'operands unchanged')
    E.prove(r.value is a, 'the result of the arithmetic is returned')


def _dch(p):
    return [(d, d) for d in range(0, p + 10)] + [(p + 10, 255)]

_KINDS = ['int', 'sng', 'dbl']

TASKS = [
    Task('x / 1 = x', c04.t_div_by_one, cases=[{'kind': k} for k in c04.CLS]),
    Task('Float._div_den (power of two divisor, loop invariant)', c04.t_div_den, cases=[{'kind': k, 'power_of_two': True} for k in c04.CLS], timeout_ms=60000),
    Task('x+y = y+x (single)', t_add_comm, cases=[{'kind': 'sng', 'dlo': a, 'dhi': b} for a, b in _dch(24)],
         covers=('raises', 'returns')),
    Task('x+y = y+x (double)', t_add_comm, covers=('raises', 'returns'),
         cases=[{'kind': 'dbl', 'dlo': a, 'dhi': b} for a, b in _dch(56) if a in (0, 1, 2, 8, 32, 55, 56, 57, 64, 66)]),
    Task('x+y = y+x (double, remaining exponent differences)', t_add_comm, tier='thorough',
         cases=[{'kind': 'dbl', 'dlo': a, 'dhi': b} for a, b in _dch(56) if a not in (0, 1, 2, 8, 32, 55, 56, 57, 64, 66)]),
    Task('x*y = y*x', t_mul_comm, cases=[{'kind': k} for k in ('sng', 'dbl')], covers=('raises', 'returns')),
    Task('x+0 = x', t_add_zero, cases=[{'kind': k, 'side': s} for k in ('sng', 'dbl') for s in ('left', 'right')]),
    Task('x*1 = x', t_mul_one, cases=[{'kind': k, 'side': s} for k in ('sng', 'dbl') for s in ('left', 'right')]),
    Task('x-x = 0', t_sub_self, cases=[{'kind': k} for k in ('sng', 'dbl')]),
    Task('-(-x) = x', t_neg_neg, cases=[{'kind': k} for k in _KINDS]),
    Task('ABS', t_abs, cases=[{'kind': k} for k in _KINDS]),
    Task('SGN', t_sgn, cases=[{'kind': k} for k in _KINDS]),
    Task('promotion to the wider operand type', t_promotion,
         cases=[{'op': o, 'lk': a, 'rk': b} for o in sorted(_ARITH) for a in _KINDS for b in _KINDS]),
]

ASSUMPTIONS = [
    'promotion: Float.iadd/isub/imul/idiv are replaced by recording stubs (their contracts are C04); '
    'the promoted operands are compared with values.to_single/to_double, proved exact under C03',
    'x*y = y*x: Float._denormalise by its contract (C04), product of mantissas as a shared atom',
    'integer operands of + - * / and of unary minus / ABS are computed in single precision (as the code does and C18 states)',
]
NOT_COVERED = []
