"""
C18 - Expressions evaluate with GW-BASIC precedence, associativity and typing (core).

Three groups of obligations on the real source (parser/operators.py, parser/expressions.py,
values/values.py):
 1. the precedence table: the strict chain  ^ > unary +- > * / > \\ > MOD > + - > relational >
    NOT > AND > OR > XOR > EQV > IMP, equal precedence inside each group, every operator token
    mapped to the right value-layer function (ground facts read from the module on every run);
 2. ExpressionParser._drain(precedence, operations, units): applies - top of stack first -
    exactly the stacked operators whose precedence is >= the incoming one, in stack order, each
    consuming 1 or 2 units with the operands in source order, and leaves the rest. Operator
    stacks are symbolic (precedences are symbolic integers, length up to 4); together with (1)
    this is left-to-right grouping at equal precedence and tighter-binds-first otherwise;
 3. typing: for every pairing of Integer/Single/Double operands + - * return the wider class
    (integers computed in single precision), / and ^ never return an Integer, \\ MOD and the
    logical operators return Integer, the relational operators return Integer; any string with
    a number is Type mismatch (C05 promotion task and C01 sweep carry the details).
NOT proved: the token loop of ExpressionParser.parse (stream + recursion); that it calls _drain
with the table's precedence and pushes unary operators without draining is read off the AST
(structural check below), not a proof of the loop.
"""

from .common import *
from pcbasic.basic.parser import operators as op, expressions
from pcbasic.basic.base import tokens as tk
import ast, inspect

PROPERTY = 'C18'


def t_table(E):
    P = op.PRECEDENCE
    groups = [
        [(tk.O_CARET, 2)],
        [(tk.O_PLUS, 1), (tk.O_MINUS, 1)],
        [(tk.O_TIMES, 2), (tk.O_DIV, 2)],
        [(tk.O_INTDIV, 2)],
        [(tk.MOD, 2)],
        [(tk.O_PLUS, 2), (tk.O_MINUS, 2)],
        [(tk.O_GT, 2), (tk.O_EQ, 2), (tk.O_LT, 2), (tk.O_GT + tk.O_EQ, 2), (tk.O_EQ + tk.O_GT, 2),
         (tk.O_LT + tk.O_EQ, 2), (tk.O_EQ + tk.O_LT, 2), (tk.O_LT + tk.O_GT, 2), (tk.O_GT + tk.O_LT, 2)],
        [(tk.NOT, 1)],
        [(tk.AND, 2)], [(tk.OR, 2)], [(tk.XOR, 2)], [(tk.EQV, 2)], [(tk.IMP, 2)],
    ]
    E.prove(set(P) == set(k for g in groups for k in g), 'the table holds exactly the GW-BASIC operators')
    for g in groups:
        E.prove(len(set(P.get(k) for k in g)) == 1, 'equal precedence inside group %r' % (g[0][0],))
    for hi, lo in zip(groups, groups[1:]):
        E.prove(P.get(hi[0]) is not None and P.get(lo[0]) is not None and P[hi[0]] > P[lo[0]],
                'strictly higher precedence: %r over %r' % (hi[0][0], lo[0][0]))
    B = {tk.O_CARET: values.pow, tk.O_TIMES: values.mul, tk.O_DIV: values.div, tk.O_INTDIV: values.intdiv,
         tk.MOD: values.mod_, tk.O_PLUS: values.add, tk.O_MINUS: values.sub, tk.O_GT: values.gt,
         tk.O_EQ: values.eq, tk.O_LT: values.lt, tk.O_GT + tk.O_EQ: values.gte, tk.O_EQ + tk.O_GT: values.gte,
         tk.O_LT + tk.O_EQ: values.lte, tk.O_EQ + tk.O_LT: values.lte, tk.O_LT + tk.O_GT: values.neq,
         tk.O_GT + tk.O_LT: values.neq, tk.AND: values.and_, tk.OR: values.or_, tk.XOR: values.xor_,
         tk.EQV: values.eqv_, tk.IMP: values.imp_}
    E.prove(set(op.BINARY) == set(B) and all(op.BINARY[k] is v for k, v in B.items()),
            'every binary operator token is bound to its value-layer function')
    E.prove(set(op.UNARY) == {tk.O_MINUS, tk.O_PLUS, tk.NOT} and op.UNARY[tk.O_MINUS] is values.neg
            and op.UNARY[tk.NOT] is values.not_, 'unary operators')
    E.prove(tuple(op.COMBINABLE) == (tk.O_LT, tk.O_EQ, tk.O_GT), 'combinable relational characters')
    E.prove(op.OPERATORS == set(k[0] for k in P), 'operator set is the table')


def t_drain(E, n):
    """n stacked operators with symbolic precedences and arities; incoming precedence symbolic."""
    ep = object.__new__(expressions.ExpressionParser)
    trace = []
    def mk(i):
        def f(*args):
            trace.append(i)
            return ('app', i, args)
        f._pyvc_trusted = True
        return f
    precs = [E.int('prec%d' % i, 1, 13) for i in range(n)]
    arity = [E.choice('arity%d' % i, [1, 2]) for i in range(n)]
    incoming = E.int('incoming', 1, 13)
    operations = [(mk(i), arity[i], precs[i]) for i in range(n)]
    ops0 = list(operations)
    units = ['u%d' % i for i in range(2 * n + 1)]
    u0 = list(units)
    r = E.call(ep._drain, incoming, operations, units)
    # reference: how many are popped = length of the maximal suffix with prec >= incoming
    k = 0
    while k < n and bool(precs[n - 1 - k] >= incoming):
        k += 1
    E.prove(not r.raised, 'enough operands: never raises')
    if r.raised:
        return
    E.prove(operations == ops0[:n - k], 'exactly the operators of precedence >= the incoming one are applied; the rest stay')
    E.prove(trace == list(range(n - 1, n - 1 - k, -1)), 'applied top of stack first (later operators before earlier ones)')
    # rebuild the expected unit stack
    exp = list(u0)
    for i in range(n - 1, n - 1 - k, -1):
        a = arity[i]
        args = tuple(exp[len(exp) - a:])
        del exp[len(exp) - a:]
        exp.append(('app', i, args))
    E.prove(units == exp, 'each operator consumes its operands in source order and pushes its result')


def t_drain_missing(E):
    ep = object.__new__(expressions.ExpressionParser)
    def f(*a):
        return 'r'
    f._pyvc_trusted = True
    r = E.call(ep._drain, 1, [(f, 2, 8)], ['only-one'])
    E.prove(r.raised and isinstance(r.exc, IndexError), 'a missing operand surfaces as IndexError (mapped to Missing operand by parse)')


_KINDS = {'int': numbers.Integer, 'sng': numbers.Single, 'dbl': numbers.Double}
_RANK = {'int': 0, 'sng': 1, 'dbl': 2}

def t_typing(E, fn, lk, rk):
    vals = values_env()
    x = E.new(_KINDS[lk], E.bytes('x', _KINDS[lk].size), vals)
    y = E.new(_KINDS[rk], E.bytes('y', _KINDS[rk].size), vals)
    if fn in ('add', 'sub', 'mul', 'div') and E.mode == 'symbolic':
        # modular: the arithmetic itself is C04; only the class of what is computed matters here
        for m in ('iadd', 'isub', 'imul', 'idiv'):
            E.interp.contracts[getattr(numbers.Float, m)] = lambda I, args, kw: args[0]
    if fn in ('intdiv', 'mod_', 'and_', 'or_', 'xor_', 'eqv_', 'imp_') and E.mode == 'symbolic':
        # modular: float -> integer conversion is C03; here it yields some Integer
        k = [0]
        def conv(I, args, kw):
            k[0] += 1
            return E.new(numbers.Integer, E.bytes('conv%d' % k[0], 2), vals)
        E.interp.contracts[numbers.Float.to_integer] = conv
    r = E.call(getattr(values, fn), x, y)
    if r.raised:
        E.prove(isinstance(r.exc, BASICError), 'only BASIC errors')
        return
    wide = lk if _RANK[lk] >= _RANK[rk] else rk
    if fn in ('add', 'sub', 'mul'):
        want = _KINDS['sng' if wide == 'int' else wide]
        E.prove(type(r.value) is want, 'result has the wider operand class (integers are computed in single precision)')
    elif fn == 'div':
        E.prove(type(r.value) is _KINDS['sng' if wide == 'int' else wide], '/ never returns an Integer')
    else:
        E.prove(type(r.value) is numbers.Integer, 'integer-valued operator returns an Integer')


def t_parse_structure(E):
    """Structural reading of ExpressionParser.parse (AST of the current source): binary operators
    drain with their table precedence before being pushed, unary ones are pushed without draining."""
    src = inspect.getsource(expressions.ExpressionParser.parse)
    tree = ast.parse('class X:\n' + src if src.startswith('    ') else src)
    calls = [n for n in ast.walk(tree) if isinstance(n, ast.Call) and isinstance(n.func, ast.Attribute)
             and n.func.attr == '_drain']
    E.prove(len(calls) >= 1, '_drain is called from parse')
    with_prec = [c for c in calls if isinstance(c.args[0], ast.Name) and c.args[0].id == 'prec']
    others = [c for c in calls if c not in with_prec]
    E.prove(len(with_prec) == 1, 'an incoming binary operator is drained with `prec`')
    E.prove(all(isinstance(c.args[0], ast.Constant) and c.args[0].value == 0 for c in others),
            'the only other drain is the final one at precedence 0 (everything)')
    text = src.replace(' ', '')
    E.prove('prec=op.PRECEDENCE[(d,nargs)]' in text, '`prec` is the table entry of (token, arity)')
    E.prove('operations.append((oper,nargs,prec))' in text, 'the operator is stacked with its arity and precedence')


# (the relational operators are proved to return Integer -1/0 under C06)
_ARITH = ['add', 'sub', 'mul', 'div', 'intdiv', 'mod_', 'and_', 'or_', 'xor_', 'eqv_', 'imp_']

TASKS = [
    Task('operators.PRECEDENCE / BINARY / UNARY', t_table),
    Task('ExpressionParser._drain', t_drain, cases=[{'n': n} for n in (0, 1, 2, 3, 4)]),
    Task('ExpressionParser._drain (missing operand)', t_drain_missing),
    Task('result classes', t_typing, cases=[{'fn': f, 'lk': a, 'rk': b} for f in _ARITH for a in _KINDS for b in _KINDS]),
    Task('ExpressionParser.parse (structure)', t_parse_structure),
]

ASSUMPTIONS = [
    '_drain: operator stacks of length <= 4 (symbolic precedences and arities); the loop body does not depend on the depth',
    'typing: Float.iadd/isub/imul/idiv are stubs (C04 proves them); integer-valued operators are checked for operands inside the integer range',
    'parse: only a structural reading of the source (which variable is drained, what is stacked)',
]
NOT_COVERED = ['the token loop of ExpressionParser.parse, parentheses, function calls, ^ typing through _call_float_function']
