"""
C04 - Floating-point arithmetic stays within a fixed error of the exact result.

A float buffer denotes sign*M*2^(e-B), M the p-bit mantissa with hidden bit, B = 128+p, and
0 when e == 0 (any mantissa bytes: non-canonical zeros are inside the input domain).
ulp(r) = 2^(e_r - B). All obligations are exact integer arithmetic after scaling by a power
of two that is *concrete on each path* (the exponent difference d of the operands is a case
parameter; the distance between result exponent and operand exponent is concretised).

Under contract: values.add / values.sub -> Float.iadd/isub -> _denormalise, _add_den,
_normalise, _check_limits; values.mul -> Float.imul -> _bring_to_range, _normalise;
values.div -> Float.idiv -> _div_den; FloatErrorHandler.handle.
"""

from .common import *

PROPERTY = 'C04'

CLS = {'sng': numbers.Single, 'dbl': numbers.Double}


def _signed(neg, mag):
    return If(neg, -mag, mag)


def _check_result_close(E, r, cls, S, L, tol_num, tol_den, strict, label):
    """|value(r) - S*2^(L-B)| <= (tol_num/tol_den) ulp(r)   (< if strict).

    S is the exact result in units of 2^(L-B) (integer, or a pair (num, den_pow2) meaning
    num / 2^den_pow2); L is a symbolic exponent byte; r a non-zero float buffer.
    """
    p = f_prec(cls)
    if isinstance(S, tuple):
        S, sh = S
    else:
        sh = 0
    er = f_exp(r)
    c = E.concretize(er - L)          # e_r - L, concrete on this path
    mr = _signed(f_neg(r), f_man(r))
    # value(r) = mr * 2^(c) units;  S = S / 2^sh units;  ulp(r) = 2^c units
    # compare after multiplying by 2^sh * 2^max(0,-c) * tol_den
    up = max(0, -c)
    lhs = mr * (1 << (sh + up + max(0, c))) if c >= 0 else mr * (1 << sh)
    rhs = S * (1 << up) if c < 0 else S
    # lhs, rhs are now in units of 2^(min(c,0) - sh); ulp(r) = 2^(c - min(c,0) + sh) of these
    ulp = 1 << (sh + max(0, c))
    diff = Abs(lhs - rhs) * tol_den
    bound = tol_num * ulp
    E.prove(diff < bound if strict else diff <= bound, label)


# ---------------------------------------------------------------------------
# + and -

def t_addsub(E, kind, op, dlo, dhi, order):
    cls = CLS[kind]
    p = f_prec(cls)
    B = 128 + p
    vals = values_env()
    x = new_float(E, cls, vals, 'x')
    y = new_float(E, cls, vals, 'y')
    x0, y0 = snapshot(x), snapshot(y)
    ex, ey = f_exp(x), f_exp(y)
    if E.mode == 'symbolic':
        # modular: Float._denormalise by its contract (proved by task Float._denormalise)
        E.interp.contracts[numbers.Float._denormalise] = _denormalise_contract
    # case: exponent difference and which operand is the larger one
    if order == 'x>=y':
        dd = ex - ey
    else:
        dd = ey - ex
        E.assume(dd >= 1)
    E.assume(And(dd >= dlo, dd <= dhi))
    d = E.concretize(dd)
    L = ey if order == 'x>=y' else ex           # smaller exponent byte (symbolic)
    zx, zy = f_is_zero(x), f_is_zero(y)
    sx = _signed(f_neg(x), f_man(x))
    sy = _signed(f_neg(y), f_man(y))
    if op == 'sub':
        sy = -sy
    # exact result in units of 2^(L-B)
    wx = If(zx, 0, sx * (1 << d if order == 'x>=y' else 1))
    wy = If(zy, 0, sy * (1 if order == 'x>=y' else 1 << d))
    S = wx + wy
    r = E.call(values.add if op == 'add' else values.sub, x, y)
    E.prove(And(same_bytes(x, x0), same_bytes(y, y0)), 'operands unchanged')
    maxman = (1 << p) - 1
    if r.raised:
        E.cover('overflow')
        E.prove(r.is_error(BASICError, error.OVERFLOW), 'raises only Overflow')
        for Lc in E.each_value(L):
            # |S| * 2^(Lc - B) > max - 2 ulp(max) = (2^p - 3) * 2^(255 - B)
            E.prove(Abs(S) > (maxman - 2) * (1 << (255 - Lc)),
                    'Overflow only when the exact result exceeds the largest number (within the 2 ulp tolerance)')
        return
    res = r.value
    E.prove(type(res) is cls, 'result has the operand type')
    if bool(f_is_zero(res)):
        E.cover('zero')
        # a non-zero exact result may become zero only below the smallest positive number:
        # |S| * 2^(L-B) < 2^(p-1) * 2^(1-B)   <=>   |S| * 2^(L-1) < 2^(p-1)
        for Lc in E.each_value(L):
            if Lc == 0:
                E.prove(S == 0, 'both operands zero: exact zero')
            else:
                E.prove(Or(S == 0, Abs(S) * (1 << (Lc - 1)) < (1 << (p - 1))),
                        'non-zero result replaced by zero only below the smallest positive number')
        return
    E.cover('nonzero')
    _check_result_close(E, res, cls, S, L, 2, 1, False, 'within 2 ulp of the exact result')
    E.canary(_signed(f_neg(res), f_man(res)) == S, 'canary: always exact at the result scale')


def _dchunks(p):
    out = []
    # fine chunks where alignment matters, coarse beyond the mantissa width
    for d in range(0, p + 10):
        out.append((d, d))
    out.append((p + 10, 100))
    out.append((101, 180))
    out.append((181, 255))
    return out


# double precision: exponent differences checked on every change; the rest in the thorough tier
_DBL_QUICK = set(_dchunks(56))   # all exponent differences on every change


# ---------------------------------------------------------------------------
# _denormalise (helper contract used modularly by the multiplication proof)

def t_denormalise(E, kind):
    cls = CLS[kind]
    vals = values_env()
    x = new_float(E, cls, vals, 'x')
    r = E.call(x._denormalise)
    E.prove(not r.raised, 'never raises')
    if r.raised:
        return
    exp, man, neg = r.value
    E.prove(exp == f_exp(x), 'exponent byte')
    E.prove(man == 256 * f_man(x), 'mantissa with hidden bit, shifted by one carry byte')
    E.prove(Iff(neg, f_neg(x)), 'sign')


def _denormalise_contract(I, args, kw):
    """Summary of Float._denormalise justified by t_denormalise."""
    (self,) = args
    return (f_exp(self), 256 * f_man(self), f_neg(self))


# ---------------------------------------------------------------------------
# *

def t_mul(E, kind):
    cls = CLS[kind]
    p = f_prec(cls)
    B = 128 + p
    vals = values_env()
    x = new_float(E, cls, vals, 'x')
    y = new_float(E, cls, vals, 'y')
    x0, y0 = snapshot(x), snapshot(y)
    if E.mode == 'symbolic':
        E.interp.contracts[numbers.Float._denormalise] = _denormalise_contract
        # the product of the two mantissas is one shared atom with interval bounds: everything
        # downstream (shifts, rounding, the error bound) is linear in it
        E.nl_mode = 'abstract'
    ex, ey = f_exp(x), f_exp(y)
    mx, my = f_man(x), f_man(y)
    neg = f_neg(x) != f_neg(y)
    zero_in = Or(f_is_zero(x), f_is_zero(y))
    r = E.call(values.mul, x, y)
    E.prove(And(same_bytes(x, x0), same_bytes(y, y0)), 'operands unchanged')
    P = mx * my                       # exact product of mantissas: value = +-P * 2^(ex+ey-2B)
    maxman = (1 << p) - 1
    if r.raised:
        E.cover('overflow')
        E.prove(r.is_error(BASICError, error.OVERFLOW), 'raises only Overflow')
        E.prove(Not(zero_in), 'no overflow with a zero factor')
        # P * 2^(ex+ey-2B) > (2^p - 2) * 2^(255-B)  with ex+ey-B-255 = t
        for t in E.each_value(ex + ey - B - 255):
            if t >= 0:
                E.prove(P * (1 << t) > maxman - 1, 'Overflow only when the exact product exceeds the largest number')
            else:
                E.prove(P > (maxman - 1) * (1 << -t), 'Overflow only when the exact product exceeds the largest number')
        return
    res = r.value
    E.prove(type(res) is cls, 'result has the operand type')
    if bool(zero_in):
        E.prove(f_is_zero(res), 'zero factor gives zero')
        return
    if bool(f_is_zero(res)):
        E.cover('underflow')
        # |product| < 2^-128  <=>  P * 2^(ex+ey-2B) < 2^(p-1) * 2^(1-B)  <=>  P * 2^(ex+ey-B-p) < 1...
        # smallest positive = 2^(p-1) * 2^(1-B); P*2^(ex+ey-2B) < that  <=>  P * 2^(ex+ey-B-p) < 1
        for t in E.each_value(ex + ey - B - p):
            if t >= 0:
                E.prove(False, 'non-zero product replaced by zero only below the smallest positive number')
            else:
                E.prove(P < (1 << -t), 'non-zero product replaced by zero only below the smallest positive number')
        return
    E.cover('nonzero')
    E.prove(Iff(f_neg(res), neg), 'sign of the product')
    # value(res) = mr * 2^(er-B); exact = P * 2^(ex+ey-2B); compare in units 2^(er-B): ulp = 1
    c = E.concretize(ex + ey - B - f_exp(res))      # exact = P * 2^c ulps
    mr = f_man(res)
    if c >= 0:
        E.prove(Abs(mr - P * (1 << c)) < 1, 'within less than 1 ulp of the exact product')
    else:
        E.prove(Abs(mr * (1 << -c) - P) < (1 << -c), 'within less than 1 ulp of the exact product')
    E.canary(mr * (1 << max(0, -c)) == P * (1 << max(0, c)), 'canary: product always exact')


# ---------------------------------------------------------------------------
# /   Float._div_den by loop invariant: the quotient of the mantissas for ALL operands

def t_div_den(E, kind, power_of_two=False):
    """Restoring division with a divisor that is shifted right (and so truncated) every step.
    With i iterations done, R the divisor mantissa on entry, L the dividend mantissa,
    Q = lman, w = work_man, r = rman, the invariant is (i concrete per path, 0..p):
        r = R div 2^i,   lexp = lexp_entry - i,   0 <= Q < 2^i (Q = 0 for i = 0),   0 <= w,
        0 <= 2*Q*R - (L - w)*2^i <= max(i-1,0)*2^i  (the quotient bits account for L - w, up to the truncation)
        w <= 2*r + i  (2*r - 1 on entry)             (the remainder stays small)
        R = r*2^i -> w <= 2*r;   2*Q*R = (L-w)*2^i -> w <= 2*r + 1     (slack only from truncation already accounted)
    On exit (i = p, r = 0) this gives |2*Q*R - L*2^p| < p*2^p (strictly): the quotient mantissa is
    L/R * 2^(p-1) within less than p/2 units of its last place - with 8 guard bits that is < 0.13 ulp
    of the result before rounding."""
    cls = CLS[kind]
    p = 8 * (cls.size - 1) + 8          # width of a denormalised mantissa: 32 or 64
    M = 1 << (p - 1)
    vals = values_env()
    x = E.new(cls, None, vals)
    L = E.int('L', M, 2 * M - 1)
    R = M if power_of_two else E.int('R', M, 2 * M - 1)
    le, re_ = E.int('lexp', 1, 255), E.int('rexp', 1, 255)
    ln, rn = E.bool('lneg'), E.bool('rneg')
    state = {}

    def steps(Lc):
        if 'e0' not in state:
            state['e0'] = Lc['lexp']          # value at loop entry (first evaluation of the invariant)
        return state['e0'] - Lc['lexp']

    def inv(Lc):
        it = steps(Lc)
        Q, w, r = Lc['lman'], Lc['work_man'], Lc['rman']
        QR = Q * R
        per_i = []
        for i in range(p + 1):
            P = 1 << i
            acc = 2 * QR - (L - w) * P
            # step 0 divides by R itself (no truncation), so i steps lose less than i-1 units
            # a divisor mantissa that is a power of two is never truncated: the accounting is exact
            # the remainder can exceed twice the current divisor only through truncation that the accounting
            # has already seen: no truncation so far (R = r*2^i) -> w <= 2r; nothing accounted yet -> w <= 2r+1
            per_i.append(Implies(it == i, And(r == R // P, Q < P if i else Q == 0, acc >= 0,
                                              acc <= (0 if power_of_two else max(i - 1, 0) * P),
                                              w <= 2 * r + i - (1 if i == 0 else 0),
                                              Implies(R == r * P, w <= 2 * r), Implies(acc == 0, w <= 2 * r + 1))))
        return And(it >= 0, it <= p, Q >= 0, w >= 0, w <= L, *per_i)

    def variant(Lc):
        return Lc['rman']

    def on_exit(Lc):
        E.cover('exit')
        E.prove(steps(Lc) == p, 'the loop runs once per mantissa bit')
        state['exit'] = dict(Lc)

    E.interp.loop_contracts['_div_den'] = {'invariant': inv, 'variant': variant, 'exit': on_exit,
                                           'iteration': lambda b, a, ys: E.cover('iteration')}
    r = E.call(x._div_den, (le, L, ln), (re_, R, rn))
    E.prove(not r.raised, 'never raises')
    if r.raised:
        return
    lexp, Q, neg = r.value
    E.prove(Abs(2 * (Q * R) - L * (1 << p)) < p * (1 << p),
            'the quotient mantissa Q satisfies |2*Q*R - L*2^p| < p*2^p: L/R scaled by 2^(p-1), within less than p/2 units')
    E.prove(And(Q >= 0, Q < (1 << p)), 'the quotient fits the mantissa width')
    if power_of_two:
        E.prove(And(Q <= L, Q >= L - p), 'dividing by a power of two: the quotient mantissa is the dividend mantissa less the final remainder (at most p)')
    E.prove(lexp == le - re_ + cls._bias + 8 + 1 - p, 'exponent of the quotient: difference of the exponents, rebased, minus one per quotient bit')
    E.prove(Iff(neg, Xor(ln, rn)) if 'Xor' in globals() else Iff(neg, Or(And(ln, Not(rn)), And(Not(ln), rn))), 'sign of the quotient')


def _div_den_contract(E, cls, seen=None):
    """Summary of Float._div_den justified by t_div_den (same postcondition, proved there by invariant)."""
    pw = 8 * (cls.size - 1) + 8
    def h(I, args, kw):
        self, lden, rden = args
        lexp, L, lneg = lden
        rexp, R, rneg = rden
        Q = E.fresh('quotient', 0, (1 << pw) - 1)
        acc = 2 * (Q * R) - L * (1 << pw)
        E.assume(And(acc < pw * (1 << pw), acc > -pw * (1 << pw)))
        if seen is not None:
            seen['Q'] = Q
        return (lexp - rexp + cls._bias + 8 + 1 - pw, Q, Or(And(lneg, Not(rneg)), And(Not(lneg), rneg)))
    return h


def t_div_by_one(E, kind):
    """C05: x / 1 = x bit for bit, from the exact power-of-two contract of _div_den."""
    cls = CLS[kind]
    p = f_prec(cls)
    pw = p + 8
    vals = values_env()
    x = new_float(E, cls, vals, 'x')
    x0 = snapshot(x)
    one = E.new(cls, None, vals)
    E.call(one.from_int, 1)
    E.interp.contracts[numbers.Float._denormalise] = _denormalise_contract
    def h(I, args, kw):
        self, lden, rden = args
        lexp, L, lneg = lden
        rexp, R, rneg = rden
        if not (isinstance(R, int) and R == 1 << (pw - 1)):
            raise Unsupported('power-of-two contract used with another divisor')
        Q = E.fresh('quotient', 0, (1 << pw) - 1)
        E.assume(And(Q <= L, Q >= L - pw))
        return (lexp - rexp + cls._bias + 8 + 1 - pw, Q, Or(And(lneg, Not(rneg)), And(Not(lneg), rneg)))
    E.interp.contracts[numbers.Float._div_den] = h
    r = E.call(values.div, x, one)
    E.prove(not r.raised, 'x / 1 never raises')
    if r.raised:
        return
    E.prove(type(r.value) is cls, 'result has the operand type')
    if bool(f_is_zero(x)):
        E.prove(f_is_zero(r.value), '0 / 1 = 0')
    else:
        E.prove(same_bytes(r.value, x0), 'x / 1 = x bit for bit')
    E.prove(same_bytes(x, x0), 'operand unchanged')


_DIV_BANDS = ([(-254, -200), (-199, -150), (-149, -129), (-128, -120), (-119, -60), (-59, 0), (1, 60), (61, 110), (111, 127)] +
              [(a, min(a + 7, 254)) for a in range(128, 255, 8)])


def t_div(E, kind, band):
    """values.div for ALL operands (the exponent difference is split into bands only to spread the work), modular: _denormalise and _div_den by their proved contracts,
    normalisation, rounding, limits and error handling from the real source."""
    cls = CLS[kind]
    p = f_prec(cls)
    pw = p + 8
    B = 128 + p
    vals = values_env()
    x = new_float(E, cls, vals, 'x')
    y = new_float(E, cls, vals, 'y')
    x0, y0 = snapshot(x), snapshot(y)
    E.interp.contracts[numbers.Float._denormalise] = _denormalise_contract
    seen = {}
    E.interp.contracts[numbers.Float._div_den] = _div_den_contract(E, cls, seen)
    ex, ey = f_exp(x), f_exp(y)
    lo, hi = _DIV_BANDS[band]
    if band == 0:
        # zero operands (exponent byte 0) are handled in the first band
        E.assume(Or(f_is_zero(x), f_is_zero(y), And(ex - ey >= lo, ex - ey <= hi)))
    else:
        E.assume(And(Not(f_is_zero(x)), Not(f_is_zero(y)), ex - ey >= lo, ex - ey <= hi))
    mx, my = f_man(x), f_man(y)
    neg = Or(And(f_neg(x), Not(f_neg(y))), And(Not(f_neg(x)), f_neg(y)))
    r = E.call(values.div, x, y)
    E.prove(And(same_bytes(x, x0), same_bytes(y, y0)), 'operands unchanged')
    maxman = (1 << p) - 1
    if bool(f_is_zero(y)):
        E.cover('division by zero')
        E.prove(r.is_error(BASICError, error.DIVISION_BY_ZERO), 'zero divisor raises Division by zero')
        return
    if bool(f_is_zero(x)):
        E.prove(not r.raised and bool(f_is_zero(r.value)), 'zero dividend gives zero')
        return
    if r.raised:
        E.cover('overflow')
        E.prove(r.is_error(BASICError, error.OVERFLOW), 'raises only Overflow')
        # exact quotient mx/my * 2^(ex-ey) exceeds (2^p - 2) * 2^(255-B) (within the proved tolerance):
        # mx * 2^(ex-ey+B-255) > (2^p - 3) * my
        for t in E.each_value(ex - ey + B - 255):
            if t >= 0:
                E.prove(mx * (1 << t) > (maxman - 2) * my, 'Overflow only when the exact quotient exceeds the largest number (within the tolerance)')
            else:
                E.prove(mx > (maxman - 2) * my * (1 << -t), 'Overflow only when the exact quotient exceeds the largest number (within the tolerance)')
        return
    res = r.value
    E.prove(type(res) is cls, 'result has the operand type')
    if bool(f_is_zero(res)):
        E.cover('underflow')
        # |quotient| < 2^-128 (+ tolerance): mx/my * 2^(ex-ey) < 2^(p-1) * 2^(1-B) * (1 + 2^-(p-2))
        for t in E.each_value(ex - ey + B - p):
            if t >= 0:
                E.prove(mx * (1 << t) * (1 << (p - 2)) < my * ((1 << (p - 2)) + 1),
                        'non-zero quotient replaced by zero only below the smallest positive number (within the tolerance)')
            else:
                E.prove(mx * (1 << (p - 2)) < my * ((1 << (p - 2)) + 1) * (1 << -t),
                        'non-zero quotient replaced by zero only below the smallest positive number (within the tolerance)')
        return
    E.cover('nonzero')
    E.prove(Iff(f_neg(res), neg), 'sign of the quotient')
    # value(res) = mr * 2^(er-B); exact = mx/my * 2^(ex-ey); in ulps of the result: mx * 2^c / my with
    c = E.concretize(ex - ey + B - f_exp(res))
    mr = f_man(res)
    # lemma (cut): how the result mantissa comes from the quotient mantissa Q - normalisation shift s,
    # round to nearest of the 8 guard bits, possibly a carry into the next exponent. Proved on this
    # path from the real _normalise, then used as a fact: it is linear in Q.
    Q = seen['Q']
    k = E.concretize((ex - ey + cls._bias + 9 - pw) - f_exp(res))       # shift minus carry
    no_carry = And(256 * mr - Q * (1 << k) <= 128, 256 * mr - Q * (1 << k) >= -128) if k >= 0 else False
    carry = And(mr == (1 << (p - 1)), 512 * mr - Q * (1 << (k + 1)) <= 128, 512 * mr - Q * (1 << (k + 1)) >= -128) if k + 1 >= 0 else False
    lemma = Or(no_carry, carry)
    if E.prove(lemma, 'result mantissa = quotient mantissa shifted into place and rounded to nearest (half a unit of 256)'):
        E.assume(lemma)
    # tolerance: half a unit of the rounding (128/256) plus the quotient's pw/2 units shifted by s
    sh = k if bool(no_carry) else k + 1
    tol_num, tol_den = 128 + pw * (1 << max(sh, 0)), 256
    E.prove(tol_num <= tol_den, 'the rounding (half a unit) and the quotient tolerance add up to at most one unit on every path')
    E.cover('less than 1 ulp')
    label = 'within less than 1 ulp of the exact quotient (strictly below %d/256)' % tol_num
    if c >= 0:
        E.prove(Abs(mr * my - mx * (1 << c)) * tol_den < tol_num * my, label)
        E.canary(mr * my == mx * (1 << c), 'canary: quotient always exact')
    else:
        E.prove(Abs(mr * my * (1 << -c) - mx) * tol_den < tol_num * my * (1 << -c), label)


# ---------------------------------------------------------------------------
# /   (bounded stand-in: the long-division loop of Float._div_den needs an inductive
#      invariant with nonlinear ghost state that is not discharged yet - see DESIGN.md)

def t_div_bounded(E, kind):
    cls = CLS[kind]
    p = f_prec(cls)
    B = 128 + p
    vals = values_env()
    x = new_float(E, cls, vals, 'x')
    y = new_float(E, cls, vals, 'y')
    # bias the sample towards extreme exponents now and then
    x0, y0 = snapshot(x), snapshot(y)
    ex, ey, mx, my = int(f_exp(x)), int(f_exp(y)), int(f_man(x)), int(f_man(y))
    neg = bool(f_neg(x)) != bool(f_neg(y))
    r = E.call(values.div, x, y)
    E.prove(same_bytes(x, x0) and same_bytes(y, y0), 'operands unchanged')
    maxman = (1 << p) - 1
    if ey == 0:
        E.prove(r.is_error(BASICError, error.DIVISION_BY_ZERO), 'zero divisor raises Division by zero')
        return
    if ex == 0:
        E.prove(not r.raised and bool(f_is_zero(r.value)), 'zero dividend gives zero')
        return
    # exact quotient magnitude = (mx / my) * 2^(ex - ey); compare after clearing denominators
    def scaled(a, e):          # a * 2^e as exact integer pair (num, shift)
        return a, e
    if r.raised:
        E.prove(r.is_error(BASICError, error.OVERFLOW), 'raises only Overflow / Division by zero')
        # |Q| > (2^p - 2) * 2^(255-B)   <=>   mx * 2^(ex-ey) > (2^p-2) * my * 2^(255-B)
        lhs, rhs = mx, (maxman - 1) * my
        sh = (ex - ey) - (255 - B)
        E.prove((lhs << sh) > rhs if sh >= 0 else lhs > (rhs << -sh),
                'Overflow only when the exact quotient exceeds the largest number')
        return
    res = r.value
    E.prove(type(res) is cls, 'result has the operand type')
    if bool(f_is_zero(res)):
        # |Q| < 2^(p-1) * 2^(1-B)   <=>  mx * 2^(ex-ey) < my * 2^(p-B)
        sh = (ex - ey) - (p - B)
        E.prove((mx << sh) < my if sh >= 0 else mx < (my << -sh),
                'non-zero quotient replaced by zero only below the smallest positive number')
        return
    er, mr = int(f_exp(res)), int(f_man(res))
    E.prove(bool(f_neg(res)) == neg, 'sign of the quotient')
    # |mr * 2^(er-B) * my * 2^(ey-B) - mx * 2^(ex-B)| < 2^(er-B) * my * 2^(ey-B)
    a = mr * my
    b = mx
    sh = (ex - B) - (er - B + ey - B)      # b * 2^sh compared with a
    if sh >= 0:
        E.prove(abs(a - (b << sh)) < my, 'within less than 1 ulp of the exact quotient')
    else:
        E.prove(abs((a << -sh) - b) < (my << -sh), 'within less than 1 ulp of the exact quotient')


def t_div_special(E, kind, soft):
    """Division by zero and division of zero (the parts of Float.idiv outside the loop)."""
    cls = CLS[kind]
    console = _Console() if soft else None
    vals = values_env(console=console)
    x = new_float(E, cls, vals, 'x')
    y = new_float(E, cls, vals, 'y')
    x0, y0 = snapshot(x), snapshot(y)
    xneg = f_neg(x)
    E.assume(Or(f_is_zero(y), f_is_zero(x)))
    r = E.call(values.div, x, y)
    E.prove(And(same_bytes(x, x0), same_bytes(y, y0)), 'operands unchanged')
    if bool(f_is_zero(y)):
        E.cover('zero divisor')
        if soft:
            E.prove(not r.raised, 'soft-handled Division by zero continues')
            if not r.raised:
                E.prove(type(r.value) is cls, 'result keeps the operand type')
                E.prove(And(Implies(xneg, same_bytes(r.value, list(cls.neg_max))),
                            Implies(Not(xneg), same_bytes(r.value, list(cls.pos_max)))),
                        'yields the maximum with the sign of the dividend')
                E.prove(console.lines == [BASICError(error.DIVISION_BY_ZERO).message], 'message written once')
        else:
            E.prove(r.is_error(BASICError, error.DIVISION_BY_ZERO), 'zero divisor raises Division by zero')
    else:
        E.cover('zero dividend')
        E.prove(not r.raised, 'never raises')
        if not r.raised:
            E.prove(f_is_zero(r.value) and type(r.value) is cls, 'zero divided by a non-zero number is zero')


def t_idiv_zero_payload(E, kind):
    """Float.idiv itself: ZeroDivisionError carries the signed maximum of the dividend's type."""
    cls = CLS[kind]
    vals = values_env()
    x = new_float(E, cls, vals, 'x')
    y = new_float(E, cls, vals, 'y')
    E.assume(f_is_zero(y))
    xneg = f_neg(x)
    r = E.call(x.idiv, y)
    E.prove(r.raised and isinstance(r.exc, ZeroDivisionError), 'raises ZeroDivisionError')
    if r.raised and isinstance(r.exc, ZeroDivisionError):
        pl = r.exc.args[0]
        E.prove(type(pl) is cls, 'payload has the type of the dividend')
        E.prove(And(Implies(xneg, same_bytes(pl, list(cls.neg_max))),
                    Implies(Not(xneg), same_bytes(pl, list(cls.pos_max)))),
                'payload is the maximum with the sign of the dividend')


# ---------------------------------------------------------------------------
# soft handling of Overflow / Division by zero

class _Console(object):
    def __init__(self):
        self.lines = []
    def write_line(self, s):
        self.lines.append(s)

def t_handler(E, exc, soft, suspended):
    console = _Console() if soft else None
    h = values.FloatErrorHandler(console)
    if suspended:
        h.suspend(True)
    vals = values.Values(None, False)
    vals.set_handler(h)
    payload = new_float(E, numbers.Single, vals, 'm')
    p0 = snapshot(payload)
    e = {'overflow': OverflowError, 'zerodiv': ZeroDivisionError, 'value': ValueError}[exc](payload)
    r = E.call(h.handle, e)
    code = {'overflow': error.OVERFLOW, 'zerodiv': error.DIVISION_BY_ZERO, 'value': error.IFC}[exc]
    if soft and not suspended and exc != 'value':
        E.prove(not r.raised, 'soft-handled: execution continues')
        if not r.raised:
            E.prove(r.value is payload and same_bytes(payload, p0), 'yields the signed maximum carried by the error')
            E.prove(console.lines == [BASICError(code).message], 'the error message is written')
    else:
        E.prove(r.is_error(BASICError, code), 'raises the BASIC error for the arithmetic exception')


TASKS = [
    Task('values.add', t_addsub, covers=('overflow', 'zero', 'nonzero'),
         cases=[{'kind': k, 'op': 'add', 'dlo': a, 'dhi': b, 'order': o}
                for k in ('sng',) for a, b in _dchunks(24) for o in ('x>=y', 'x<y')]),
    Task('values.sub', t_addsub, covers=('overflow', 'zero', 'nonzero'),
         cases=[{'kind': k, 'op': 'sub', 'dlo': a, 'dhi': b, 'order': o}
                for k in ('sng',) for a, b in _dchunks(24) for o in ('x>=y', 'x<y')]),
    Task('values.add (double)', t_addsub, covers=('overflow', 'zero', 'nonzero'),
         cases=[{'kind': 'dbl', 'op': 'add', 'dlo': a, 'dhi': b, 'order': o}
                for a, b in _dchunks(56) if (a, b) in _DBL_QUICK for o in ('x>=y', 'x<y')]),
    Task('values.sub (double)', t_addsub, covers=('overflow', 'zero', 'nonzero'),
         cases=[{'kind': 'dbl', 'op': 'sub', 'dlo': a, 'dhi': b, 'order': o}
                for a, b in _dchunks(56) if (a, b) in _DBL_QUICK for o in ('x>=y', 'x<y')]),
    Task('values.add (double, remaining exponent differences)', t_addsub, tier='thorough',
         cases=[{'kind': 'dbl', 'op': 'add', 'dlo': a, 'dhi': b, 'order': o}
                for a, b in _dchunks(56) if (a, b) not in _DBL_QUICK for o in ('x>=y', 'x<y')]),
    Task('values.sub (double, remaining exponent differences)', t_addsub, tier='thorough',
         cases=[{'kind': 'dbl', 'op': 'sub', 'dlo': a, 'dhi': b, 'order': o}
                for a, b in _dchunks(56) if (a, b) not in _DBL_QUICK for o in ('x>=y', 'x<y')]),
    Task('Float._denormalise', t_denormalise, cases=[{'kind': k} for k in CLS]),
    Task('values.mul', t_mul, cases=[{'kind': k} for k in CLS], covers=('overflow', 'underflow', 'nonzero')),
    Task('Float._div_den (loop invariant)', t_div_den, cases=[{'kind': k, 'power_of_two': o} for k in CLS for o in (False, True)],
         covers=('iteration', 'exit'), timeout_ms=60000),
    Task('x / 1 = x', t_div_by_one, cases=[{'kind': k} for k in CLS]),
    Task('values.div (all operands, modular)', t_div, cases=[{'kind': k, 'band': b} for k in CLS for b in range(len(_DIV_BANDS))],
         covers=('division by zero', 'overflow', 'underflow', 'nonzero'), timeout_ms=60000, max_seconds=3000),
    Task('values.div (bounded)', t_div_bounded, cases=[{'kind': k} for k in CLS], bounded=True,
         samples=(20000, 400000),
         scope='random and boundary-dense operand bit patterns (mantissa bytes and exponents drawn independently); '
               'not exhaustive, not counted as proved'),
    Task('values.div (zero divisor / zero dividend)', t_div_special,
         cases=[{'kind': k, 'soft': s_} for k in CLS for s_ in (False, True)],
         covers=('zero divisor', 'zero dividend')),
    Task('Float.idiv (payload of ZeroDivisionError)', t_idiv_zero_payload, cases=[{'kind': k} for k in CLS]),
    Task('FloatErrorHandler.handle', t_handler,
         cases=[{'exc': e, 'soft': s, 'suspended': u} for e in ('overflow', 'zerodiv', 'value')
                for s in (True, False) for u in (True, False)]),
]

ASSUMPTIONS = [
    'values.mul is verified against the contract of Float._denormalise (proved by task Float._denormalise), not its body',
    'products of two symbolic mantissas are z3 nonlinear integer terms (shared by code and spec)',
]
NOT_COVERED = []
