"""
C07 - Decimal conversion (literal parsing and type selection proved; accuracy only bounded).

Under contract (real source, values/numbers.py, values/values.py):
  proved  : numbers.str_to_decimal - for literals of a given *shape* (number of digits before and
            after the point, sign, exponent letter/sign/digits, type sigil) with symbolic digit
            values: the mantissa is the integer spelled by the digits (negated for '-'), the decimal
            exponent is the written exponent minus the number of fraction digits, and the type is
            double exactly when the exponent letter is D, the sigil is '#', or more than 7
            significant digits are written (counted from the first non-zero digit, not counting
            zeros at the end of the fraction) and the sigil is not '!';
            Values.from_repr - integer literals in range give an Integer with exactly that value,
            everything else a Single or Double as str_to_decimal says (from_decimal by contract);
            Integer.to_str - an Integer is shown exactly, with its sign.
  bounded : (never counted as proved) Float.to_str and Values.from_repr accuracy against exact
            rational arithmetic on sampled values: shown value within one unit of the last digit shown,
            at most 7 / 16 significant digits; stored value within one unit in the last binary place.
            The conversion loops (_div10_den / _mul10_den chains with rounding) have no invariant here.
"""

from .common import *

PROPERTY = 'C07'


def _literal(E, nb, na, sign, exp, sigil, free=None):
    """Build the text and its reference reading. exp = None or (letter, sign, ndigits).
    free: number of trailing digit positions that are symbolic (the others are the digit 1); None = all."""
    cells, digs = [], []
    total = nb + na
    def digit(name, k):
        if free is not None and k < total - free:
            return 1
        return E.int(name, 0, 9)
    if sign:
        cells.append(ord(sign))
    for i in range(nb):
        d = digit('b%d' % i, i); digs.append(d); cells.append(48 + d)
    if na or (nb == 0):
        cells.append(46)
    for i in range(na):
        d = digit('a%d' % i, nb + i); digs.append(d); cells.append(48 + d)
    man = 0
    for d in digs:
        man = man * 10 + d
    if sign == '-':
        man = -man
    e10 = -na
    if exp is not None:
        letter, esign, nd = exp
        cells.append(ord(letter))
        if esign:
            cells.append(ord(esign))
        ev = 0
        for i in range(nd):
            d = E.int('e%d' % i, 0, 9); cells.append(48 + d); ev = ev * 10 + d
        e10 = e10 - ev if esign == '-' else e10 + ev
    if sigil:
        cells.append(ord(sigil))
    # significant digits: from the first non-zero digit; zeros at the end of the fraction do not count
    first = None
    for k, d in enumerate(digs):
        if bool(d != 0):
            first = k
            break
    if first is None:
        sig = 0
    else:
        count = len(digs) - first
        tz = 0
        for k in range(len(digs) - 1, max(first, nb) - 1, -1):
            if k >= nb and bool(digs[k] == 0):
                tz += 1
            else:
                break
        sig = count - tz
    return cells, man, e10, sig


def t_parse(E, nb, na, sign, exp, sigil):
    cells, man, e10, sig = _literal(E, nb, na, sign, exp, sigil)
    text = SBuf(cells, 'bytes') if E.mode == 'symbolic' else bytes(cells)
    r = E.call(numbers.str_to_decimal, text, False)
    E.prove(not r.raised, 'a well-formed literal is accepted')
    if r.raised:
        return
    is_double, mantissa, exp10 = r.value
    E.prove(mantissa == man, 'the mantissa is the integer spelled by the digits, with the sign')
    E.prove(exp10 == e10, 'the decimal exponent is the written exponent minus the number of fraction digits')
    want_double = (exp is not None and exp[0] in 'Dd') or sigil == '#' or (sig > 7 and sigil != '!')
    E.prove(bool(is_double) == want_double,
            'double exactly for a D exponent, a # sigil, or more than 7 significant digits without a ! sigil')
    if sig > 7:
        E.cover('many digits')


class _Dec(object):
    _pyvc_trusted = True


def t_from_repr(E, nb, na, exp):
    vals = values_env()
    cells, man, e10, sig = _literal(E, nb, na, '', exp, '', free=2)
    text = SBuf(cells, 'bytes') if E.mode == 'symbolic' else bytes(cells)
    got = []
    if E.mode == 'symbolic':
        E.interp.contracts[numbers.Float.from_decimal] = lambda I, args, kw: (got.append((type(args[0]), args[1], args[2])), args[0])[1]
    r = E.call(vals.from_repr, text, False)
    E.prove(not r.raised, 'never raises for a well-formed literal')
    if r.raised:
        return
    v = r.value
    if na == 0 and exp is None and nb > 0:
        if bool(man <= 32767):
            E.cover('integer')
            E.prove(type(v) is numbers.Integer and bool(s16(v) == man), 'an integer literal in range is an Integer with exactly that value')
            return
    E.cover('float')
    want_double = (exp is not None and exp[0] == 'D') or sig > 7
    E.prove(type(v) is (numbers.Double if want_double else numbers.Single), 'the type follows the exponent letter and the digit count')
    if E.mode == 'symbolic':
        E.prove(len(got) == 1 and bool(And(got[0][1] == man, got[0][2] == e10)) if len(got) == 1 else False,
                'and is built from exactly the digits and exponent written')


def t_zero_literal(E, kind):
    """A zero mantissa is zero whatever the exponent."""
    vals = values_env()
    cls = numbers.Single if kind == 'single' else numbers.Double
    e = E.int('exp10', -60, 60)
    x = E.new(cls, None, vals)
    r = E.call(x.from_decimal, 0, e)
    E.prove(not r.raised and bool(f_is_zero(r.value)) if not r.raised else False, 'zero times any power of ten is zero')


def t_integer_to_str(E, leading_space):
    vals = values_env()
    n = E.int('n', -32768, 32767)
    v = E.new(numbers.Integer, None, vals)
    E.call(v.from_int, n)
    r = E.call(v.to_str, leading_space, False)
    E.prove(not r.raised, 'never raises')
    cs = list(to_cells(r.value))
    # read the digits back
    neg = cs[:1] == [45] if not isinstance(cs[0], SInt) else None
    body = cs
    if leading_space and bool(n >= 0):
        E.prove(cs[0] == 32, 'a non-negative number gets the leading space')
        body = cs[1:]
    elif bool(n < 0):
        E.prove(cs[0] == 45, 'a negative number gets the minus sign')
        body = cs[1:]
    val = 0
    for c in body:
        E.prove(And(c >= 48, c <= 57), 'only digits follow')
        val = val * 10 + (c - 48)
    E.prove(val == Abs(n), 'the digits spell exactly the value')
    E.prove(len(body) <= 5 and (len(body) == 1 or bool(body[0] != 48)), 'without leading zeros')


# ---------------------------------------------------------------------------
# bounded accuracy checks against exact rational arithmetic

def _exact(cls, b):
    from fractions import Fraction
    exp = b[-1]
    if exp == 0:
        return Fraction(0)
    man = int.from_bytes(b[:-1], 'little')
    bits = 8 * (cls.size - 1)
    neg = bool((man >> (bits - 1)) & 1)
    man |= 1 << (bits - 1)
    v = Fraction(man, 1 << bits) * Fraction(2) ** (exp - 128)
    return -v if neg else v


def _shown(s):
    from fractions import Fraction
    t = s.strip().rstrip(b'!#%').decode().replace('D', 'E')
    val = Fraction(t)
    m, e = (t.split('E') + ['0'])[:2]
    e = int(e)
    m = m.lstrip('+-')
    if '.' in m:
        e -= len(m.split('.')[1])
    sig = len(m.replace('.', '').lstrip('0'))
    return val, Fraction(10) ** e, sig


def t_output_accuracy(E, kind):
    cls, digits = (numbers.Single, 7) if kind == 'single' else (numbers.Double, 16)
    vals = values_env()
    b = bytearray(E.int('x[%d]' % i, 0, 255) for i in range(cls.size))
    if b[-1] == 0:
        return
    x = cls(None, vals).from_bytes(bytes(b))
    s = x.to_str(False, False)
    shown, unit, sig = _shown(s)
    E.prove(abs(shown - _exact(cls, bytes(b))) < unit, 'the shown value is within one unit of the last digit shown')
    E.prove(sig <= digits, 'at most %d significant digits' % digits)


def _mbf_near(cls, value, k):
    """Bytes of the k-th float above (below) the float nearest to the positive rational `value`."""
    from fractions import Fraction
    bits = 8 * (cls.size - 1)
    e = 0
    while value >= Fraction(2) ** e:
        e += 1
    while value < Fraction(2) ** (e - 1):
        e -= 1
    man = int(value / Fraction(2) ** e * (1 << bits) + Fraction(1, 2)) + k
    if man >= 1 << bits:
        man, e = man >> 1, e + 1
    if man < 1 << (bits - 1):
        man, e = man << 1, e - 1
    if not (1 <= e + 128 <= 255):
        return None
    man &= ~(1 << (bits - 1))
    return man.to_bytes(cls.size - 1, 'little') + bytes([e + 128])


def t_output_near_powers(E, kind):
    """Printing of the floats within 40 units in the last place of each power of ten (where the decimal
    mantissa rounds up into an extra digit)."""
    from fractions import Fraction
    cls, digits = (numbers.Single, 7) if kind == 'single' else (numbers.Double, 16)
    vals = values_env()
    p = E.int('power', -38, 38)
    k = E.int('offset', -40, 40)
    b = _mbf_near(cls, Fraction(10) ** p, k)
    if b is None:
        return
    x = cls(None, vals).from_bytes(b)
    s = x.to_str(False, False)
    shown, unit, sig = _shown(s)
    E.prove(abs(shown - _exact(cls, b)) < unit, 'the shown value is within one unit of the last digit shown')
    E.prove(sig <= digits, 'at most %d significant digits' % digits)


_LONG = 'C07-literal-longer-than-the-type-holds'


def _finding_open(fid):
    """Is the recorded finding still listed as open (read from the committed file, never written)?"""
    import json, os
    path = os.path.join(os.path.dirname(os.path.dirname(os.path.abspath(__file__))), 'known_findings.jsonl')
    for line in open(path):
        line = line.strip()
        if line and not line.startswith('#'):
            rec = json.loads(line)
            if rec.get('id') == fid:
                return rec.get('status') == 'open'
    return False


def _input_error(vals, txt):
    """(type, error in units of the last binary place) of reading txt, or a verdict string."""
    from fractions import Fraction
    dec = Fraction(txt.replace('D', 'E').replace('!', '').replace('#', ''))
    try:
        v = vals.from_repr(txt.encode(), False)
    except BASICError as e:
        return ('overflow', e.err, dec)
    if dec == 0:
        return ('zero', v.is_zero(), dec)
    b = bytes(v.to_bytes())
    if b[-1] == 0:
        return ('underflow', None, dec)
    cls = type(v)
    ulp = Fraction(2) ** (b[-1] - 128 - 8 * (cls.size - 1))
    return (cls, abs(_exact(cls, b) - dec) / ulp, dec)


def t_input_accuracy(E, kind):
    from fractions import Fraction
    cls = numbers.Single if kind == 'single' else numbers.Double
    vals = values_env()
    nd = E.int('ndigits', 1, 20)
    digs = ''.join(str(E.int('d%d' % i, 0, 9)) for i in range(nd))
    pt = E.int('point', 0, nd)
    e = E.int('exp', -30, 30)
    txt = digs[:pt] + '.' + digs[pt:] + ('E%d' % e)
    if kind == 'double':
        txt = txt.replace('E', 'D')
    res = _input_error(vals, txt)
    if res[0] == 'overflow':
        E.prove(res[1] == error.OVERFLOW and abs(res[2]) >= Fraction(2) ** 126, 'only Overflow, only for numbers beyond the largest')
        return
    if res[0] == 'zero':
        E.prove(res[1], 'zero is read as zero')
        return
    if res[0] == 'underflow':
        E.prove(abs(res[2]) < Fraction(2) ** -128, 'underflow to zero only below the smallest number')
        return
    got_cls, err, _ = res
    nsig = len(digs.lstrip('0'))
    if nsig <= 7 and kind == 'single' or (7 < nsig <= 16 and kind == 'double'):
        E.prove(got_cls is cls, 'type as written')
    if nsig > got_cls.digits and _finding_open(_LONG):
        # recorded, open finding: digits beyond the precision of the type are cut off, not rounded
        E.prove(err < 3, 'literal with more digits than the type holds: within 3 units in the last binary place (open finding: not within 1)')
    else:
        E.prove(err < 1, 'the stored value is within one unit in the last binary place of the decimal value')


def t_long_literal(E, text):
    """Witness task of the open finding: a literal with more significant digits than its type holds."""
    res = _input_error(values_env(), text)
    digs = text.upper().split('E')[0].split('D')[0].replace('.', '').lstrip('0')
    if res[0] not in ('overflow', 'zero', 'underflow') and len(digs) > res[0].digits and E.known_finding(_LONG, True):
        return
    E.prove(res[0] not in ('overflow', 'zero', 'underflow') and res[1] < 1,
            'the stored value is within one unit in the last binary place of the decimal value')


_SHAPES = [
    (1, 0, '', None, ''), (3, 0, '-', None, ''), (0, 2, '', None, ''), (2, 3, '+', None, ''),
    (4, 4, '', None, ''), (7, 0, '', None, ''), (8, 0, '', None, ''), (3, 5, '-', None, ''), (6, 3, '', None, '!'),
    (2, 1, '', None, '#'), (1, 2, '', ('E', '', 1), ''), (1, 2, '', ('E', '-', 2), ''), (2, 0, '-', ('D', '+', 2), ''),
    (1, 8, '', ('E', '-', 1), ''), (9, 0, '', None, '!'), (0, 9, '', None, ''),
]

TASKS = [
    Task('numbers.str_to_decimal', t_parse, covers=('many digits',),
         cases=[{'nb': a, 'na': b, 'sign': s, 'exp': e, 'sigil': g} for a, b, s, e, g in _SHAPES]),
    Task('Values.from_repr', t_from_repr, covers=('integer', 'float'),
         cases=[{'nb': a, 'na': b, 'exp': e} for a, b, e in ((1, 0, None), (4, 0, None), (5, 0, None), (6, 0, None), (8, 0, None),
                                                             (2, 2, None), (1, 1, ('E', '', 1)), (1, 0, ('D', '-', 1)), (3, 6, None))]),
    Task('Float.from_decimal (zero mantissa)', t_zero_literal, cases=[{'kind': k} for k in ('single', 'double')]),
    Task('Integer.to_str', t_integer_to_str, cases=[{'leading_space': l} for l in (True, False)]),
    Task('Float.to_str accuracy (bounded)', t_output_accuracy, cases=[{'kind': k} for k in ('single', 'double')], bounded=True,
         samples=(3000, 60000), scope='3000 (quick) / 60000 (thorough) sampled bit patterns per type against exact rational arithmetic'),
    Task('Float.to_str near powers of ten (bounded)', t_output_near_powers, cases=[{'kind': k} for k in ('single', 'double')], bounded=True,
         samples=(4000, 12474), scope='4000 sampled (quick) of the 6237 floats per type within 40 units in the last place of 10^p, p = -38..38'),
    Task('Values.from_repr accuracy (bounded)', t_input_accuracy, cases=[{'kind': k} for k in ('single', 'double')], bounded=True,
         samples=(3000, 60000), scope='3000 (quick) / 60000 (thorough) sampled decimal literals (1..20 digits, exponents -30..30) per exponent letter against exact rational arithmetic'),
    Task('Values.from_repr (literal longer than the type holds)', t_long_literal, cases=[{'text': t} for t in ('8383286.0', '99955720190.12636151D-11', '1.5', '7845.175')]),
]

ASSUMPTIONS = [
    'literal shapes (digit counts, sign, exponent letter/sign/digits, sigil) are case parameters; digit values are symbolic',
    'Float.from_decimal is taken by contract in the from_repr task (its accuracy is only sampled); in that task only the last two digits are symbolic',
]
NOT_COVERED = [
    'accuracy of Float.to_decimal / from_decimal / _div10_den / _mul10_den (the conversion loops have no invariant: bounded sampling only)',
    'blanks inside literals, ASCII separators, non-numeric tails (allow_nonnum), hexadecimal and octal literals (C03)',
    'WRITE / LIST / INPUT / READ plumbing around the conversions',
]
