"""
Shared spec functions and object builders for the contracts.

Everything here runs both on symbolic values (proof) and on real objects (native replay).
Spec functions are pure integer arithmetic: they define what a buffer *denotes*.
"""

from pyvc.api import *

from pcbasic.basic.values import numbers, values, strings
from pcbasic.basic.base import error

BASICError = error.BASICError


def values_env(console=None, double_math=False):
    """A real Values object with a real float error handler (no console: errors raise)."""
    vals = values.Values(None, double_math)
    vals.set_handler(values.FloatErrorHandler(console))
    return vals


def cells(buf):
    """Byte cells of a value object or buffer."""
    if hasattr(buf, '_buffer'):
        buf = buf._buffer
    return to_cells(buf)


def snapshot(obj):
    """Copy of the current bytes of a value/buffer (list of cells)."""
    return list(cells(obj))


def same_bytes(a, b):
    ca, cb = (a if isinstance(a, list) else cells(a)), (b if isinstance(b, list) else cells(b))
    if len(ca) != len(cb):
        return False
    return And(*[x == y for x, y in zip(ca, cb)])


# ---------------------------------------------------------------------------
# integers

def s16(obj):
    """Signed value of a 2-byte little-endian two's-complement buffer."""
    c = cells(obj)
    v = c[0] + 256 * c[1]
    return If(c[1] >= 128, v - 65536, v)

def u16(obj):
    c = cells(obj)
    return c[0] + 256 * c[1]

def in_int_range(v):
    return And(v >= -32768, v <= 32767)

def new_integer(E, vals, name):
    """Integer over a fresh symbolic 2-byte pattern (all 65536 patterns)."""
    buf = E.bytes(name, 2)
    return E.new(numbers.Integer, buf, vals)

def bit(x, i):
    """i-th bit of a non-negative integer."""
    return (x // (1 << i)) % 2


# ---------------------------------------------------------------------------
# MBF floats
#
# A float buffer of size n (4 or 8) denotes   sign * M * 2^(e - bias)   where e is the last
# byte, M the (n-1)-byte little-endian mantissa with the top bit replaced by the hidden 1,
# sign from the top mantissa bit; every buffer with e == 0 denotes zero.

def f_exp(obj):
    return cells(obj)[-1]

def f_neg(obj):
    return cells(obj)[-2] >= 128

def f_man(obj):
    """Integer mantissa with hidden bit: in [2^(p-1), 2^p), p = 24 or 56."""
    c = cells(obj)[:-1]
    v = 0
    for i, x in enumerate(c[:-1]):
        v = v + x * (1 << (8 * i))
    top = c[-1]
    top = If(top >= 128, top, top + 128)
    return v + top * (1 << (8 * (len(c) - 1)))

def f_is_zero(obj):
    return cells(obj)[-1] == 0

def f_prec(cls):
    return 24 if cls.size == 4 else 56

def f_bias(cls):
    return cls._bias

def new_float(E, cls, vals, name):
    buf = E.bytes(name, cls.size)
    return E.new(cls, buf, vals)

def is_max(obj, cls, neg):
    """Buffer equals the signed maximum of cls."""
    return same_bytes(obj, list(cls.neg_max if neg else cls.pos_max))
