"""
Shared spec functions and object builders for the contracts.

Everything here runs both on symbolic values (proof) and on real objects (native replay).
Spec functions are pure integer arithmetic: they define what a buffer *denotes*.
"""

from pyvc.api import *

from pcbasic.basic.values import numbers, values, strings
from pcbasic.basic.base import error

BASICError = error.BASICError


class StubMemory(object):
    """Stand-in for DataSegment as seen by StringSpace: fixed layout, never out of memory."""
    code_start = 4718
    def __init__(self, var_start=6000, stack_start=60000):
        self._var_start = var_start
        self._stack_start = stack_start
    def stack_start(self):
        return self._stack_start
    def var_start(self):
        return self._var_start
    def check_free(self, size, err):
        pass


def values_env(console=None, double_math=False, with_strings=False):
    """A real Values object with a real float error handler (no console: errors raise)."""
    space = strings.StringSpace(StubMemory()) if with_strings else None
    vals = values.Values(space, double_math)
    vals.set_handler(values.FloatErrorHandler(console))
    return vals


def new_string(E, vals, content):
    """A String value holding `content` (bytes / symbolic buffer of concrete length)."""
    s = E.new(strings.String, None, vals)
    out = E.call(s.from_str, content)
    if out.raised:
        raise Unsupported('from_str raised %r' % (out.exc,))
    return s


def str_cells(E, s):
    """Content of a String value as cells."""
    out = E.call(s.to_str)
    if out.raised:
        raise Unsupported('to_str raised %r' % (out.exc,))
    return to_cells(out.value)


def cells(buf):
    """Byte cells of a value object or buffer."""
    if hasattr(buf, '_buffer'):
        buf = buf._buffer
    return to_cells(buf)


def snapshot(obj):
    """Copy of the current bytes of a value/buffer (list of cells)."""
    return list(cells(obj))


def same_bytes(a, b):
    ca, cb = (a if isinstance(a, list) else cells(a)), (b if isinstance(b, list) else cells(b))
    return cells_equal(ca, cb)


# ---------------------------------------------------------------------------
# integers

def s16(obj):
    """Signed value of a 2-byte little-endian two's-complement buffer."""
    v = assemble_le(cells(obj))
    return If(v >= 32768, v - 65536, v)

def u16(obj):
    return assemble_le(cells(obj))

def in_int_range(v):
    return And(v >= -32768, v <= 32767)

def new_integer(E, vals, name):
    """Integer over a fresh symbolic 2-byte pattern (all 65536 patterns)."""
    buf = E.bytes(name, 2)
    return E.new(numbers.Integer, buf, vals)

def bit(x, i):
    """i-th bit of a non-negative integer."""
    return (x // (1 << i)) % 2


# ---------------------------------------------------------------------------
# MBF floats
#
# A float buffer of size n (4 or 8) denotes   sign * M * 2^(e - bias)   where e is the last
# byte, M the (n-1)-byte little-endian mantissa with the top bit replaced by the hidden 1,
# sign from the top mantissa bit; every buffer with e == 0 denotes zero.

def f_exp(obj):
    return cells(obj)[-1]

def f_neg(obj):
    return cells(obj)[-2] >= 128

def f_man(obj):
    """Integer mantissa with hidden bit: in [2^(p-1), 2^p), p = 24 or 56."""
    c = cells(obj)[:-1]
    whole = assemble_le(c)
    hidden = 1 << (8 * len(c) - 1)
    return If(whole >= hidden, whole, whole + hidden)

def f_is_zero(obj):
    return cells(obj)[-1] == 0

def f_prec(cls):
    return 24 if cls.size == 4 else 56

def f_bias(cls):
    return cls._bias

def new_float(E, cls, vals, name):
    buf = E.bytes(name, cls.size)
    return E.new(cls, buf, vals)

def is_max(obj, cls, neg):
    """Buffer equals the signed maximum of cls."""
    return same_bytes(obj, list(cls.neg_max if neg else cls.pos_max))


# ---------------------------------------------------------------------------
# byte stream stand-in (io.BytesIO semantics on symbolic cells)

class SymStream(object):
    """Seekable byte stream with symbolic content of concrete length.

    read() returns native b'' at the end (so emptiness tests stay concrete), otherwise a
    bytes buffer of cells; writing past the end zero-fills, as io.BytesIO does.
    """
    _pyvc_trusted = True

    def __init__(self, cells=(), filetype=None):
        self.cells = list(cells)
        self.pos = 0
        self.filetype = filetype
        self.writes = 0

    def tell(self):
        return self.pos

    def seek(self, pos, whence=0):
        if whence == 1:
            pos += self.pos
        elif whence == 2:
            pos += len(self.cells)
        if pos < 0:
            raise ValueError('negative seek value')
        self.pos = pos
        return pos

    def read(self, n=-1):
        if n is None or n < 0:
            n = len(self.cells)
        out = self.cells[self.pos:self.pos + n]
        self.pos = min(len(self.cells), self.pos + len(out)) if out else self.pos
        if not out:
            return b''
        if all(isinstance(c, int) for c in out):
            return bytes(out)
        return SBuf(out, 'bytes')

    def peek(self, n=1):
        p = self.pos
        r = self.read(n)
        self.pos = p
        return r

    def write(self, b):
        cs = to_cells(b)
        if self.pos > len(self.cells):
            self.cells.extend([0] * (self.pos - len(self.cells)))
        self.cells[self.pos:self.pos + len(cs)] = cs
        self.pos += len(cs)
        self.writes += 1
        return len(cs)

    def truncate(self, size=None):
        if size is None:
            size = self.pos
        del self.cells[size:]
        return size

    def getvalue(self):
        return SBuf(self.cells, 'bytes') if any(not isinstance(c, int) for c in self.cells) else bytes(self.cells)


class AbsStream(object):
    """Seekable file of *symbolic length* with unmodelled content (host file stand-in).

    Tracks length, position and the log of reads/writes with their byte offsets. Writing
    past the end extends the file (the host zero-fills the gap, as regular files do).
    """
    _pyvc_trusted = True

    def __init__(self, length, pos=0):
        self.length = length
        self.pos = pos
        self.log = []          # ('write', offset, n, data) / ('read', offset, n)

    def tell(self):
        return self.pos

    def seek(self, off, whence=0):
        if whence == 0:
            p = off
        elif whence == 1:
            p = self.pos + off
        else:
            p = self.length + off
        if bool(p < 0):
            raise ValueError('negative seek position')
        self.pos = p
        return p

    def write(self, data):
        n = data.n if isinstance(data, SRegion) else len(data)
        self.log.append(('write', self.pos, n, data))
        self.pos = self.pos + n
        self.length = Max(self.length, self.pos)
        return n

    def read(self, n=-1):
        avail = Max(self.length - self.pos, 0)
        k = Min(n, avail)
        self.log.append(('read', self.pos, k))
        r = SRegion(k, kind='bytes', tag=('file', self.pos, k))
        self.pos = self.pos + k
        return r

    def flush(self):
        pass
