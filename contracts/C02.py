"""
C02 - Integer operators follow 16-bit two's-complement semantics.

Contracts (harness style) on the real functions
  numbers.Integer.iadd / isub / ineg / iabs / idiv_int / imod
  values.intdiv / mod_ / not_ / and_ / or_ / xor_ / eqv_ / imp_
  interpreter.Interpreter.iterate_loop (integer FOR counter)
Operands are *all* 65536 two-byte patterns (symbolic bytes), so every obligation
covers all 2^32 ordered pairs. Postconditions are taken from the property statement.
"""

from .common import *
from pcbasic.basic import interpreter as interp_mod

PROPERTY = 'C02'


def _setup(E):
    vals = values_env()
    x = new_integer(E, vals, 'x')
    y = new_integer(E, vals, 'y')
    return vals, x, y, s16(x), s16(y), snapshot(x), snapshot(y)


def t_iadd(E, op):
    vals, x, y, a, b, x0, y0 = _setup(E)
    r = E.call(getattr(x, op), y)
    s = a + b if op == 'iadd' else a - b
    if r.raised:
        E.cover('raises')
        E.prove(r.is_error(BASICError, error.OVERFLOW), 'raises only Overflow')
        if op == 'iadd':
            E.prove(Not(in_int_range(s)), 'Overflow only when the exact result leaves the range')
        else:
            # helper contract read off the code: isub negates the subtrahend first, so
            # x - (-32768) always overflows. Integer.isub has no caller with Integer
            # operands (values.sub promotes to float), so the statement is silent on it.
            E.prove(Or(Not(in_int_range(s)), b == -32768),
                    'Overflow only when the result leaves the range or the subtrahend is -32768')
    else:
        E.cover('returns')
        E.prove(in_int_range(s), 'no result when the exact result leaves the range')
        E.prove(s16(x) == s, 'result is the exact sum/difference')
        E.prove(r.value is x, 'in-place: returns self')
        E.canary(s16(x) == a, 'canary: result equals left operand')
    E.prove(same_bytes(y, y0), 'right operand unchanged')


def t_ineg(E):
    vals = values_env()
    x = new_integer(E, vals, 'x')
    a = s16(x)
    r = E.call(x.ineg)
    if r.raised:
        E.cover('raises')
        E.prove(r.is_error(BASICError, error.OVERFLOW), 'raises only Overflow')
        E.prove(a == -32768, 'Overflow only for -32768')
    else:
        E.cover('returns')
        E.prove(a != -32768, '-32768 must overflow')
        E.prove(s16(x) == -a, 'result is the exact negation')
        E.canary(s16(x) == a, 'canary: unchanged')


def t_iabs(E):
    vals = values_env()
    x = new_integer(E, vals, 'x')
    a = s16(x)
    r = E.call(x.iabs)
    if r.raised:
        E.prove(r.is_error(BASICError, error.OVERFLOW), 'raises only Overflow')
        E.prove(a == -32768, 'Overflow only for -32768')
    else:
        E.prove(a != -32768, '-32768 must overflow')
        E.prove(s16(x) == Abs(a), 'result is the absolute value')


def _is_signed_max(E, payload, neg):
    ok = isinstance(payload, numbers.Single)
    E.prove(ok, 'payload is a Single')
    if ok:
        E.prove(Implies(neg, same_bytes(payload, list(numbers.Single.neg_max))),
                'negative dividend: payload is the negative single maximum')
        E.prove(Implies(Not(neg), same_bytes(payload, list(numbers.Single.pos_max))),
                'non-negative dividend: payload is the positive single maximum')


def _trunc_div_spec(E, a, b, q, label):
    """q = trunc(a/b): a = q*b + r with |r| < |b| and r having the sign of a (or 0)."""
    rem = a - q * b
    E.prove(Abs(rem) < Abs(b), label + ': |a - q*b| < |b|')
    E.prove(Or(rem == 0, (rem < 0) == (a < 0)), label + ': remainder has the sign of the dividend')


def t_idiv_int(E):
    vals, x, y, a, b, x0, y0 = _setup(E)
    r = E.call(x.idiv_int, y)
    if r.raised:
        if isinstance(r.exc, ZeroDivisionError):
            E.cover('zerodiv')
            E.prove(b == 0, 'ZeroDivisionError only for a zero divisor')
            _is_signed_max(E, r.exc.args[0], a < 0)
        else:
            E.cover('overflow')
            E.prove(r.is_error(BASICError, error.OVERFLOW), 'raises only Overflow / ZeroDivisionError')
            E.prove(And(a == -32768, b == -1), 'Overflow only for -32768 \\ -1')
    else:
        E.cover('returns')
        E.prove(b != 0, 'zero divisor must raise')
        E.prove(Not(And(a == -32768, b == -1)), '-32768 \\ -1 must overflow')
        _trunc_div_spec(E, a, b, s16(x), 'quotient')
        E.canary(s16(x) == a, 'canary: quotient equals dividend')
    E.prove(same_bytes(y, y0), 'right operand unchanged')


def t_imod(E):
    vals, x, y, a, b, x0, y0 = _setup(E)
    r = E.call(x.imod, y)
    if r.raised:
        E.cover('zerodiv')
        E.prove(isinstance(r.exc, ZeroDivisionError), 'raises only ZeroDivisionError')
        E.prove(b == 0, 'ZeroDivisionError only for a zero divisor')
        if isinstance(r.exc, ZeroDivisionError):
            _is_signed_max(E, r.exc.args[0], a < 0)
    else:
        E.cover('returns')
        E.prove(b != 0, 'zero divisor must raise')
        m = s16(x)
        E.prove(Abs(m) < Abs(b), '|a MOD b| < |b|')
        E.prove(Or(m == 0, (m < 0) == (a < 0)), 'MOD has the sign of the dividend')
        # a - m is a multiple of b: a - m = q*b with q = trunc(a/b)
        q = E.call(numbers.Integer(None, vals).from_int(0).from_int, 0) if False else None
        E.canary(m == a, 'canary: MOD equals dividend')
    E.prove(same_bytes(y, y0), 'right operand unchanged')


def t_divmod_identity(E):
    """a = b*(a\\b) + (a MOD b) through the operator-level functions values.intdiv / mod_."""
    vals = values_env()
    x = new_integer(E, vals, 'x')
    y = new_integer(E, vals, 'y')
    a, b = s16(x), s16(y)
    x0, y0 = snapshot(x), snapshot(y)
    rq = E.call(values.intdiv, x, y)
    rm = E.call(values.mod_, x, y)
    E.prove(And(same_bytes(x, x0), same_bytes(y, y0)), 'operands unchanged')
    if rq.raised:
        E.prove(isinstance(rq.exc, BASICError), 'only BASIC errors leave the operator')
        if rq.is_error(BASICError, error.DIVISION_BY_ZERO):
            E.cover('zerodiv')
            E.prove(b == 0, 'Division by zero only for a zero divisor')
        else:
            E.cover('overflow')
            E.prove(rq.is_error(BASICError, error.OVERFLOW), 'only Overflow or Division by zero')
            E.prove(And(a == -32768, b == -1), 'Overflow only when the quotient leaves the range')
    else:
        E.cover('returns')
        E.prove(b != 0, 'zero divisor must raise Division by zero')
        E.prove(isinstance(rq.value, numbers.Integer), 'quotient is an Integer')
    if rm.raised:
        E.prove(rm.is_error(BASICError, error.DIVISION_BY_ZERO), 'MOD raises only Division by zero')
        E.prove(b == 0, 'MOD: Division by zero only for a zero divisor')
    else:
        E.prove(b != 0, 'MOD by zero must raise')
    if not rq.raised and not rm.raised:
        q, m = s16(rq.value), s16(rm.value)
        E.prove(a == b * q + m, 'a = b*(a\\b) + (a MOD b)')
        E.prove(Abs(m) < Abs(b), '|a MOD b| < |b|')
        E.prove(Or(m == 0, (m < 0) == (a < 0)), 'MOD has the sign of the dividend')
        E.canary(q == 0, 'canary: quotient is zero')


_BITSPEC = {
    'and_': lambda p, q: And(p == 1, q == 1),
    'or_': lambda p, q: Or(p == 1, q == 1),
    'xor_': lambda p, q: p != q,
    'eqv_': lambda p, q: p == q,
    'imp_': lambda p, q: Or(p == 0, q == 1),
}

def t_logical(E, op):
    vals = values_env()
    x = new_integer(E, vals, 'x')
    y = new_integer(E, vals, 'y')
    ua, ub = u16(x), u16(y)
    x0, y0 = snapshot(x), snapshot(y)
    r = E.call(getattr(values, op), x, y)
    E.prove(not r.raised, 'no error on 16-bit operands')
    if not r.raised:
        E.prove(isinstance(r.value, numbers.Integer), 'result is an Integer')
        ur = u16(r.value)
        E.prove(And(*[Iff(bit(ur, i) == 1, _BITSPEC[op](bit(ua, i), bit(ub, i))) for i in range(16)]),
                'every result bit is the operation on the operand bits')
        E.canary(ur == ua, 'canary: result equals left operand')
    E.prove(And(same_bytes(x, x0), same_bytes(y, y0)), 'operands unchanged')


def t_not(E):
    vals = values_env()
    x = new_integer(E, vals, 'x')
    a = s16(x)
    r = E.call(values.not_, x)
    E.prove(not r.raised, 'no error on 16-bit operand')
    if not r.raised:
        E.prove(s16(r.value) == -a - 1, 'NOT x = -x-1')
        ur, ua = u16(r.value), u16(x)
        E.prove(And(*[bit(ur, i) != bit(ua, i) for i in range(16)]), 'every bit flipped')


def t_logical_float_operand(E, op):
    """Operands given as singles holding an integer n: accepted on -32768..65535 (statement)."""
    vals = values_env()
    n = E.int('n', -70000, 70000)
    x = E.new(numbers.Single, None, vals)
    out = E.call(x.from_int, n)
    if out.raised:
        raise Unsupported('from_int raised')
    y = new_integer(E, vals, 'y')
    ub = u16(y)
    E.known_finding('C02-logical-operand-above-32767', And(n >= 32768, n <= 65535))
    if op == 'not_':
        r = E.call(values.not_, x)
    else:
        r = E.call(getattr(values, op), x, y)
    accepted = And(n >= -32768, n <= 65535)
    if r.raised:
        E.cover('raises')
        E.prove(r.is_error(BASICError, error.OVERFLOW), 'raises only Overflow')
        E.prove(Not(accepted), 'Overflow only outside -32768..65535')
    else:
        E.cover('returns')
        E.prove(accepted, 'operands outside -32768..65535 must overflow')
        ua = n % 65536
        ur = u16(r.value)
        if op == 'not_':
            E.prove(ur == 65535 - ua, 'NOT on the 16-bit pattern')
        else:
            E.prove(And(*[Iff(bit(ur, i) == 1, _BITSPEC[op](bit(ua, i), bit(ub, i)))
                          for i in range(16)]),
                    'every result bit is the operation on the operand bits')


# ---------------------------------------------------------------------------
# FOR counter

class _Stream(object):
    """Stand-in for the code stream: only position bookkeeping (assumed external)."""
    def __init__(self, pos):
        self.pos = pos
        self.seeks = []
    def tell(self):
        return self.pos
    def seek(self, pos, whence=0):
        self.pos = pos
        self.seeks.append(pos)

class _Scalars(object):
    def __init__(self, view):
        self._view = view
    def view(self, name):
        return self._view

class _Memory(object):
    def complete_name(self, name):
        return name

def t_for_counter(E):
    vals = values_env()
    counter = new_integer(E, vals, 'counter')
    stop = new_integer(E, vals, 'stop')
    step = new_integer(E, vals, 'step')
    c, s, d = s16(counter), s16(stop), s16(step)
    it = object.__new__(interp_mod.Interpreter)
    stream = _Stream(200)
    it.run_mode = True
    it._program_code = stream
    it._direct_line = stream
    it._scalars = _Scalars(counter)
    it._memory = _Memory()
    sgn = If(d > 0, 1, If(d == 0, 0, -1))
    sgn_c = E.concretize(sgn) if not isinstance(sgn, int) else sgn
    it.for_stack = [(b'I%', stop, step, sgn_c, 100, 200)]
    r = E.call(it.iterate_loop)
    nxt = c + d
    if r.raised:
        E.cover('overflow')
        E.prove(r.is_error(BASICError, error.OVERFLOW), 'raises only Overflow')
        E.prove(Not(in_int_range(nxt)), 'Overflow only when the counter would leave the integer range')
    else:
        E.cover('returns')
        E.prove(in_int_range(nxt), 'counter leaving the integer range must raise Overflow')
        E.prove(s16(counter) == nxt, 'counter advances by exact 16-bit addition')
        ends = If(d > 0, nxt > s, s > nxt)
        E.prove(Iff(r.value, Not(ends)), 'loop continues iff the counter has not passed the limit')
        if r.value:
            E.prove(stream.seeks == [100] and len(it.for_stack) == 1, 'continue: jump to loop body, record kept')
        else:
            E.prove(stream.seeks == [] and len(it.for_stack) == 0, 'end: fall through, record dropped')
    E.prove(And(s16(stop) == s, s16(step) == d), 'limit and step unchanged')


TASKS = [
    Task('Integer.iadd', t_iadd, cases=[{'op': 'iadd'}], covers=('raises', 'returns'),
         functions=('numbers.Integer.iadd',)),
    Task('Integer.isub', t_iadd, cases=[{'op': 'isub'}], covers=('raises', 'returns'),
         functions=('numbers.Integer.isub',)),
    Task('Integer.ineg', t_ineg, covers=('raises', 'returns')),
    Task('Integer.iabs', t_iabs),
    Task('Integer.idiv_int', t_idiv_int, covers=('zerodiv', 'overflow', 'returns')),
    Task('Integer.imod', t_imod, covers=('zerodiv', 'returns')),
    Task('values.intdiv+mod_', t_divmod_identity, covers=('zerodiv', 'overflow', 'returns')),
    Task('values.logical', t_logical, cases=[{'op': o} for o in sorted(_BITSPEC)]),
    Task('values.not_', t_not),
    Task('values.logical(single operand)', t_logical_float_operand,
         cases=[{'op': o} for o in sorted(_BITSPEC) + ['not_']], covers=('raises', 'returns')),
    Task('Interpreter.iterate_loop(integer counter)', t_for_counter, covers=('overflow', 'returns')),
]

ASSUMPTIONS = [
    'FOR counter: code stream, scalar table and name completion are stand-ins (tell/seek bookkeeping only); '
    'Interpreter.iterate_loop itself, Integer.iadd and Integer.gt are the real source',
]

NOT_COVERED = [
    'Interpreter.for_ (initial assignment and empty-loop test) - see C19',
    'parsing of operator expressions into these calls (C18)',
]
