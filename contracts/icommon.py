"""Shared harness for the interpreter transition contracts (C19, C21, C38)."""

from .common import *
from pcbasic.basic import interpreter as interp_mod, basicevents
from pcbasic.basic.base import tokens as tk


class Stream(object):
    """Code stream stand-in: an opaque position with logged seeks/skips."""
    _pyvc_trusted = True
    def __init__(self, pos=0, end=10000):
        self.pos = pos
        self.end = end
        self.log = []
    def tell(self):
        return self.pos
    def seek(self, pos, whence=0):
        if whence == 2:
            pos = self.end + pos
        elif whence == 1:
            pos = self.pos + pos
        self.pos = pos
        self.log.append(('seek', pos))
    def skip_to(self, rng, break_on_first_char=True):
        self.log.append(('skip_to', rng, break_on_first_char))
    def require_end(self, *a):
        self.log.append(('require_end',))


class Rec(object):
    """Recording stand-in: any attribute is another recorder, any call is logged at the root."""
    _pyvc_trusted = True
    def __init__(self, name='dev', root=None):
        object.__setattr__(self, '_name', name)
        object.__setattr__(self, '_root', root if root is not None else self)
        if root is None:
            object.__setattr__(self, 'log', [])
    def __getattr__(self, k):
        if k.startswith('__'):
            raise AttributeError(k)
        if k == 'log':
            return self._root.log
        child = Rec(self._name + '.' + k, self._root)
        object.__setattr__(self, k, child)
        return child
    def __call__(self, *a, **kw):
        self._root.log.append((self._name.split('.', 1)[-1], a))
        return Rec(self._name + '()', self._root)


class Prog(object):
    _pyvc_trusted = True
    def __init__(self, lines):
        self.line_numbers = dict(lines)
        self.bytecode = Stream()
    def get_line_number(self, pos):
        best = -1
        for k, v in self.line_numbers.items():
            if k != 65536 and v <= pos and k > best:
                best = k
        return best


class Events(object):
    """BasicEvents stand-in holding real EventHandler objects."""
    _pyvc_trusted = True
    def __init__(self, handlers):
        self.all = list(handlers)
        self.enabled = set()
        self.suspend_all = False


LINES = {10: 1, 20: 31, 30: 61, 100: 91, 200: 121, 65536: 151}


def make_interpreter(E, run_mode=True, pos=40):
    it = object.__new__(interp_mod.Interpreter)
    it._program = Prog(LINES)
    it._program_code = Stream(pos)
    it.direct_line = Stream(3, end=50)
    it._queues = Rec('queues')
    it._files = Rec('files')
    it._sound = Rec('sound')
    it._console = Rec('console')
    it._cursor = Rec('cursor')
    it._values = values_env()
    it._basic_events = Events([])
    it.run_mode = run_mode
    it.parse_mode = True
    it.for_stack, it.while_stack, it.gosub_stack = [], [], []
    it.on_error = None
    it.error_handle_mode = False
    it.error_resume = None
    it.error_num, it.error_pos = 0, 0
    it.current_statement = pos - 5
    it.stop_pos = None
    it.data_pos = 0
    return it


def last_seek(stream):
    s = [x for x in stream.log if x[0] == 'seek']
    return s[-1][1] if s else None
