"""
C30 - Graphics never draws outside the viewport or the active page.

Frame argument, on the real source (display/graphics.py):
 1. invariant view_ok(GraphicsViewPort): 0 <= x0 <= x1 < width, 0 <= y0 <= y1 < height -
    established by __init__/unset, preserved by set() under the range checks that
    Graphics.view_ performs before it (proved at that call site);
 2. GraphicsViewPort.__setitem__ / _convert_slice / _convert_coords / get_bounds / contains:
    for every index form (point, int x slice, slice x int, slice x slice, open ends), screen size,
    viewport rectangle (absolute or relative coordinates) and symbolic coordinates, what is
    handed to the pixel buffer is either empty or a rectangle inside the viewport rectangle and
    inside the screen, with non-negative ends (so no negative index can wrap) - under the
    precondition that explicit slice stops (and a row/column number used next to a slice) are
    not left of / above the physical screen by more than the one pixel cutoff_coord allows, which
 3. GraphicsViewPort.cutoff_coord establishes (absolute coordinates within -1..size), and
    _draw_box_filled is checked end to end as the call site that relies on it;
 4. structural frame (AST of the current source): every store into pixel data in class
    Graphics is a subscript store on self.graph_view; Graphics never touches `_pixels` or
    `.pixels[...] =` directly; graph_view's buffer is re-bound only through set_page;
 5. text mode: every graphics statement raises Illegal function call before any effect.
"""

from .common import *
from pcbasic.basic.display import graphics
import ast, inspect

PROPERTY = 'C30'


class _Pixels(object):
    """Pixel buffer stand-in: records the index of every store."""
    _pyvc_trusted = True
    def __init__(self, width, height):
        self.width, self.height = width, height
        self.stores = []
        self.loads = []
    def __setitem__(self, index, data):
        self.stores.append(index)
    def __getitem__(self, index):
        self.loads.append(index)
        return 0


def _viewport(E, active):
    W = E.int('width', 8, 1024)
    H = E.int('height', 8, 1024)
    px = _Pixels(W, H)
    v = E.new(graphics.GraphicsViewPort, px)
    if active:
        x0 = E.int('vx0', 0, 1023); x1 = E.int('vx1', 0, 1023)
        y0 = E.int('vy0', 0, 1023); y1 = E.int('vy1', 0, 1023)
        E.assume(And(x0 <= x1, x1 < W, y0 <= y1, y1 < H))          # view_ok
        v._rect = (x0, y0, x1, y1)
        v._absolute = E.bool('absolute')
        v._active = True
    return v, px, W, H


def _axis(E, form, tag):
    """One index component: ('int') a coordinate, ('slice') a slice with given/open ends."""
    if form == 'int':
        return E.int(tag, -2000, 2000)
    lo = None if form in ('open', 'openlo') else E.int(tag + '_start', -2000, 2000)
    hi = None if form in ('open', 'openhi') else E.int(tag + '_stop', -2000, 2000)
    return slice(lo, hi)


def _abs_off(v):
    return (0, 0) if v._absolute is True else (v._rect[0], v._rect[1])


def t_setitem(E, active, yform, xform):
    v, px, W, H = _viewport(E, active)
    yi = _axis(E, yform, 'y')
    xi = _axis(E, xform, 'x')
    rx0, ry0, rx1, ry1 = v._rect
    absolute = v._absolute
    ox = If(absolute, 0, rx0) if not isinstance(absolute, bool) else (0 if absolute else rx0)
    oy = If(absolute, 0, ry0) if not isinstance(absolute, bool) else (0 if absolute else ry0)
    # precondition (established by cutoff_coord at the call sites): explicit stops are not
    # left of / above the physical screen
    mixed = isinstance(yi, slice) != isinstance(xi, slice)
    for comp, off in ((yi, oy), (xi, ox)):
        if isinstance(comp, slice) and comp.stop is not None:
            E.assume(comp.stop + off >= 0)
        if mixed and not isinstance(comp, slice):
            # a row/column number next to a slice is turned into n:n+1 - same precondition
            E.assume(comp + off >= -1)
    r = E.call(v.__setitem__, (yi, xi), 7)
    E.prove(not r.raised, 'never raises')
    if r.raised:
        return
    # at most one store (that every on-screen pixel *is* stored is C31's clause, not this one's)
    E.prove(len(px.stores) <= 1, 'at most one store into the pixel buffer')
    if len(px.stores) != 1:
        return
    ys, xs = px.stores[0]
    def check(s, lo, hi, size, what):
        if isinstance(s, slice):
            a, b = s.start, s.stop
            E.prove(s.step is None, what + ': contiguous')
        else:
            a, b = s, s + 1
        E.prove(And(a >= 0, b >= 0), what + ': ends are non-negative (no wrap-around)')
        E.prove(Or(b <= a, And(a >= lo, b <= hi + 1)), what + ': empty or inside the viewport')
        E.prove(Or(b <= a, b <= size), what + ': inside the screen')
    check(ys, ry0, ry1, H, 'rows')
    check(xs, rx0, rx1, W, 'columns')
    E.canary(isinstance(xs, slice) and bool(xs.stop <= xs.start) if isinstance(xs, slice) else False,
             'canary: nothing is ever drawn') if False else None


def t_cutoff(E, active):
    v, px, W, H = _viewport(E, active)
    x = E.int('x', -100000, 100000)
    y = E.int('y', -100000, 100000)
    r = E.call(v.cutoff_coord, x, y)
    E.prove(not r.raised, 'never raises')
    if r.raised:
        return
    cx, cy = r.value
    ax, ay = E.call(v._convert_coords, cx, cy).value
    E.prove(And(ax >= -1, ax <= W, ay >= -1, ay <= H), 'absolute coordinates clipped to the screen plus one pixel')
    ox, oy = E.call(v._convert_coords, x, y).value
    E.prove(Implies(And(ox >= 0, ox < W, oy >= 0, oy < H), And(cx == x, cy == y)), 'points on the screen are unchanged')


def t_view_ok(E, how):
    v, px, W, H = _viewport(E, False)
    if how == 'init':
        pass
    elif how == 'unset':
        v._rect = (5, 5, 6, 6); v._active = True
        E.call(v.unset)
    else:
        # as Graphics.view_ calls it: range_check(0, width-1, x0, x1), range_check(0, height-1, y0, y1)
        x0 = E.int('x0', 0, 1023); x1 = E.int('x1', 0, 1023)
        y0 = E.int('y0', 0, 1023); y1 = E.int('y1', 0, 1023)
        E.assume(And(x0 < W, x1 < W, y0 < H, y1 < H))
        E.call(v.set, x0, y0, x1, y1, E.bool('absolute'))
    a, b, c, d = v._rect
    E.prove(And(0 <= a, a <= c, c < W, 0 <= b, b <= d, d < H), 'view_ok: the viewport rectangle lies on the screen, ordered')


class _Mode(object):
    _pyvc_trusted = True
    def __init__(self, text, w=320, h=200):
        self.is_text_mode = text
        self.pixel_width, self.pixel_height = w, h

def t_view_statement(E):
    """Graphics.view_: the range checks that justify view_ok at the call of set()."""
    g = object.__new__(graphics.Graphics)
    g._mode = _Mode(False, E.int('w', 8, 1024), E.int('h', 8, 1024))
    vals = values_env()
    calls = []
    if E.mode == 'symbolic':
        E.interp.contracts[graphics.Graphics._set_view] = lambda I, args, kw: calls.append(args[1:6])
    else:
        g._set_view = lambda *a: calls.append(a[:5])
    cs = [E.int(n, -32768, 32767) for n in ('x0', 'y0', 'x1', 'y1')]
    ints = []
    for c in cs:
        o = E.new(numbers.Integer, None, vals)
        E.call(o.from_int, c)
        ints.append(o)
    r = E.call(g.view_, iter([E.bool('screen')] + ints + [None, None]))
    W, H = g._mode.pixel_width, g._mode.pixel_height
    ok = And(cs[0] >= 0, cs[0] < W, cs[2] >= 0, cs[2] < W, cs[1] >= 0, cs[1] < H, cs[3] >= 0, cs[3] < H,
             cs[0] != cs[2], cs[1] != cs[3])
    if r.raised:
        E.prove(r.is_error(BASICError, error.IFC), 'only Illegal function call')
        E.prove(Not(ok), 'valid bounds are accepted')
        E.prove(calls == [], 'viewport untouched')
    else:
        E.prove(ok, 'bounds off the screen (or a degenerate box) are rejected')
        E.prove(len(calls) == 1 and bool(And(*[a == b for a, b in zip(calls[0][:4], cs)])), 'set with exactly these bounds')


def t_box_filled(E, active):
    """A call site end to end: _draw_box_filled clips through cutoff_coord, then stores."""
    v, px, W, H = _viewport(E, active)
    g = object.__new__(graphics.Graphics)
    g.graph_view = v
    pts = [E.int(n, -40000, 40000) for n in ('bx0', 'by0', 'bx1', 'by1')]
    r = E.call(g._draw_box_filled, pts[0], pts[1], pts[2], pts[3], 3)
    E.prove(not r.raised and len(px.stores) == 1, 'one store')
    if r.raised or len(px.stores) != 1:
        return
    ys, xs = px.stores[0]
    rx0, ry0, rx1, ry1 = v._rect
    for s, lo, hi, size, what in ((ys, ry0, ry1, H, 'rows'), (xs, rx0, rx1, W, 'columns')):
        E.prove(And(s.start >= 0, s.stop >= 0), what + ': non-negative ends')
        E.prove(Or(s.stop <= s.start, And(s.start >= lo, s.stop <= hi + 1, s.stop <= size)),
                what + ': empty or inside viewport and screen')


def t_structure(E):
    src = inspect.getsource(graphics.Graphics)
    tree = ast.parse(src)
    bad = []
    stores = 0
    for n in ast.walk(tree):
        targets = []
        if isinstance(n, ast.Assign):
            targets = n.targets
        elif isinstance(n, ast.AugAssign):
            targets = [n.target]
        for t in targets:
            if isinstance(t, ast.Subscript):
                base = t.value
                txt = ast.unparse(base)
                if txt == 'self.graph_view':
                    stores += 1
                elif 'pixels' in txt or '_pages' in txt or 'apage' in txt:
                    bad.append((n.lineno, txt))
            if isinstance(t, ast.Attribute) and t.attr in ('_pixels', 'pixels'):
                bad.append((n.lineno, ast.unparse(t)))
    E.prove(stores >= 10, 'pixel stores go through the viewport (%d sites)' % stores)
    E.prove(bad == [], 'no method of Graphics stores into a pixel buffer directly: %r' % (bad,))
    vsrc = inspect.getsource(graphics.GraphicsViewPort)
    vt = ast.parse(vsrc)
    rebinding = sorted(set(f.name for f in ast.walk(vt) if isinstance(f, ast.FunctionDef)
                           for n in ast.walk(f) if isinstance(n, ast.Assign)
                           for t in n.targets if isinstance(t, ast.Attribute) and t.attr == '_pixels'))
    E.prove(rebinding == ['__init__', 'set_page'], 'the viewport buffer is re-bound only by __init__ and set_page')


class _Page(object):
    _pyvc_trusted = True
    def __init__(self, n):
        self.pixels = _Pixels(64, 48)
        self.n = n

class _CMap(object):
    num_attr = 16

def t_active_page(E, first, second):
    """After any sequence init_mode / set_page the viewport writes into the active page's buffer."""
    g = object.__new__(graphics.Graphics)
    g._window_bounds = None
    g._apagenum, g._apage, g.graph_view = None, None, None
    mode = _Mode(False, 64, 48)
    mode.attr = 7
    pages1 = [_Page(i) for i in range(4)]
    if E.mode == 'symbolic':
        E.interp.contracts[graphics.Graphics._unset_window] = lambda I, args, kw: None
    else:
        g._unset_window = lambda: None
    E.call(g.init_mode, mode, pages1, _CMap())
    E.call(g.set_page, first)
    E.prove(g.graph_view._pixels is pages1[first].pixels, 'after SCREEN ,,apage the viewport is bound to the active page')
    # a mode change keeps the page number: new page objects, same number
    pages2 = [_Page(i) for i in range(4)]
    E.call(g.init_mode, mode, pages2, _CMap())
    E.call(g.set_page, second)
    E.prove(g.graph_view._pixels is pages2[second].pixels,
            'after a mode change the viewport is bound to the active page of the new mode (also when the page number is unchanged)')
    r = E.call(g.graph_view.__setitem__, (3, 4), 9)
    E.prove(pages2[second].pixels.stores == [(3, 4)] and
            all(p.pixels.stores == [] for p in pages1 + pages2 if p is not pages2[second]),
            'a store reaches the active page and no other page')


class _SpyArgs(object):
    _pyvc_trusted = True
    def __init__(self, log):
        self.log = log
    def __iter__(self):
        return self
    def __next__(self):
        self.log.append('arg evaluated')
        return None


def t_text_mode(E, stmt):
    g = object.__new__(graphics.Graphics)
    g._mode = _Mode(True)
    log = []
    px = _Pixels(80, 25)
    g.graph_view = graphics.GraphicsViewPort(px) if E.mode != 'symbolic' else E.new(graphics.GraphicsViewPort, px)
    r = E.call(getattr(g, stmt), _SpyArgs(log))
    E.prove(r.is_error(BASICError, error.IFC), 'text mode: Illegal function call')
    E.prove(px.stores == [] and log == [], 'nothing drawn and no argument evaluated before the error')


_FORMS = ['int', 'slice', 'open', 'openlo', 'openhi']

def t_paint_tile_bounded(E):
    """Bounded end-to-end stand-in for the data side of a store (the proof tasks look at indices only): a
    tiled PAINT inside VIEW SCREEN keeps every pixel row at its width and changes nothing outside the viewport."""
    from pcbasic.basic import Session
    import io
    left = E.int('left', 41, 90)
    width = E.int('width', 6, 60)
    top = E.int('top', 31, 60)
    tile = bytes([E.int('tile%d' % i, 1, 255) for i in range(E.int('tilelen', 1, 4))])
    out = io.BytesIO()
    with Session(output_streams=out, input_streams=None, video='ega') as s:
        s.execute('SCREEN 9: VIEW SCREEN (40,30)-(200,120)')
        before = [list(r) for r in s.get_pixels()]
        s.set_variable('T$', tile)
        s.execute('LINE (%d,%d)-(%d,%d),15,B: PAINT (%d,%d),T$,15' % (left, top, left + width, top + 20, left + 2, top + 2))
        try:
            after = [list(r) for r in s.get_pixels()]
        except AssertionError:
            # the pixel buffer itself reports rows of different lengths
            E.prove(False, 'every pixel row keeps its width')
            return
    txt = out.getvalue()
    E.prove(b'rror' not in txt, 'PAINT succeeds')
    E.prove(len(after) == len(before) and all(len(a) == len(b) for a, b in zip(after, before)), 'every pixel row keeps its width')
    outside_same = all(after[y][x] == before[y][x] for y in range(len(before)) for x in range(len(before[y]))
                       if not (40 <= x <= 200 and 30 <= y <= 120)) if len(after) == len(before) and all(len(a) == len(b) for a, b in zip(after, before)) else False
    E.prove(outside_same, 'no pixel outside the viewport changes')


TASKS = [
    Task('tiled PAINT inside a viewport (bounded)', t_paint_tile_bounded, bounded=True, samples=(16, 200),
         scope='16 (quick) / 200 (thorough) sampled boxes and tile patterns in SCREEN 9 through a real Session'),
    Task('GraphicsViewPort view_ok', t_view_ok, cases=[{'how': h} for h in ('init', 'unset', 'set')]),
    Task('Graphics.view_ (range checks before set)', t_view_statement),
    Task('GraphicsViewPort.__setitem__', t_setitem,
         cases=[{'active': a, 'yform': y, 'xform': x} for a in (True, False) for y in _FORMS for x in _FORMS]),
    Task('GraphicsViewPort.cutoff_coord', t_cutoff, cases=[{'active': a} for a in (True, False)]),
    Task('Graphics._draw_box_filled', t_box_filled, cases=[{'active': a} for a in (True, False)]),
    Task('Graphics: stores go through the viewport (structure)', t_structure),
    Task('Graphics.init_mode/set_page (active page)', t_active_page,
         cases=[{'first': a, 'second': b} for a in (0, 1, 3) for b in (0, 1, 3)]),
    Task('text mode guards', t_text_mode,
         cases=[{'stmt': s} for s in ('pset_', 'preset_', 'line_', 'circle_', 'paint_', 'put_', 'get_', 'draw_', 'view_', 'window_')]),
]

ASSUMPTIONS = [
    'the pixel buffer (ByteMatrix) writes only the cells selected by the index it is given (stand-in records the index)',
    'call sites other than _draw_box_filled are assumed to pass slice stops that went through cutoff_coord '
    '(absolute coordinate >= -1, so stop = coordinate + 1 >= 0); the structural task lists the store sites',
    'active page: graph_view._pixels is the active page buffer (set_page is called with apage.pixels) - read off the code',
]
NOT_COVERED = ['PAINT / PUT / CIRCLE / DRAW internals beyond their stores going through the viewport', 'page selection logic in Display']
