"""
C25 - Random-access files behave as arrays of fixed-length records.

Under contract (real source): RandomFile.put / get / _set_record_pos / lof / loc / eof
(devices/diskfiles.py) and Files._check_pos (devices/files.py).
The host file is a stand-in of *symbolic length* (content unmodelled: reads and writes are
logged with their byte offsets; writing past the end lets the host zero-fill the gap); record
length L in 1..32767, record numbers and the file length are unbounded symbolic integers.
  put(n) : the field buffer (exactly L bytes) is written at byte offset (n-1)*L; anything else
           written is zeros inside the gap [old length, (n-1)*L); the file ends at
           max(old length, n*L); LOC becomes n; the implicit record is LOC+1
  get(n) : the buffer receives the L bytes at offset (n-1)*L, or zeros when the record lies
           at or beyond the end; LOC becomes n; nothing is written to the file
  lof    : the file length, position restored
  _check_pos: Bad record number exactly outside 1..2^25 (integer record numbers)
Contents byte for byte (second group of tasks): with a concrete record length and file length
(case parameters) and symbolic file and field bytes, through the real FieldFile.get_buffer /
set_buffer: after PUT n the file is the old file, zero-extended, with exactly record n replaced;
every GET m returns record m of that file (the bytes PUT for m = n, zeros beyond the end or for
the missing tail of a partial last record).
Locks are C26's contract (stubbed here: access granted).
"""

from .common import *
from pcbasic.basic.devices import diskfiles, files as files_mod

PROPERTY = 'C25'


class _Locks(object):
    _pyvc_trusted = True
    def __init__(self):
        self.calls = []
    def try_record_access(self, number, start, stop, access=b'RW'):
        self.calls.append((number, start, stop, access))
    def close_file(self, number):
        pass


class _FieldFile(object):
    """Stand-in for FieldFile: get_buffer returns the L field bytes, set_buffer records."""
    _pyvc_trusted = True
    def __init__(self, reclen):
        self.reclen = reclen
        self.sets = []
        self.buffer = SRegion(reclen, kind='bytearray', tag=('field',))
    def get_buffer(self):
        return self.buffer
    def set_buffer(self, contents):
        self.sets.append(contents)


def _file(E):
    E.symbolic_regions = True      # b'\\0' * n with symbolic n stays a region of symbolic length
    L = E.int('reclen', 1, 32767)
    length = E.int('file_length', 0, 2**40)
    recpos = E.int('loc', 0, 2**25)
    f = object.__new__(diskfiles.RandomFile)
    f._fhandle = AbsStream(length, recpos * L)
    f.reclen = L
    f._locks = _Locks()
    f._number = 1
    f._field_file = _FieldFile(L)
    f._recpos = recpos
    f.filetype = b'D'
    f.mode = b'R'
    return f, L, length, recpos


def t_put(E, explicit):
    f, L, length, recpos = _file(E)
    pos = E.int('record', 1, 2**25) if explicit else None
    n = pos if explicit else recpos + 1
    r = E.call(f.put, pos)
    E.prove(not r.raised, 'PUT of a valid record number succeeds')
    if r.raised:
        return
    st = f._fhandle
    writes = [w for w in st.log if w[0] == 'write']
    E.prove(len(writes) >= 1, 'something is written')
    if not writes:
        return
    last = writes[-1]
    data = last[3]
    is_field = isinstance(data, SRegion) and data.tag == ('copy', f._field_file.buffer)
    E.prove(is_field, 'the record written is the field buffer')
    E.prove(And(last[1] == (n - 1) * L, last[2] == L), 'record n is written at byte offset (n-1)*L, exactly L bytes')
    for w in writes[:-1]:
        d = w[3]
        zero = isinstance(d, SRegion) and d.tag == ('fill', 0)
        E.prove(zero, 'any other write is zero fill')
        E.prove(And(w[1] >= length, w[1] + w[2] <= (n - 1) * L),
                'zero fill only inside the gap between the old end of file and the record')
    E.prove(st.length == Max(length, n * L), 'LOF is max(old length, n*L)')
    E.prove(f._recpos == n, 'LOC is the record just written; the implicit next record is LOC+1')
    E.prove(f._locks.calls == [(1, n, n, b'W')] or
            (len(f._locks.calls) == 1 and bool(And(f._locks.calls[0][1] == n, f._locks.calls[0][2] == n))),
            'write access to exactly that record is requested')
    E.canary(last[1] == 0, 'canary: always written at offset 0')


def t_get(E, explicit):
    f, L, length, recpos = _file(E)
    pos = E.int('record', 1, 2**25) if explicit else None
    n = pos if explicit else recpos + 1
    r = E.call(f.get, pos)
    E.prove(not r.raised, 'GET of a valid record number succeeds')
    if r.raised:
        return
    st = f._fhandle
    E.prove([w for w in st.log if w[0] == 'write'] == [], 'GET writes nothing to the file')
    E.prove(st.length == length, 'file length unchanged')
    E.prove(f._recpos == n, 'LOC is the record just read')
    sets = f._field_file.sets
    E.prove(len(sets) == 1, 'the buffer is set once')
    if len(sets) != 1:
        return
    c = sets[0]
    beyond = (n - 1) * L >= length
    reads = [w for w in st.log if w[0] == 'read']
    if isinstance(c, SRegion) and c.tag == ('fill', 0):
        E.cover('beyond')
        E.prove(beyond, 'zeros only for a record at or beyond the end of the file')
        E.prove(c.n == L, 'a full record of zero bytes')
    else:
        E.cover('inside')
        ok = isinstance(c, SRegion) and c.tag is not None and c.tag[0] == 'file'
        E.prove(ok, 'the buffer receives bytes read from the file')
        if ok:
            E.prove(c.tag[1] == (n - 1) * L, 'read from byte offset (n-1)*L')
            E.prove(c.n == Min(L, Max(length - (n - 1) * L, 0)), 'L bytes (fewer only at the end of the file; padded by set_buffer)')
            E.prove(Or(Not(beyond), c.n == 0), 'a record beyond the end yields no file bytes')


def t_lof(E):
    f, L, length, recpos = _file(E)
    p0 = f._fhandle.pos
    r = E.call(f.lof)
    E.prove(not r.raised and bool(r.value == length), 'LOF is the file length in bytes')
    E.prove(f._fhandle.pos == p0 and f._fhandle.log == [], 'position restored, nothing read or written')
    r2 = E.call(f.loc)
    E.prove(not r2.raised and bool(r2.value == recpos), 'LOC is the number of the last record accessed')


def t_check_pos(E):
    fs = object.__new__(files_mod.Files)
    vals = values_env()
    n = E.int('n', -40000000, 40000000)
    x = E.new(numbers.Double, None, vals)
    out = E.call(x.from_int, n)
    if out.raised:
        raise Unsupported('from_int raised')
    # by contract: to_single(x).to_value() of an integer below 2^24 is that integer (C03);
    # larger values are rounded by to_single - only the range check is stated for them
    if E.mode == 'symbolic':
        class _V(object):
            _pyvc_trusted = True
            def __init__(self, v): self.v = v
            def to_value(self): return self.v
        E.interp.contracts[values.to_single] = lambda I, args, kw: _V(n)
        from pyvc import summaries
        E.interp.summaries[round] = lambda I, args, kw: args[0]
    r = E.call(fs._check_pos, x)
    valid = And(n >= 1, n <= 2**25)
    if r.raised:
        E.prove(r.is_error(BASICError, error.BAD_RECORD_NUMBER), 'only Bad record number')
        E.prove(Not(valid), 'record numbers 1..2^25 are accepted')
    else:
        E.prove(valid, 'a record number outside 1..2^25 raises Bad record number')
        E.prove(r.value == n, 'the record number is passed on')
    r0 = E.call(fs._check_pos, None)
    E.prove(not r0.raised and r0.value is None, 'no record number: implicit position')


# ---------------------------------------------------------------------------
# record contents byte for byte: concrete record length, symbolic file and field contents,
# the real FieldFile.get_buffer / set_buffer over a real Field buffer

from pcbasic.basic.memory import memory as memory_mod


class _FH(object):
    _pyvc_trusted = True
    def seek(self, *a):
        pass
    def tell(self):
        return 0


def _content_file(E, L, flen):
    f = object.__new__(diskfiles.RandomFile)
    old = [E.int('file[%d]' % i, 0, 255) for i in range(flen)]
    f._fhandle = SymStream(list(old))
    f.reclen = L
    f._locks = _Locks()
    f._number = 1
    field = object.__new__(memory_mod.Field)
    fb = [E.int('field[%d]' % i, 0, 255) for i in range(L)]
    field._buffer = SBuf(list(fb), 'bytearray') if E.mode == 'symbolic' else bytearray(fb)
    ff = object.__new__(diskfiles.FieldFile)
    ff._field = field
    ff._reclen = L
    ff._fhandle = _FH()
    ff._readahead = []
    f._field_file = ff
    f._recpos = 0
    f.filetype = b'D'
    f.mode = b'R'
    return f, old, fb, field


def _record(cells, m, L):
    """Record m of a file: its bytes, zero-padded (partial or missing records read as zeros)."""
    r = cells[(m - 1) * L: m * L]
    return r + [0] * (L - len(r))


def t_contents(E, L, flen, nmax):
    f, old, fb, field = _content_file(E, L, flen)
    n = E.int('record', 1, nmax)
    n = E.concretize(n)
    r = E.call(f.put, n)
    E.prove(not r.raised, 'PUT succeeds')
    if r.raised:
        return
    now = list(f._fhandle.cells)
    want_len = max(flen, n * L)
    E.prove(len(now) == want_len, 'LOF is max(old length, n*L)')
    want = list(old) + [0] * (want_len - flen)
    want[(n - 1) * L: n * L] = fb
    if len(now) == want_len:
        E.prove(cells_equal(now, want), 'the file is the old file, zero-extended, with exactly record n replaced by the field buffer')
    # every record reads back: the one written is the buffer, the others what the file held
    for m in range(1, want_len // L + 3):
        g = E.call(f.get, m)
        E.prove(not g.raised, 'GET succeeds')
        got = list(to_cells(field._buffer))
        E.prove(len(got) == L and bool(cells_equal(got, _record(want, m, L))),
                'GET %s returns %s' % ('of the record written' if m == n else 'of another record',
                                       'the bytes that were PUT' if m == n else 'that record unchanged (zeros beyond the end)'))
        E.prove(f._recpos == m, 'LOC follows')
    E.prove(len(f._fhandle.cells) == want_len, 'GET never changes the file length')


TASKS = [
    Task('RandomFile put/get contents', t_contents,
         cases=[{'L': L, 'flen': fl, 'nmax': nm} for L, fl, nm in ((1, 0, 3), (3, 0, 3), (3, 6, 4), (3, 7, 5), (4, 9, 5), (2, 5, 6), (128, 130, 3))]),
    Task('RandomFile.put', t_put, cases=[{'explicit': e} for e in (True, False)]),
    Task('RandomFile.get', t_get, cases=[{'explicit': e} for e in (True, False)], covers=('beyond', 'inside')),
    Task('RandomFile.lof/loc', t_lof),
    Task('Files._check_pos', t_check_pos),
]

ASSUMPTIONS = [
    'host file: stand-in of symbolic length with logged reads/writes; writes past the end are zero-filled by the host',
    'FieldFile.get_buffer/set_buffer by assumed contract (get: the L field bytes; set: stores the contents padded to L)',
    'locks by contract (C26); safe_io() is the real context manager run natively (it only maps host I/O errors)',
    '_check_pos: the float rounding int(round(to_single(x).to_value())) is abstracted to the identity on integers (C03 for |n| < 2^24)',
]
NOT_COVERED = ['FIELD / LSET / RSET buffers (C09/C10)', 'text-file operations on the field buffer (PRINT#, INPUT# on a random file)']
