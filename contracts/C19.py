"""
C19 - Structured control flow follows its reference semantics (per-statement transitions).

Under contract (real source, interpreter.py): Interpreter.jump / jump_sub / return_ / goto_ /
gosub_ / on_jump_ / wend_ / for_ / iterate_loop / set_pointer / get_codestream, as transition
contracts over the interpreter record (pointer, run mode, FOR/WHILE/GOSUB stacks). The code
stream is an opaque position with logged seeks; token scanning (_find_next, _find_wend,
skip_to) is by stand-in.
  GOSUB n / RETURN: pushes (return position, run mode) and jumps to line n; RETURN pops exactly
      that and resumes there, at any nesting depth (stack contents symbolic, depth 0..3);
      RETURN on an empty stack: RETURN without GOSUB; unknown line: Undefined line number
  ON x GOTO/GOSUB l1,..,lk: jumps to the x-th target, falls through for x = 0 and x > k,
      Illegal function call outside 0..255
  WEND: WEND without WHILE iff no WHILE record matches; inner records of loops that were left
      are dropped
  FOR: assigns the start value, pushes one record, and skips the body iff the start is already
      past the limit in the direction of the step (then NEXT runs once and the record is gone)
The integer counter step of NEXT is proved under C02.
"""

from .icommon import *

PROPERTY = 'C19'


def t_gosub_return(E, depth, run_mode):
    it = make_interpreter(E, run_mode=run_mode)
    stack0 = [(E.int('ret%d' % i, 0, 9000), bool(i % 2), None) for i in range(depth)]
    it.gosub_stack = list(stack0)
    cs = it._program_code if run_mode else it.direct_line
    pos0 = cs.tell()
    target = E.choice('target', [10, 100, 200, 999])
    r = E.call(it.gosub_, iter([target]))
    if target not in LINES:
        E.prove(r.is_error(BASICError, error.UNDEFINED_LINE_NUMBER), 'GOSUB to a missing line: Undefined line number')
        E.prove(it.gosub_stack == stack0, 'nothing pushed')
        return
    E.prove(not r.raised, 'GOSUB to an existing line succeeds')
    E.prove(len(it.gosub_stack) == depth + 1 and it.gosub_stack[:depth] == stack0, 'one record pushed on top')
    E.prove(it.gosub_stack[-1] == (pos0, run_mode, None), 'the record is (position after GOSUB, run mode)')
    E.prove(it.run_mode is True and last_seek(it._program_code) == LINES[target], 'execution continues at the target line')
    # RETURN
    r2 = E.call(it.return_, iter([None]))
    E.prove(not r2.raised, 'RETURN succeeds')
    E.prove(it.gosub_stack == stack0, 'RETURN pops exactly the record GOSUB pushed')
    cs2 = it._program_code if run_mode else it.direct_line
    E.prove(it.run_mode is run_mode and last_seek(cs2) == pos0, 'and resumes after the calling statement, in the mode it was called from')
    # unwinding the rest
    for i in reversed(range(depth)):
        E.call(it.return_, iter([None]))
        mode_i = stack0[i][1]
        csi = it._program_code if mode_i else it.direct_line
        E.prove(bool(last_seek(csi) == stack0[i][0]) and it.run_mode is mode_i, 'outer RETURNs resume at their own call sites')
    r3 = E.call(it.return_, iter([None]))
    E.prove(r3.is_error(BASICError, error.RETURN_WITHOUT_GOSUB), 'RETURN on an empty stack: RETURN without GOSUB')


def t_on_jump(E, kind, ntargets):
    it = make_interpreter(E)
    vals = it._values
    x = E.int('x', -300, 300)
    xv = E.new(numbers.Integer, None, vals)
    E.call(xv.from_int, x)
    targets = [10, 100, 200][:ntargets]
    jt = tk.GOTO if kind == 'goto' else tk.GOSUB
    r = E.call(it.on_jump_, iter([xv, jt] + targets))
    if r.raised:
        E.prove(r.is_error(BASICError, error.IFC), 'only Illegal function call')
        E.prove(Or(x < 0, x > 255), 'only outside 0..255')
        E.prove(it._program_code.log == [] and it.gosub_stack == [], 'no jump')
        return
    E.prove(And(x >= 0, x <= 255), 'values outside 0..255 raise Illegal function call')
    sel = [i for i in range(ntargets) if bool(x == i + 1)]
    if sel:
        E.cover('jump')
        E.prove(last_seek(it._program_code) == LINES[targets[sel[0]]], 'jumps to the x-th target')
        E.prove(len(it.gosub_stack) == (1 if kind == 'gosub' else 0), 'GOSUB pushes a return record, GOTO does not')
    else:
        E.cover('fall through')
        E.prove(it._program_code.log == [] and it.gosub_stack == [], 'x = 0 or beyond the list: falls through')


def t_wend(E, shape):
    it = make_interpreter(E, pos=70)
    calls = []
    if E.mode == 'symbolic':
        E.interp.contracts[interp_mod.Interpreter._check_while_condition] = \
            lambda I, args, kw: calls.append(args[2])
    else:
        it._check_while_condition = lambda ins, whilepos: calls.append(whilepos)
    # while_stack entries: (whilepos, wendpos); current position is 70
    stacks = {'empty': [], 'match': [(5, 70)], 'inner-left': [(5, 70), (20, 50)], 'nomatch': [(5, 60), (20, 50)]}
    it.while_stack = list(stacks[shape])
    r = E.call(it.wend_, iter([]))
    if shape in ('empty', 'nomatch'):
        E.prove(r.is_error(BASICError, error.WEND_WITHOUT_WHILE), 'WEND without WHILE')
    else:
        E.prove(not r.raised and calls == [5], 'the matching WHILE is re-evaluated')
        E.prove(it.while_stack == [(5, 70)], 'records of inner loops that were left are dropped')


class _Scalars(object):
    _pyvc_trusted = True
    def __init__(self):
        self.vars = {}
    def set(self, name, value):
        self.vars[name] = value
    def view(self, name):
        return self.vars[name]

class _Memory(object):
    _pyvc_trusted = True
    def complete_name(self, name):
        return name

def t_for(E, step_given):
    it = make_interpreter(E, pos=40)
    vals = it._values
    it._scalars = _Scalars()
    it._memory = _Memory()
    if E.mode == 'symbolic':
        E.interp.contracts[interp_mod.Interpreter._find_next] = lambda I, args, kw: (45, 80)
    else:
        it._find_next = lambda ins, varname: (45, 80)
    start, stop = new_integer(E, vals, 'start'), new_integer(E, vals, 'stop')
    a, b = s16(start), s16(stop)
    if step_given:
        step = new_integer(E, vals, 'step')
        d = s16(step)
        # STEP 0 has no direction: FOR treats it as upward, NEXT as downward (GW-BASIC loops
        # forever either way); the statement speaks of "the step's direction", so it is excluded
        E.assume(d != 0)
    else:
        step, d = None, 1
    # the statement parser hands the limit and the step over lazily: they are expressions of the program and
    # may mention the loop variable, so they have to be evaluated before the counter is overwritten
    seen = []
    def lazy():
        yield b'I%'
        yield start
        seen.append(('limit', b'I%' in it._scalars.vars))
        yield stop
        seen.append(('step', b'I%' in it._scalars.vars))
        yield step
    r = E.call(it.for_, lazy())
    E.prove(seen == [('limit', False), ('step', False)] or r.raised,
            'the limit and the step are evaluated before the loop variable is assigned (FOR I=1 TO I+5 uses the old I)')
    past = If(d >= 0, a > b, b > a)
    nxt = a + d
    if r.raised:
        E.cover('overflow')
        E.prove(r.is_error(BASICError, error.OVERFLOW), 'only Overflow')
        E.prove(And(past, Not(in_int_range(nxt))), 'only when the skipped loop steps the counter out of range')
        return
    ctr = it._scalars.vars.get(b'I%')
    E.prove(ctr is not None, 'the loop variable is assigned')
    if bool(past):
        E.cover('skipped')
        E.prove(it.for_stack == [], 'start already past the limit: the body runs zero times and the record is gone')
        E.prove(('seek', 80) in it._program_code.log and ('seek', 45) not in it._program_code.log,
                'execution continues after NEXT')
        E.prove(s16(ctr) == nxt, 'NEXT has run once (GW-BASIC leaves start + step in the variable)')
    else:
        E.cover('entered')
        E.prove(len(it.for_stack) == 1, 'one FOR record')
        if len(it.for_stack) == 1:
            rec = it.for_stack[0]
            E.prove(rec[0] == b'I%' and bool(And(s16(rec[1]) == b, s16(rec[2]) == d)) and rec[4:] == (45, 80),
                    'the record holds limit, step and the positions of FOR and NEXT')
            E.prove(rec[3] == If(d > 0, 1, If(d == 0, 0, -1)), 'direction is the sign of the step')
        E.prove(s16(ctr) == a, 'the counter starts at the start value')
        E.prove(('seek', 80) not in it._program_code.log, 'the body is entered')


# ---------------------------------------------------------------------------
# block matching (FOR..NEXT, WHILE..WEND) over real tokenised lines

_STMTS = ['X=1', 'FOR J=1 TO 2', 'NEXT', 'WHILE A', 'WEND', 'IF A THEN X=2', 'IF A THEN FOR K=1 TO 2', 'IF A THEN NEXT',
          'IF A THEN X=3 ELSE FOR K=1 TO 2', 'IF A THEN X=3 ELSE NEXT', 'IF A THEN X=3 ELSE WHILE B', 'IF A THEN X=3 ELSE WEND',
          'REM NEXT', 'PRINT "NEXT:WEND"']


def _events(stmt):
    """Block tokens a statement contributes, in order (the reference reading of the line)."""
    if stmt.startswith('REM') or stmt.startswith('PRINT'):
        return []
    out = []
    for part in stmt.replace(' THEN ', '|').replace(' ELSE ', '|').split('|'):
        w = part.split()[0]
        if w in ('FOR', 'NEXT', 'WHILE', 'WEND'):
            out.append(w)
    return out


def t_skip_block(E, kind, chunk, nchunks):
    """TokenisedStream.skip_block on every program of up to three statements (one per line or colon-joined)
    drawn from a fixed list that puts FOR / NEXT / WHILE / WEND after a colon, after THEN and after ELSE, inside
    REM and inside a string: the scan from just after an opening FOR / WHILE stops at the matching closing token
    (nested blocks skipped), or runs to the end when there is none."""
    import itertools
    from pcbasic.basic.converter import tokeniser as tokeniser_mod
    from pcbasic.basic.base import codestream
    vals = values_env()
    tok = tokeniser_mod.Tokeniser(vals, tk.TokenKeywordDict('advanced'))
    opener, closer = ('FOR', 'NEXT') if kind == 'for' else ('WHILE', 'WEND')
    otok, ctok = (tk.FOR, tk.NEXT) if kind == 'for' else (tk.WHILE, tk.WEND)
    progs = [p for n in (1, 2, 3) for p in itertools.product(_STMTS, repeat=n)]
    progs = [p for i, p in enumerate(progs) if i % nchunks == chunk]
    checked = 0
    bad = []
    for joiner in (':', None):
        for body in progs:
            first = 'FOR I=1 TO 3' if kind == 'for' else 'WHILE Z'
            if joiner == ':':
                text = ['10 ' + ':'.join((first,) + body)]
            else:
                text = ['%d %s' % (10 * (k + 1), st) for k, st in enumerate((first,) + body)]
            code = b''
            for ln in text:
                code += tok.tokenise_line(ln.encode('ascii')).getvalue()
            code += b'\0\0\0'
            ins = codestream.TokenisedStream()
            ins.write(code)
            # position just after the opening statement's keyword
            start = code.index(otok) + 1
            ins.seek(start)
            # reference: match by counting block tokens
            live = list(body)
            if joiner == ':':
                # REM comments out the rest of the line, colons included
                for k, st in enumerate(live):
                    if st.startswith('REM'):
                        live = live[:k]
                        break
            evs = [e for st in live for e in _events(st)]
            depth, want = 0, None
            for k, e in enumerate(evs):
                if e == opener:
                    depth += 1
                elif e == closer:
                    if depth == 0:
                        want = k
                        break
                    depth -= 1
            r = E.call(ins.skip_block, otok, ctok)
            if r.raised:
                bad.append(('raised', text))
                continue
            nxt = E.call(ins.skip_blank).value
            if want is None:
                if nxt == ctok:
                    bad.append(('stops although nothing matches', text))
            else:
                # the closing token found must be the (want+1)-th block token of its kind sequence: count closers before it
                pos = ins.tell()
                ncl = sum(1 for e in evs[:want + 1] if e == closer)
                seen_cl = code[start:pos + 1].count(ctok)
                if not (nxt == ctok and seen_cl >= ncl):
                    bad.append(('does not stop at the matching token', text))
            checked += 1
    E.prove(checked > 0, 'programs were checked')
    E.prove(bad == [], 'the scan from an opening %s stops at the matching %s, or at the end when there is none, in every program of the list%s'
            % (opener, closer, '' if not bad else ' - first failures: %r' % (bad[:3],)))


TASKS = [
    Task('TokenisedStream.skip_block (FOR..NEXT / WHILE..WEND matching)', t_skip_block,
         cases=[{'kind': k, 'chunk': c, 'nchunks': 12} for k in ('for', 'while') for c in range(12)]),
    Task('GOSUB/RETURN', t_gosub_return, cases=[{'depth': d, 'run_mode': m} for d in (0, 1, 2, 3) for m in (True, False)]),
    Task('ON x GOTO/GOSUB', t_on_jump, covers=('jump', 'fall through'),
         cases=[{'kind': k, 'ntargets': n} for k in ('goto', 'gosub') for n in (1, 2, 3)]),
    Task('WEND', t_wend, cases=[{'shape': s} for s in ('empty', 'match', 'inner-left', 'nomatch')]),
    Task('FOR', t_for, cases=[{'step_given': s} for s in (True, False)], covers=('skipped', 'entered')),
]

ASSUMPTIONS = [
    'code stream is an opaque position (seek/tell/skip_to logged); devices and queues are recording stand-ins',
    '_find_next / _check_while_condition (token scanning and expression evaluation) are stand-ins',
    'GOSUB stack depth 0..3 with symbolic return positions; programs are a fixed line table',
]
NOT_COVERED = ['_find_next/_find_wend beyond the block scan (variable-name matching of NEXT, NEXT I,J lists), multi-statement lines, IF/THEN/ELSE branch parsing (coroutine with the statement parser)',
               'the claim about visit order of whole programs']
