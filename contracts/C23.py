"""
C23 - RUN, CLEAR and NEW reset state; CHAIN keeps exactly the COMMON variables.

Under contract (real source): Interpreter.clear / clear_stacks_and_pointers / _clear_stacks /
_init_error_trapping (interpreter.py), Implementation._clear_all / clear_ / new_ / run_
(implementation.py), DataSegment.clear / clear_deftype (memory/memory.py) with the real
Scalars.clear, Arrays.clear / clear_base, StringSpace.clear, UserFunctionManager.clear,
Randomiser.clear, BasicEvents.reset.
Postcondition from the statement, on a state populated with variables, arrays, strings, DEF FN,
DEFtype, OPTION BASE, FOR/WHILE/GOSUB stacks, an error trap, an event trap and a random state:
after CLEAR / NEW / RUN none of them survives. Devices (files, sound, graphics, stick, display)
are recording stand-ins.
"""

from .common import *
from pcbasic.basic import implementation, interpreter as interp_mod, basicevents
from pcbasic.basic.memory import memory as memory_mod
from pcbasic.basic.parser import userfunctions
from pcbasic.basic.values import randomiser

PROPERTY = 'C23'


class _Rec(object):
    _pyvc_trusted = True
    def __init__(self, name='dev'):
        object.__setattr__(self, 'log', [])
        object.__setattr__(self, '_name', name)
    def __getattr__(self, k):
        if k.startswith('__'):
            raise AttributeError(k)
        def f(*a, **kw):
            self.log.append((k, a))
            return None
        return f


class _Prog(object):
    _pyvc_trusted = True
    def __init__(self):
        self.line_numbers = {10: 1, 65536: 20}
        self.erased = 0
        self.bytecode = _Rec('bytecode')
    def size(self):
        return 100
    def erase(self):
        self.erased += 1
    protected = False


class _Handler(object):
    _pyvc_trusted = True
    def __init__(self):
        self.reset_calls = 0
        self.enabled, self.stopped, self.triggered, self.gosub = True, True, True, 500
    def reset(self):
        self.reset_calls += 1
        self.enabled, self.stopped, self.triggered, self.gosub = False, False, False, None


class _Events(object):
    _pyvc_trusted = True
    def __init__(self):
        self.h = _Handler()
        self.all = [self.h]
        self.suspend_all = True
        self.resets = 0
    def reset(self):
        self.resets += 1
        self.h.reset()
        self.suspend_all = False


def _populated(E):
    ds = E.new(memory_mod.DataSegment, 65534, 3429, 128, 3, False)
    prog = _Prog()
    ds.set_buffers(prog)
    ds.values.set_handler(values.FloatErrorHandler(None))
    v = E.new(numbers.Integer, E.bytes('a', 2), ds.values)
    E.call(ds.scalars.set, b'A%', v)
    E.call(ds.arrays.allocate, b'X!', [3])
    E.call(ds.strings.store, b'HELLO')
    ds.deftype[3] = b'%'
    E.call(ds.arrays.option_base_, [1]) if ds.arrays._base is None else None
    it = object.__new__(interp_mod.Interpreter)
    it._basic_events = _Events()
    it._program_code = _Rec('code')
    it._cursor = _Rec('cursor')
    it.for_stack = [(b'I%', None, None, 1, 5, 9)]
    it.while_stack = [(3, 7)]
    it.gosub_stack = [(11, True, None)]
    it.on_error = 100
    it.error_handle_mode = True
    it.error_resume = (5, True)
    it.error_num, it.error_pos = 11, 42
    it.stop_pos = 77
    it.data_pos = 33
    it.run_mode = True
    it.parse_mode = True
    it.tron = True
    if E.mode == 'symbolic':
        E.interp.contracts[interp_mod.Interpreter.set_pointer] = \
            lambda I, args, kw: setattr(args[0], 'run_mode', args[1])
    else:
        it.set_pointer = lambda mode, pos=None: setattr(it, 'run_mode', mode)
    rnd = E.new(randomiser.Randomiser, ds.values)
    # the generator has been used before the reset
    E.call(rnd.rnd_, [None])
    rnd._seed = E.int('seed', 0, (1 << 24) - 1)
    fns = object.__new__(userfunctions.UserFunctionManager)
    fns._fn_dict = {b'FNA!': object()}
    impl = object.__new__(implementation.Implementation)
    impl.memory = ds
    impl.interpreter = it
    impl.program = prog
    impl.randomiser = rnd
    impl.parser = _Rec('parser')
    object.__setattr__(impl.parser, 'user_functions', fns)
    impl.files, impl.sound, impl.graphics, impl.stick, impl.display = (_Rec(n) for n in
                                                                        ('files', 'sound', 'graphics', 'stick', 'display'))
    return impl, ds, it, rnd, fns, prog


def _all_reset(E, impl, ds, it, rnd, fns, what):
    E.prove(len(ds.scalars._vars) == 0 and len(ds.scalars._var_memory) == 0 and ds.scalars.current == 0,
            what + ': no scalar variable survives')
    E.prove(len(ds.arrays._dims) == 0 and len(ds.arrays._buffers) == 0 and ds.arrays.current == 0,
            what + ': no array survives')
    E.prove(len(ds.strings._strings) == 0 and ds.strings.current == ds.stack_start(), what + ': string space is empty')
    E.prove(ds.deftype == [b'!'] * 26, what + ': DEFtype is back to single for every letter')
    E.prove(ds.arrays._base is None, what + ': OPTION BASE is unset')
    E.prove(len(fns._fn_dict) == 0, what + ': no DEF FN survives')
    E.prove(it.for_stack == [] and it.while_stack == [], what + ': FOR and WHILE stacks are empty')
    E.prove(it.gosub_stack == [], what + ': the subroutine stack is empty')
    E.prove(it.on_error is None or it.on_error == 0, what + ': no error trap is set')
    E.prove(it.error_handle_mode is False and it.error_resume is None, what + ': no error handler is active')
    E.prove(it.error_num == 0, what + ': ERR is reset')
    h = it._basic_events.h
    E.prove(h.enabled is False and h.gosub is None and it._basic_events.suspend_all is False,
            what + ': event traps are off')
    E.prove(rnd._seed == 5228370, what + ': the random sequence restarts')
    fresh = E.new(randomiser.Randomiser, ds.values)
    zero = E.new(numbers.Single, None, ds.values)
    a, b = E.call(rnd.rnd_, [zero]), E.call(fresh.rnd_, [zero])
    E.prove(not a.raised and not b.raised and bool(same_bytes(a.value, b.value)), what + ': RND(0) is that of a fresh generator (no value from before survives)')
    E.prove(it.data_pos == 0 and it.stop_pos is None, what + ': DATA pointer and CONT position reset')


def t_clear(E):
    impl, ds, it, rnd, fns, prog = _populated(E)
    r = E.call(impl.clear_, iter([None, None, None, None]))
    E.prove(not r.raised, 'CLEAR succeeds')
    _all_reset(E, impl, ds, it, rnd, fns, 'CLEAR')
    E.prove(prog.erased == 0, 'CLEAR keeps the program')


def t_new(E):
    impl, ds, it, rnd, fns, prog = _populated(E)
    r = E.call(impl.new_, iter([]))
    E.prove(not r.raised, 'NEW succeeds')
    _all_reset(E, impl, ds, it, rnd, fns, 'NEW')
    E.prove(prog.erased == 1 and it.tron is False and it.run_mode is False, 'NEW erases the program and stops')


def t_run(E):
    impl, ds, it, rnd, fns, prog = _populated(E)
    r = E.call(impl.run_, iter([None]))
    E.prove(not r.raised, 'RUN succeeds')
    _all_reset(E, impl, ds, it, rnd, fns, 'RUN')
    E.prove(('close_all', ()) in impl.files.log, 'RUN closes all files')
    E.prove(it.run_mode is True, 'RUN starts the program')


def t_interpreter_clear(E):
    impl, ds, it, rnd, fns, prog = _populated(E)
    E.call(it.clear)
    E.prove(it.for_stack == [] and it.while_stack == [] and it.gosub_stack == [], 'all three stacks are dumped')
    E.prove(it.on_error is None and it.error_handle_mode is False and it.error_resume is None, 'error trapping off')
    E.prove(it._basic_events.resets == 1, 'event traps reset')


def _strval(E, ds, name, idx=None):
    r = E.call(ds.view_or_create_variable, name, idx or [])
    if r.raised:
        raise Unsupported('lookup of %r raised %r' % (name, r.exc))
    return str_cells(E, r.value)


def t_chain_commons(E, preserve_all, new_size):
    """DataSegment.preserve_commons around the real Implementation._clear_all, as CHAIN uses them."""
    impl, ds, it, rnd, fns, prog = _populated(E)
    vals = ds.values
    code_start = ds.code_start
    lit = E.bytes('literal', 2, kind='bytes')
    prog.literal = lit
    prog.get_memory_block = lambda addr, n: bytearray(to_cells(lit)[addr - (code_start + 10): addr - (code_start + 10) + n]) \
        if E.mode != 'symbolic' else SBuf(list(to_cells(lit)[addr - (code_start + 10): addr - (code_start + 10) + n]), 'bytearray')
    # numeric scalars: A% exists already (symbolic); Y! is not common
    y = E.new(numbers.Single, E.bytes('y', 4), vals)
    E.call(ds.scalars.set, b'Y!', y)
    a0 = snapshot(E.call(ds.scalars.get, b'A%').value)
    # strings: S$ in string space (common), L$ a literal in the program text (common), Z$ in string space (not common)
    E.call(ds.set_variable, b'S$', [], new_string(E, vals, E.bytes('s', 3, kind='bytes')))
    E.call(ds.set_variable, b'Z$', [], new_string(E, vals, b'zzz'))
    litptr = E.new(strings.String, None, vals)
    E.call(litptr.from_pointer, 2, code_start + 10)
    E.call(ds.scalars.set, b'L$', litptr)
    # a string-valued DEF FN leaves a bookkeeping scalar whose "descriptor" is a code pointer, not a string
    fnptr = E.new(strings.String, None, vals)
    E.call(fnptr.from_pointer, E.int('fn pointer lo', 0, 255), E.int('fn pointer hi', 0, 255))
    E.call(ds.scalars.set, b'\xc1$', fnptr)
    s0 = _strval(E, ds, b'S$')
    l0 = _strval(E, ds, b'L$')
    E.prove(same_bytes(l0, list(to_cells(lit))), 'setup: L$ reads the program literal')
    # arrays: N%(0..2) symbolic (common), T$(0..1): T$(1) in string space, T$(0) the literal (common); X!(3) exists, not common
    E.call(ds.arrays.allocate, b'N%', [2])
    nbuf = E.bytes('n', 6)
    E.call(ds.arrays.view_full_buffer, b'N%').value[:] = nbuf
    E.call(ds.arrays.allocate, b'T$', [2])
    E.call(ds.set_variable, b'T$', [2], new_string(E, vals, E.bytes('t', 2, kind='bytes')))
    E.call(ds.arrays.set, b'T$', [1], litptr)
    t1 = _strval(E, ds, b'T$', [2])
    n0 = list(to_cells(E.call(ds.arrays.view_full_buffer, b'N%').value))
    base0 = ds.arrays._base
    cm = E.call(ds.preserve_commons, {b'A%', b'S$', b'L$', b'Q#'}, {b'N%', b'T$'}, preserve_all)
    E.prove(not cm.raised, 'preserve_commons starts')
    r = E.call(cm.value.__enter__)
    E.prove(not r.raised, 'COMMON values are saved')
    E.call(impl._clear_all, preserve_functions=preserve_all, preserve_base=True, preserve_deftype=False)
    # the new program has another size: variable memory moves, the old literal is gone
    prog.size = lambda: new_size
    prog.get_memory_block = (lambda addr, n: bytearray(b'?' * n)) if E.mode != 'symbolic' else \
        (lambda addr, n: SBuf([63] * n, 'bytearray'))
    r = E.call(cm.value.__exit__, None, None, None)
    E.prove(not r.raised, 'COMMON values are restored')
    if r.raised:
        return
    E.prove(same_bytes(cells(E.call(ds.scalars.get, b'A%').value), a0), 'common numeric scalar keeps its value')
    E.prove(same_bytes(_strval(E, ds, b'S$'), s0), 'common string scalar keeps its content')
    E.prove(same_bytes(_strval(E, ds, b'L$'), l0), 'common string that was a literal of the old program keeps its content')
    E.prove(b'N%' in ds.arrays._dims and same_bytes(list(to_cells(E.call(ds.arrays.view_full_buffer, b'N%').value)), n0),
            'common numeric array keeps its contents')
    E.prove(b'T$' in ds.arrays._dims, 'common string array exists')
    if b'T$' in ds.arrays._dims:
        E.prove(same_bytes(_strval(E, ds, b'T$', [2]), t1), 'common string array element keeps its content')
        E.prove(same_bytes(_strval(E, ds, b'T$', [1]), l0), 'common string array element that was a literal keeps its content')
        E.prove(len(_strval(E, ds, b'T$', [0])) == 0, 'unset string array element stays empty')
    E.prove(b'Q#' not in ds.scalars._vars, 'a COMMON name that was never assigned is not created')
    if preserve_all:
        E.prove(same_bytes(cells(E.call(ds.scalars.get, b'Y!').value), snapshot(y)), 'ALL: every scalar is kept')
        E.prove(same_bytes(_strval(E, ds, b'Z$'), list(b'zzz')), 'ALL: every string is kept')
        E.prove(b'X!' in ds.arrays._dims, 'ALL: every array is kept')
    else:
        E.prove(sorted(ds.scalars._vars) == [b'A%', b'L$', b'S$'], 'exactly the COMMON scalars are present')
        E.prove(sorted(ds.arrays._dims) == [b'N%', b'T$'], 'exactly the COMMON arrays are present')
        live = sum(len(v) for v in ds.strings._strings.values())
        E.prove(live == 3 + 2 + 2 + 2, 'string space holds the COMMON strings only')
    E.prove(ds.arrays._base == base0, 'OPTION BASE is preserved with COMMON variables')
    E.prove(it.for_stack == [] and it.while_stack == [] and it.gosub_stack == [], 'loop and subroutine stacks are cleared')
    E.prove(it.on_error is None or it.on_error == 0, 'the error trap is cleared')
    E.prove(ds.deftype == [b'!'] * 26, 'DEFtype is cleared (no MERGE)')
    E.prove((len(fns._fn_dict) == 0) == (not preserve_all), 'DEF FN survive only with ALL')


def t_functions_cleared(E, called_before):
    """UserFunctionManager.clear (CLEAR, RUN, NEW, CHAIN without ALL): afterwards no user function can be
    called - also one that was called before the reset (history: define, call, clear, call)."""
    from pcbasic.basic.parser import userfunctions
    class _Mem(object):
        _pyvc_trusted = True
        def complete_name(self, name):
            return name if name[-1:] in (b'$', b'%', b'!', b'#') else name + b'!'
    m = object.__new__(userfunctions.UserFunctionManager)
    r = E.call(userfunctions.UserFunctionManager.__init__, m, _Mem(), None, None)
    E.prove(not r.raised, 'created')
    fn = object()
    m._fn_dict[b'A!'] = fn
    if called_before:
        r = E.call(m.get, b'A')
        E.prove(not r.raised and r.value is fn, 'a defined function is found by the name written at the call')
    r = E.call(m.clear)
    E.prove(not r.raised, 'clear never raises')
    for nm in (b'A', b'A!'):
        r = E.call(m.get, nm)
        E.prove(r.is_error(BASICError, error.UNDEFINED_USER_FUNCTION), 'after the reset the function is undefined: Undefined user function')


def t_chain_flags(E, merge, preserve_all, commons):
    """Implementation.chain_: what survives a CHAIN is decided by the arguments of _clear_all - functions only
    with ALL, OPTION BASE when there are COMMON variables or ALL, the DEFtype table only with MERGE."""
    from pcbasic.basic import implementation
    from .C16 import Spy
    log = []
    impl = object.__new__(implementation.Implementation)
    impl.program = Spy('program', log, {'protected': False, 'line_numbers': {10: 1}})
    class _Itp(object):
        _pyvc_trusted = True
        def gather_commons(self):
            return (set([b'A!']) if commons else set()), set()
        def clear_stacks_and_pointers(self):
            pass
        def jump(self, *a, **kw):
            pass
    impl.interpreter = _Itp()
    impl.memory = Spy('memory', log)
    impl.files = Spy('files', log)
    impl.strings = Spy('strings', log)
    calls = []
    if E.mode == 'symbolic':
        E.interp.contracts[implementation.Implementation._clear_all] = lambda I, args, kw: calls.append(dict(kw))
    else:
        impl._clear_all = lambda **kw: calls.append(dict(kw))
    vals = values_env(with_strings=True)
    name = vals.new_string()
    E.call(name.from_str, b'PROG')
    r = E.call(impl.chain_, iter([merge, name, None, preserve_all, None]))
    E.prove(not r.raised, 'CHAIN proceeds')
    E.prove(len(calls) == 1, 'everything is reset once')
    if len(calls) == 1:
        kw = calls[0]
        E.prove(bool(kw.get('preserve_functions')) == bool(preserve_all), 'user functions survive only with ALL')
        E.prove(bool(kw.get('preserve_deftype')) == bool(merge), 'the DEFtype table survives only with MERGE')
        E.prove(bool(kw.get('preserve_base')) == bool(commons or preserve_all), 'OPTION BASE survives only with COMMON variables or ALL')


def t_chain_missing_file(E, merge, preserve_all):
    """CHAIN to a program that cannot be opened: the error is raised before anything is cleared (the COMMON and
    all other variables, the ON ERROR trap and the user functions are still there for the error handler)."""
    from pcbasic.basic import implementation
    from .C16 import Spy
    log = []
    impl = object.__new__(implementation.Implementation)
    impl.program = Spy('program', log, {'protected': False, 'line_numbers': {10: 1}})
    class _Itp(object):
        _pyvc_trusted = True
        def gather_commons(self):
            return set([b'A!']), set()
    class _Files(object):
        _pyvc_trusted = True
        def open(self, *a, **kw):
            log.append(('files.open', a))
            raise BASICError(error.FILE_NOT_FOUND)
    impl.interpreter = _Itp()
    impl.memory = Spy('memory', log)
    impl.files = _Files()
    impl.strings = Spy('strings', log)
    calls = []
    if E.mode == 'symbolic':
        E.interp.contracts[implementation.Implementation._clear_all] = lambda I, args, kw: calls.append(dict(kw))
    else:
        impl._clear_all = lambda **kw: calls.append(dict(kw))
    vals = values_env(with_strings=True)
    name = vals.new_string()
    E.call(name.from_str, b'NOSUCH')
    r = E.call(impl.chain_, iter([merge, name, None, preserve_all, None]))
    E.prove(r.is_error(BASICError, error.FILE_NOT_FOUND), 'File not found is reported')
    E.prove(calls == [], 'nothing has been cleared')
    E.prove([x for x in log if x[0].startswith('memory') or x[0].startswith('program.')] == [], 'memory and program untouched')


TASKS = [
    Task('DataSegment.preserve_commons (CHAIN with COMMON / ALL)', t_chain_commons,
         cases=[{'preserve_all': a, 'new_size': n} for a in (False, True) for n in (100, 40, 300)]),
    Task('Implementation.clear_', t_clear),
    Task('Implementation.new_', t_new),
    Task('Implementation.run_', t_run),
    Task('Interpreter.clear', t_interpreter_clear),
    Task('UserFunctionManager.clear (no function survives a reset)', t_functions_cleared, cases=[{'called_before': c} for c in (False, True)]),
    Task('Implementation.chain_ (what _clear_all may keep)', t_chain_flags,
         cases=[{'merge': m, 'preserve_all': a, 'commons': c} for m in (False, True) for a in (False, True) for c in (False, True)]),
    Task('Implementation.chain_ (program file cannot be opened)', t_chain_missing_file,
         cases=[{'merge': m, 'preserve_all': a} for m in (False, True) for a in (False, True)]),
]

ASSUMPTIONS = [
    'devices (files, sound, graphics, stick, display), the program object, the code stream and the event table are '
    'recording stand-ins; Interpreter.set_pointer is replaced by its effect on run_mode',
    'the populated state is one concrete scenario (one of each kind of state); the reset code does not depend on how much state exists',
]
NOT_COVERED = ['CHAIN / COMMON (preserve_commons, gather_commons)', 'FIELD buffers', 'CLEAR with memory/stack size arguments']
