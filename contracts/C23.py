"""
C23 - RUN, CLEAR and NEW reset state (CHAIN/COMMON not covered here).

Under contract (real source): Interpreter.clear / clear_stacks_and_pointers / _clear_stacks /
_init_error_trapping (interpreter.py), Implementation._clear_all / clear_ / new_ / run_
(implementation.py), DataSegment.clear / clear_deftype (memory/memory.py) with the real
Scalars.clear, Arrays.clear / clear_base, StringSpace.clear, UserFunctionManager.clear,
Randomiser.clear, BasicEvents.reset.
Postcondition from the statement, on a state populated with variables, arrays, strings, DEF FN,
DEFtype, OPTION BASE, FOR/WHILE/GOSUB stacks, an error trap, an event trap and a random state:
after CLEAR / NEW / RUN none of them survives. Devices (files, sound, graphics, stick, display)
are recording stand-ins.
"""

from .common import *
from pcbasic.basic import implementation, interpreter as interp_mod, basicevents
from pcbasic.basic.memory import memory as memory_mod
from pcbasic.basic.parser import userfunctions
from pcbasic.basic.values import randomiser

PROPERTY = 'C23'


class _Rec(object):
    _pyvc_trusted = True
    def __init__(self, name='dev'):
        object.__setattr__(self, 'log', [])
        object.__setattr__(self, '_name', name)
    def __getattr__(self, k):
        if k.startswith('__'):
            raise AttributeError(k)
        def f(*a, **kw):
            self.log.append((k, a))
            return None
        return f


class _Prog(object):
    _pyvc_trusted = True
    def __init__(self):
        self.line_numbers = {10: 1, 65536: 20}
        self.erased = 0
        self.bytecode = _Rec('bytecode')
    def size(self):
        return 100
    def erase(self):
        self.erased += 1
    protected = False


class _Handler(object):
    _pyvc_trusted = True
    def __init__(self):
        self.reset_calls = 0
        self.enabled, self.stopped, self.triggered, self.gosub = True, True, True, 500
    def reset(self):
        self.reset_calls += 1
        self.enabled, self.stopped, self.triggered, self.gosub = False, False, False, None


class _Events(object):
    _pyvc_trusted = True
    def __init__(self):
        self.h = _Handler()
        self.all = [self.h]
        self.suspend_all = True
        self.resets = 0
    def reset(self):
        self.resets += 1
        self.h.reset()
        self.suspend_all = False


def _populated(E):
    ds = E.new(memory_mod.DataSegment, 65534, 3429, 128, 3, False)
    prog = _Prog()
    ds.set_buffers(prog)
    ds.values.set_handler(values.FloatErrorHandler(None))
    v = E.new(numbers.Integer, E.bytes('a', 2), ds.values)
    E.call(ds.scalars.set, b'A%', v)
    E.call(ds.arrays.allocate, b'X!', [3])
    E.call(ds.strings.store, b'HELLO')
    ds.deftype[3] = b'%'
    E.call(ds.arrays.option_base_, [1]) if ds.arrays._base is None else None
    it = object.__new__(interp_mod.Interpreter)
    it._basic_events = _Events()
    it._program_code = _Rec('code')
    it._cursor = _Rec('cursor')
    it.for_stack = [(b'I%', None, None, 1, 5, 9)]
    it.while_stack = [(3, 7)]
    it.gosub_stack = [(11, True, None)]
    it.on_error = 100
    it.error_handle_mode = True
    it.error_resume = (5, True)
    it.error_num, it.error_pos = 11, 42
    it.stop_pos = 77
    it.data_pos = 33
    it.run_mode = True
    it.parse_mode = True
    it.tron = True
    if E.mode == 'symbolic':
        E.interp.contracts[interp_mod.Interpreter.set_pointer] = \
            lambda I, args, kw: setattr(args[0], 'run_mode', args[1])
    else:
        it.set_pointer = lambda mode, pos=None: setattr(it, 'run_mode', mode)
    rnd = object.__new__(randomiser.Randomiser)
    rnd._values = ds.values
    rnd._seed = E.int('seed', 0, (1 << 24) - 1)
    fns = object.__new__(userfunctions.UserFunctionManager)
    fns._fn_dict = {b'FNA!': object()}
    impl = object.__new__(implementation.Implementation)
    impl.memory = ds
    impl.interpreter = it
    impl.program = prog
    impl.randomiser = rnd
    impl.parser = _Rec('parser')
    object.__setattr__(impl.parser, 'user_functions', fns)
    impl.files, impl.sound, impl.graphics, impl.stick, impl.display = (_Rec(n) for n in
                                                                        ('files', 'sound', 'graphics', 'stick', 'display'))
    return impl, ds, it, rnd, fns, prog


def _all_reset(E, impl, ds, it, rnd, fns, what):
    E.prove(len(ds.scalars._vars) == 0 and len(ds.scalars._var_memory) == 0 and ds.scalars.current == 0,
            what + ': no scalar variable survives')
    E.prove(len(ds.arrays._dims) == 0 and len(ds.arrays._buffers) == 0 and ds.arrays.current == 0,
            what + ': no array survives')
    E.prove(len(ds.strings._strings) == 0 and ds.strings.current == ds.stack_start(), what + ': string space is empty')
    E.prove(ds.deftype == [b'!'] * 26, what + ': DEFtype is back to single for every letter')
    E.prove(ds.arrays._base is None, what + ': OPTION BASE is unset')
    E.prove(len(fns._fn_dict) == 0, what + ': no DEF FN survives')
    E.prove(it.for_stack == [] and it.while_stack == [], what + ': FOR and WHILE stacks are empty')
    E.prove(it.gosub_stack == [], what + ': the subroutine stack is empty')
    E.prove(it.on_error is None or it.on_error == 0, what + ': no error trap is set')
    E.prove(it.error_handle_mode is False and it.error_resume is None, what + ': no error handler is active')
    E.prove(it.error_num == 0, what + ': ERR is reset')
    h = it._basic_events.h
    E.prove(h.enabled is False and h.gosub is None and it._basic_events.suspend_all is False,
            what + ': event traps are off')
    E.prove(rnd._seed == 5228370, what + ': the random sequence restarts')
    E.prove(it.data_pos == 0 and it.stop_pos is None, what + ': DATA pointer and CONT position reset')


def t_clear(E):
    impl, ds, it, rnd, fns, prog = _populated(E)
    r = E.call(impl.clear_, iter([None, None, None, None]))
    E.prove(not r.raised, 'CLEAR succeeds')
    _all_reset(E, impl, ds, it, rnd, fns, 'CLEAR')
    E.prove(prog.erased == 0, 'CLEAR keeps the program')


def t_new(E):
    impl, ds, it, rnd, fns, prog = _populated(E)
    r = E.call(impl.new_, iter([]))
    E.prove(not r.raised, 'NEW succeeds')
    _all_reset(E, impl, ds, it, rnd, fns, 'NEW')
    E.prove(prog.erased == 1 and it.tron is False and it.run_mode is False, 'NEW erases the program and stops')


def t_run(E):
    impl, ds, it, rnd, fns, prog = _populated(E)
    r = E.call(impl.run_, iter([None]))
    E.prove(not r.raised, 'RUN succeeds')
    _all_reset(E, impl, ds, it, rnd, fns, 'RUN')
    E.prove(('close_all', ()) in impl.files.log, 'RUN closes all files')
    E.prove(it.run_mode is True, 'RUN starts the program')


def t_interpreter_clear(E):
    impl, ds, it, rnd, fns, prog = _populated(E)
    E.call(it.clear)
    E.prove(it.for_stack == [] and it.while_stack == [] and it.gosub_stack == [], 'all three stacks are dumped')
    E.prove(it.on_error is None and it.error_handle_mode is False and it.error_resume is None, 'error trapping off')
    E.prove(it._basic_events.resets == 1, 'event traps reset')


TASKS = [
    Task('Implementation.clear_', t_clear),
    Task('Implementation.new_', t_new),
    Task('Implementation.run_', t_run),
    Task('Interpreter.clear', t_interpreter_clear),
]

ASSUMPTIONS = [
    'devices (files, sound, graphics, stick, display), the program object, the code stream and the event table are '
    'recording stand-ins; Interpreter.set_pointer is replaced by its effect on run_mode',
    'the populated state is one concrete scenario (one of each kind of state); the reset code does not depend on how much state exists',
]
NOT_COVERED = ['CHAIN / COMMON (preserve_commons, gather_commons)', 'FIELD buffers', 'CLEAR with memory/stack size arguments']
