"""
C12 - Array subscripts address distinct elements within declared bounds.

Under contract (real source): Arrays.index / flat_length / _buffer_size / _record_size /
allocate / check_dim / view_buffer / erase_ / option_base_ / clear_base / dim_.

Ranks 1..4 are separate cases (the loops over dimensions are then unrolled); bounds and
subscripts are *symbolic* integers up to 32767 (no bound of 30), OPTION BASE 0 and 1.
  * index is < flat_length and >= 0 for every in-bounds tuple, and injective on in-bounds
    tuples (nonlinear integer arithmetic, z3)
  * view_buffer returns exactly the slice [index*size, (index+1)*size) of the array's buffer
    (no clamping), hence distinct in-bounds tuples get disjoint element storage
  * check_dim raises Subscript out of range / Illegal function call exactly for invalid
    tuples, touches no element, auto-dimensions undeclared arrays to 10 per dimension
  * allocate: Duplicate definition iff already dimensioned; erase_ frees the name again
Array buffers have symbolic length (content not modelled; only bounds matter here).
"""

from .common import *
from pcbasic.basic.memory import arrays as arrays_mod

PROPERTY = 'C12'

MAXD = 32767


class _Mem(StubMemory):
    def complete_name(self, name):
        return name
    def var_current(self):
        return 7000
    strings = None


def _arrays(base, base_by_dim=False, E=None):
    """An Arrays object built by its real constructor, then put into the given base state."""
    if E is not None:
        a = E.new(arrays_mod.Arrays, _Mem(), values_env())
    else:
        a = arrays_mod.Arrays(_Mem(), values_env())
    a._base = base
    a._base_set_by_dim = base_by_dim
    return a


def _dims(E, rank, base, name='d'):
    return [E.int('%s%d' % (name, i), base, MAXD) for i in range(rank)]


def _in_bounds(ix, dims, base):
    return And(*[And(i >= base, i <= d) for i, d in zip(ix, dims)])


def t_index(E, rank, base, history=False, maxd=MAXD):
    arr = _arrays(base, E=E)
    if history:
        # the same shape was used earlier in the session under the other OPTION BASE (then CLEAR)
        other = 1 - base
        arr._base = other
        hd = [E.int('h%d' % i, other, maxd) for i in range(rank)]
        E.call(arr.allocate, b'H!', hd)
        E.call(arr.index, [other] * rank, hd)
        E.call(arr.flat_length, hd)
        E.call(arr.clear)
        E.call(arr.clear_base)
        E.call(arr.option_base_, [base])
        dims = hd
        E.assume(And(*[d >= base for d in dims]))
    else:
        dims = _dims(E, rank, base)
    a = [E.int('a%d' % i, 0, MAXD) for i in range(rank)]
    b = [E.int('b%d' % i, 0, MAXD) for i in range(rank)]
    E.assume(_in_bounds(a, dims, base))
    E.assume(_in_bounds(b, dims, base))
    ia = E.call(arr.index, a, dims)
    ib = E.call(arr.index, b, dims)
    fl = E.call(arr.flat_length, dims)
    E.prove(not ia.raised and not ib.raised and not fl.raised, 'never raises')
    if ia.raised or ib.raised or fl.raised:
        return
    E.prove(And(ia.value >= 0, ia.value < fl.value), 'flat index within [0, number of elements)')
    differ = Or(*[x != y for x, y in zip(a, b)])
    E.prove(Implies(differ, ia.value != ib.value), 'distinct subscript tuples address distinct elements')
    n = 1
    for d in dims:
        n = n * (d + 1 - base)
    E.prove(fl.value == n, 'number of elements is the product of the extents')
    E.canary(ia.value == ib.value, 'canary: all tuples collide')


def t_view_buffer(E, rank, base, name):
    arr = _arrays(base, E=E)
    dims = _dims(E, rank, base)
    size = values.size_bytes(name)
    out = E.call(arr.allocate, name, dims)
    E.prove(not out.raised, 'allocation of a fresh name with valid bounds succeeds')
    if out.raised:
        return
    ix = [E.int('i%d' % i, 0, MAXD) for i in range(rank)]
    E.assume(_in_bounds(ix, dims, base))
    buf = arr._buffers[name]
    fl = E.call(arr.flat_length, dims).value
    E.prove(buf.length() == fl * size, 'buffer holds one slot of the type size per element')
    r = E.call(arr.view_buffer, name, ix)
    E.prove(not r.raised, 'in-bounds subscripts never raise')
    if r.raised:
        return
    v = r.value
    big = E.call(arr.index, ix, dims).value
    E.prove(isinstance(v, SRegion) and v.root is buf, 'a view on the array buffer')
    E.prove(And(v.off == big * size, v.n == size), 'exactly the element slot [index*size, (index+1)*size)')
    E.prove(And(v.off >= 0, v.off + v.n <= buf.length()), 'inside the buffer')
    E.prove(buf.writes == [], 'no element changed')


def t_check_dim(E, rank, base, declared):
    """Error behaviour of subscripts (check_dim is what every array access goes through)."""
    arr = _arrays(base, E=E)
    name = b'A!'
    if declared:
        dims = _dims(E, rank, base)
        E.call(arr.allocate, name, dims)
    else:
        dims = [10] * rank
    given = E.choice('given_rank', [r for r in (1, 2, 3, 4) if abs(r - rank) <= 1])
    ix = [E.int('i%d' % i, -MAXD - 1, MAXD) for i in range(given)]
    r = E.call(arr.check_dim, name, ix)
    if not declared:
        # undeclared arrays are dimensioned to 10 per subscript *given* on first use
        dims = [10] * given
        E.prove(arr._dims.get(name) == dims, 'undeclared array dimensioned 0/1..10 on first use')
        wrong_rank = False
    else:
        wrong_rank = given != rank
    anyneg = Or(*[i < 0 for i in ix])
    if wrong_rank:
        invalid = True
    else:
        invalid = Or(*[Or(i < base, i > d) for i, d in zip(ix, dims)])
    if r.raised:
        E.cover('raises')
        E.prove(isinstance(r.exc, BASICError), 'only BASIC errors')
        E.prove(invalid, 'errors only for invalid subscripts')
        if r.is_error(BASICError, error.IFC):
            E.prove(anyneg, 'Illegal function call only with a negative subscript')
        else:
            E.prove(r.is_error(BASICError, error.SUBSCRIPT_OUT_OF_RANGE), 'otherwise Subscript out of range')
    else:
        E.cover('returns')
        E.prove(Not(invalid), 'invalid subscripts must raise')
        E.prove(r.value[0] == dims and r.value[1] is arr._buffers[name], 'returns the dimensions and the buffer')
    E.prove(Implies(And(invalid, Not(anyneg)), r.is_error(BASICError, error.SUBSCRIPT_OUT_OF_RANGE)),
            'out of range or wrong number of subscripts (none negative): Subscript out of range')
    buf = arr._buffers.get(name)
    E.prove(buf is None or buf.writes == [], 'no element changed') if isinstance(buf, SRegion) else None


class _FullMem(_Mem):
    _pyvc_trusted = True
    """Memory that has no room: check_free raises the error it is given."""
    full = True
    def check_free(self, size, err):
        if self.full:
            raise BASICError(err)


def t_allocate_out_of_memory(E, rank, base_state):
    """A DIM that fails with Out of memory leaves no trace of the array: it can be dimensioned again."""
    arr = _arrays(base_state, E=E)
    arr._memory = _FullMem()
    name = b'B%'
    dims = [E.int('d%d' % i, 1, MAXD) for i in range(rank)]
    cur0 = arr.current
    r = E.call(arr.allocate, name, dims)
    E.prove(r.is_error(BASICError, error.OUT_OF_MEMORY), 'no room: Out of memory')
    E.prove(name not in arr._dims and name not in arr._buffers and name not in arr._array_memory,
            'the array is not registered in any of the tables')
    E.prove(arr.current == cur0, 'nothing allocated')
    E.prove(not (name in arr), 'the array does not exist')
    arr._memory.full = False
    r2 = E.call(arr.allocate, name, [2] * rank)
    E.prove(not r2.raised, 'and can be dimensioned once there is room')
    if not r2.raised:
        ok = E.call(arr.check_dim, name, [2] * rank)
        E.prove(not ok.raised, 'with working subscripts')


def t_allocate(E, rank, base_state):
    """base_state: None (unset), 0, 1."""
    arr = _arrays(base_state, E=E)
    name = b'B%'
    dims = [E.int('d%d' % i, -5, MAXD) for i in range(rank)]
    exists = E.bool('exists')
    if bool(exists):
        if base_state is None:
            arr._base = 0
            arr._base_set_by_dim = True
        arr._dims[name] = [3]
        arr._buffers[name] = bytearray(8)
        arr._array_memory[name] = (0, 9)
        arr.current = 17
    base0 = arr._base
    cur0 = arr.current
    r = E.call(arr.allocate, name, dims)
    anyneg = Or(*[d < 0 for d in dims])
    below = Or(*[d < base0 for d in dims]) if base0 is not None else False
    if r.raised:
        E.cover('raises')
        if bool(exists):
            E.prove(r.is_error(BASICError, error.DUPLICATE_DEFINITION), 'redimensioning raises Duplicate definition')
        elif r.is_error(BASICError, error.IFC):
            E.prove(anyneg, 'Illegal function call only for a negative bound')
            E.prove(arr._base == base0, 'a failing DIM does not set the array base')
        else:
            E.prove(r.is_error(BASICError, error.SUBSCRIPT_OUT_OF_RANGE) and below,
                    'Subscript out of range only for a bound below OPTION BASE')
        E.prove(arr.current == cur0, 'nothing allocated on error')
    else:
        E.cover('returns')
        E.prove(not bool(exists), 'existing array must not be redimensioned')
        E.prove(And(Not(anyneg), Not(below)), 'invalid bounds must raise')
        E.prove(arr._dims.get(name) == dims, 'dimensions recorded')
        E.prove(arr._base == (0 if base0 is None else base0), 'DIM sets an unset base to 0')
        np_, ap = arr._array_memory[name]
        rec = 1 + max(3, len(name)) + 3 + 2 * rank
        E.prove(And(np_ == cur0, ap == cur0 + rec), 'record placed at the end of array memory')
        fl = 1
        b = arr._base
        for d in dims:
            fl = fl * (d + 1 - b)
        E.prove(arr._buffers[name].length() == fl * 2, 'buffer size is elements * type size')
        E.prove(arr.current == cur0 + rec + fl * 2, 'array memory grows by record + buffer')


def t_erase(E, base):
    arr = _arrays(base, base_by_dim=E.bool('by_dim'), E=E)
    by_dim = arr._base_set_by_dim
    d1 = [E.int('p', base, 200)]
    d2 = [E.int('q', base, 200), E.int('r', base, 50)]
    d3 = [E.int('s', base, 200)]
    for nm, dd in ((b'A%', d1), (b'B!', d2), (b'C#', d3)):
        out = E.call(arr.allocate, nm, dd)
        if out.raised:
            raise Unsupported('setup allocate failed')
    mem0 = dict(arr._array_memory)
    cur0 = arr.current
    sizeB = E.call(arr.memory_size, b'B!', d2).value
    r = E.call(arr.erase_, [b'B!'])
    E.prove(not r.raised, 'erasing an existing array succeeds')
    E.prove(b'B!' not in arr._dims and b'B!' not in arr._buffers and b'B!' not in arr._array_memory,
            'the erased array is gone')
    E.prove(arr._array_memory[b'A%'] == mem0[b'A%'], 'arrays below the erased one stay in place')
    E.prove(And(arr._array_memory[b'C#'][0] == mem0[b'C#'][0] - sizeB,
                arr._array_memory[b'C#'][1] == mem0[b'C#'][1] - sizeB), 'arrays above move down by the freed size')
    E.prove(arr.current == cur0 - sizeB, 'array memory shrinks by the freed size')
    r2 = E.call(arr.allocate, b'B!', [E.int('t', base, 100)])
    E.prove(not r2.raised, 'an erased array can be dimensioned again')
    r3 = E.call(arr.erase_, [b'Z%'])
    E.prove(r3.is_error(BASICError, error.IFC), 'erasing an unknown array: Illegal function call')
    # erase all: base set implicitly by DIM is unset again, explicit OPTION BASE stays
    E.call(arr.erase_, [b'A%', b'B!', b'C#'])
    E.prove(arr._dims == {} and arr.current == 0, 'all arrays erased')
    if by_dim:
        E.prove(arr._base is None, 'implicit base is unset when the last array goes')
    else:
        E.prove(arr._base == base, 'explicit OPTION BASE stays')


def t_option_base(E, cur, new):
    arr = _arrays(cur, E=E)
    r = E.call(arr.option_base_, [new])
    if cur is not None and cur != new:
        E.prove(r.is_error(BASICError, error.DUPLICATE_DEFINITION), 'changing a set base: Duplicate definition')
        E.prove(arr._base == cur, 'base unchanged')
    else:
        E.prove(not r.raised and arr._base == new, 'base set')


def t_first_use_by_read(E, base):
    """DataSegment.view_or_create_variable (reading A(i) in an expression) goes through the same check as a
    store: an undeclared array is dimensioned 0/1..10 by its first use, even a failing one, and the
    subscript is judged against those bounds."""
    from .C10 import _segment
    ds = _segment(E)
    ds.arrays._base = base
    i = E.int('i', -3, 14)
    r = E.call(ds.view_or_create_variable, b'Q!', [i])
    E.prove(b'Q!' in ds.arrays._dims and ds.arrays._dims.get(b'Q!') == [10], 'an undeclared array is dimensioned 0/1..10 on first use, also by a read')
    lo = base or 0
    if bool(i < 0):
        E.prove(r.is_error(BASICError, error.IFC), 'negative subscript: Illegal function call')
    elif bool(Or(i < lo, i > 10)):
        E.prove(r.is_error(BASICError, error.SUBSCRIPT_OUT_OF_RANGE), 'outside the bounds: Subscript out of range')
    else:
        E.prove(not r.raised, 'inside the bounds: the element is read')
    r2 = E.call(ds.arrays.allocate, b'Q!', [20])
    E.prove(r2.is_error(BASICError, error.DUPLICATE_DEFINITION), 'DIM after the first use: Duplicate definition')


def t_parse_indices(E, n):
    """ExpressionParser.parse_indices hands the subscripts on as evaluated (negative ones included): which error
    a subscript gives is decided where the array is known (check_dim), after first-use dimensioning."""
    from pcbasic.basic.parser import expressions
    from pcbasic.basic.base import codestream
    vals = values_env()
    ep = object.__new__(expressions.ExpressionParser)
    ivals = [E.int('s%d' % k, -32768, 32767) for k in range(n)]
    queue = []
    for v in ivals:
        o = E.new(numbers.Integer, None, vals)
        E.call(o.from_int, v)
        queue.append(o)
    if E.mode == 'symbolic':
        E.interp.contracts[expressions.ExpressionParser.parse] = lambda I, args, kw: (args[1].read(1), queue.pop(0))[1]
    else:
        ep.parse = lambda ins: (ins.read(1), queue.pop(0))[1]
    ins = codestream.TokenisedStream()
    ins.write(b'(' + b','.join([b'x'] * n) + b') rest')
    ins.seek(0)
    r = E.call(ep.parse_indices, ins)
    E.prove(not r.raised, 'parsing subscripts raises nothing for any subscript value')
    if not r.raised:
        E.prove(len(r.value) == n and bool(And(*[a == b for a, b in zip(r.value, ivals)])), 'the subscripts are handed on as evaluated')


TASKS = [
    Task('Arrays.index', t_index, cases=[{'rank': r, 'base': b} for r in (1, 2, 3, 4) for b in (0, 1)]),
    Task('Arrays.index (same shape used earlier under the other base)', t_index,
         cases=[{'rank': r, 'base': b, 'history': True, 'maxd': m} for r in (1, 2, 3) for b in (0, 1) for m in (3, MAXD)]),
    Task('Arrays.view_buffer', t_view_buffer,
         cases=[{'rank': r, 'base': b, 'name': n} for r in (1, 2, 3) for b in (0, 1) for n in (b'A%', b'S$', b'D#')]),
    Task('Arrays.check_dim', t_check_dim, covers=('raises', 'returns'),
         cases=[{'rank': r, 'base': b, 'declared': d} for r in (1, 2, 3) for b in (0, 1) for d in (True, False)]),
    Task('Arrays.allocate (out of memory)', t_allocate_out_of_memory,
         cases=[{'rank': r, 'base_state': b} for r in (1, 3) for b in (None, 1)]),
    Task('Arrays.allocate', t_allocate, covers=('raises', 'returns'),
         cases=[{'rank': r, 'base_state': b} for r in (1, 2, 3) for b in (None, 0, 1)]),
    Task('Arrays.erase_', t_erase, cases=[{'base': b} for b in (0, 1)]),
    Task('Arrays.option_base_', t_option_base, cases=[{'cur': c, 'new': n} for c in (None, 0, 1) for n in (0, 1)]),
    Task('DataSegment.view_or_create_variable (first use by a read)', t_first_use_by_read, cases=[{'base': b} for b in (None, 0, 1)]),
    Task('ExpressionParser.parse_indices', t_parse_indices, cases=[{'n': n} for n in (1, 2, 3)]),
]

ASSUMPTIONS = [
    'DataSegment is a stand-in (complete_name is the identity on already completed names, check_free never fails)',
    'array buffers are regions of symbolic length; their content is not modelled (bounds and the set of writes are)',
    'ranks 1..4 (index) / 1..3 (others) are separate cases; bounds and subscripts are symbolic up to 32767',
]
NOT_COVERED = [
    'element values through get/set (type conversion is C03; string elements C10)',
    'parsing of subscripts and DIM argument lists',
]
