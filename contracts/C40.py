"""
C40 - A suspended session resumes exactly where it stopped (second clause only).

Under contract (real source): state.load_session (state.py).
The state file is (24-byte header, blob). The harness supplies a header of 24 *symbolic* bytes
and an arbitrary blob whose CRC-32 is an arbitrary 32-bit value c (zlib.crc32 is external and
only assumed to be a function); open / zlib / pickle are recording stand-ins.
Postcondition from the statement ("a state file that has been altered in any byte is rejected"):
  load_session returns  =>  the header equals pack('<LIIIII', c, *HEADER) in every byte,
  i.e. checksum, format version, Python version and PC-BASIC version all match;
  otherwise ValueError is raised and nothing is unpickled.
Together with the (assumed, standard) property of CRC-32 that a single-byte change of the blob
changes the checksum, every single-byte alteration of a state file is rejected.
The first clause (resume == uninterrupted run) is about pickling the whole object graph and is
not expressible as a contract here; it is not claimed.
"""

from .common import *
from pcbasic.basic import state
import zlib as _zlib
import pickle as _pickle
import builtins as _builtins

PROPERTY = 'C40'


class _File(object):
    _pyvc_trusted = True
    def __init__(self, header, blob):
        self.parts = [header, blob]
    def __enter__(self):
        return self
    def __exit__(self, *a):
        return False
    def read(self, n=-1):
        return self.parts.pop(0)


def t_load_session(E, short_header):
    if E.mode != 'symbolic':
        return _native(E, short_header)
    n = 20 if short_header else 24
    header = E.bytes('header', n, kind='bytes')
    blob = b'compressed-pickle'
    crc = E.int('crc32_of_blob', 0, 0xffffffff)
    log = []
    S = E.interp.summaries
    S[_builtins.open] = lambda I, args, kw: (log.append(('open', args)), _File(header, blob))[1]
    S[_zlib.crc32] = lambda I, args, kw: (log.append(('crc32', args[0])), crc)[1]
    S[_zlib.decompress] = lambda I, args, kw: (log.append(('decompress', args[0])), b'pickle')[1]
    S[state.pickle.loads] = lambda I, args, kw: (log.append(('loads', args[0])), 'SESSION')[1]
    r = E.call(state.load_session, 'state.file')
    H = state.HEADER
    want = [crc, H['format_version'], H['python_major'], H['python_minor'], H['pcbasic_major'], H['pcbasic_minor']]
    if short_header:
        E.prove(r.raised and isinstance(r.exc, ValueError), 'a truncated header is rejected')
        E.prove(not any(x[0] == 'loads' for x in log), 'nothing is unpickled')
        return
    cs = to_cells(header)
    fields = [assemble_le(cs[4*i:4*i+4]) for i in range(6)]
    matches = And(*[f == w for f, w in zip(fields, want)])
    if r.raised:
        E.cover('rejected')
        E.prove(isinstance(r.exc, ValueError), 'rejection is a ValueError')
        E.prove(Not(matches), 'an intact file is accepted')
        E.prove(not any(x[0] == 'loads' for x in log), 'nothing is unpickled from a rejected file')
    else:
        E.cover('accepted')
        E.prove(matches, 'accepted only if checksum, format version, Python version and PC-BASIC version all match the header')
        E.prove(r.value == 'SESSION' and ('crc32', blob) in log, 'the checksum is taken over the blob that is unpickled')
    E.canary(matches, 'canary: header always matches')


def _native(E, short_header):
    """Replay: write a real file with the model's header and a real blob."""
    import tempfile, os, struct
    blob = _zlib.compress(_pickle.dumps({'x': 1}))
    n = 20 if short_header else 24
    hdr = bytes(E.bytes('header', n, kind='bytes'))
    crc = E.int('crc32_of_blob', 0, 0xffffffff)
    real = _zlib.crc32(blob) & 0xffffffff
    # transplant: where the model's header carried the model's crc, use the real one
    if len(hdr) >= 4 and struct.unpack('<L', hdr[:4])[0] == crc:
        hdr = struct.pack('<L', real) + hdr[4:]
    d = tempfile.mkdtemp()
    fn = os.path.join(d, 's')
    with open(fn, 'wb') as f:
        f.write(hdr + blob)
    r = E.call(state.load_session, fn)
    os.remove(fn); os.rmdir(d)
    H = state.HEADER
    want = struct.pack(state.HEADER_FORMAT, real, H['format_version'], H['python_major'], H['python_minor'],
                       H['pcbasic_major'], H['pcbasic_minor'])
    E.prove(r.raised == (hdr != want), 'accepted only if checksum, format version, Python version and PC-BASIC version all match the header')


TASKS = [
    Task('state.load_session', t_load_session, cases=[{'short_header': s} for s in (False, True)],
         covers=('rejected', 'accepted')),
]

ASSUMPTIONS = [
    'open, zlib.crc32, zlib.decompress, pickle.loads are stand-ins; crc32 is only assumed to be a function of the blob '
    '(that it changes under every single-byte alteration is the standard CRC-32 property, not proved here)',
]
NOT_COVERED = ['first clause of the property: resuming produces the same behaviour as running uninterrupted (pickling of the whole session)']
