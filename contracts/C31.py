"""
C31 - Drawing primitives have their specified geometry (LINE, LINE ,B, LINE ,BF, PSET/POINT).

Under contract (real source, display/graphics.py): Graphics._draw_line (Bresenham loop, checked by
loop invariant for ALL endpoints), _draw_straight (loop invariant), _draw_box, _draw_box_filled,
_pset_preset, point_ (two-argument form). "Unclipped screen": all coordinates lie on the screen and
no VIEW is active; for the primitives the pixel buffer is a recording stand-in behind the viewport
interface, and the real GraphicsViewPort is checked separately to hand every on-screen pixel,
row, column or rectangle to the pixel buffer unchanged when no VIEW is set (clipping is C30).
Graphics.line_ (no WINDOW) is checked to pass the right endpoints: STEP on the second coordinate
is relative to the first endpoint, an omitted first coordinate is the graphics cursor.

_draw_line(x0, y0, x1, y1), solid pattern. In the code's working coordinates (endpoints ordered top
to bottom, axes swapped when steep; X the major axis, dX >= dY >= 0), with i iterations done and
j = |y - Y0| minor steps taken, the loop invariant is
        line_error = dX div 2 - i*dY + j*dX,   0 <= line_error < dX  (dX > 0),   0 <= j <= i,
        1 <= mask <= 0x8000
Consequences proved per arbitrary iteration i and on exit:
  * exactly one pixel is stored, at major = X0 + sX*i, minor = Y0 + sY*j, with the line's attribute
  * the minor coordinate moves by 0 or one step between consecutive pixels: 8-connected path
  * the number of iterations is max(|dx|, |dy|) + 1 and the major coordinates are all distinct:
    exactly max(|dx|,|dy|)+1 pixels
  * the first pixel is one endpoint; at the last iteration (i = dX) the invariant forces j = dY,
    so the last pixel is the other endpoint
LINE ,B: _draw_box issues exactly the four edges of the rectangle to _draw_straight, and
_draw_straight stores exactly the pixels of its edge (loop invariant); LINE ,BF: one store of exactly
the rectangle. PSET stores exactly one pixel, at the rounded coordinates, and POINT reads exactly
that pixel.
"""

from .common import *
from pcbasic.basic.display import graphics

PROPERTY = 'C31'

W, H = 640, 400


class _View(object):
    """Unclipped screen: records stores and loads by (row, column)."""
    _pyvc_trusted = True
    def __init__(self):
        self.stores = []
        self.loads = []
        self.width, self.height = W, H
    def cutoff_coord(self, x, y):
        return x, y
    def __setitem__(self, index, value):
        self.stores.append((index, value))
    def __getitem__(self, index):
        self.loads.append(index)
        return 5


def _graphics(E):
    g = object.__new__(graphics.Graphics)
    g.graph_view = _View()
    return g


def _pt(E, tag):
    return E.int(tag + 'x', 0, W - 1), E.int(tag + 'y', 0, H - 1)


def t_draw_line(E):
    g = _graphics(E)
    view = g.graph_view
    (x0, y0), (x1, y1) = _pt(E, 'p0'), _pt(E, 'p1')
    adx, ady = Abs(x1 - x0), Abs(y1 - y0)
    state = {}

    def geometry(L):
        # the code's working coordinates, read from its own locals before the loop
        return L['x0'], L['y0'], L['x1'], L['y1'], L['dx'], L['dy'], L['sx'], L['sy'], L['steep']

    def inv(L, i):
        X0, Y0, X1, Y1, dX, dY, sX, sY, steep = geometry(L)
        j = (L['y'] - Y0) * sY
        e = L['line_error']
        return And(e == dX // 2 - i * dY + j * dX, e >= 0, Or(e < dX, dX == 0), j >= 0, j <= i,
                   L['mask'] >= 1, L['mask'] <= 0x8000,
                   # facts about the set-up that the loop does not change
                   dX >= dY, dY >= 0, dX == Abs(X1 - X0), dY == Abs(Y1 - Y0))

    def iteration(before, after, i):
        E.cover('iteration')
        X0, Y0, X1, Y1, dX, dY, sX, sY, steep = geometry(before)
        n0 = len(state.setdefault('seen', []))
        stores = view.stores
        E.prove(len(stores) == 1, 'exactly one pixel is stored per iteration')
        if len(stores) != 1:
            return
        (r, c), val = stores[0]
        major, minor = X0 + sX * i, before['y']
        if steep:
            E.prove(And(r == major, c == minor), 'the pixel is at (minor, major) of the swapped axes')
        else:
            E.prove(And(r == minor, c == major), 'the pixel is at (major, minor)')
        E.prove(val == 3, 'in the attribute of the line')
        step = (after['y'] - before['y']) * sY
        E.prove(Or(step == 0, step == 1), 'the minor coordinate moves by at most one step: the path is 8-connected')
        E.prove(Implies(i == 0, And(major == X0, minor == Y0)), 'the first pixel is an endpoint')
        E.prove(Implies(i == dX, And(major == X1, minor == Y1)), 'the last pixel is the other endpoint')
        # endpoints in original coordinates: the working endpoints are the given ones (ordered / swapped)
        a = (Y0, X0) if steep else (X0, Y0)
        b = (Y1, X1) if steep else (X1, Y1)
        E.prove(Or(And(a[0] == x0, a[1] == y0, b[0] == x1, b[1] == y1), And(a[0] == x1, a[1] == y1, b[0] == x0, b[1] == y0)),
                'the working endpoints are the two given endpoints')

    def on_exit(L, n):
        E.cover('exit')
        X0, Y0, X1, Y1, dX, dY, sX, sY, steep = geometry(L)
        E.prove(n == Max(adx, ady) + 1, 'the loop runs max(|dx|, |dy|) + 1 times, one pixel each, all at different major coordinates')

    E.interp.loop_contracts['_draw_line'] = {'invariant': inv, 'iteration': iteration, 'exit': on_exit}
    r = E.call(g._draw_line, x0, y0, x1, y1, 3)
    E.prove(not r.raised, 'never raises')


def t_draw_line_native(E):
    """The same statement checked directly on sampled endpoints (bounded cross-check of the contract)."""
    g = _graphics(E)
    (x0, y0), (x1, y1) = _pt(E, 'p0'), _pt(E, 'p1')
    g._draw_line(x0, y0, x1, y1, 3)
    px = [(c, r) for (r, c), v in g.graph_view.stores]
    E.prove(len(px) == max(abs(x1 - x0), abs(y1 - y0)) + 1 and len(set(px)) == len(px), 'exactly max(|dx|,|dy|)+1 distinct pixels')
    E.prove((x0, y0) in px and (x1, y1) in px, 'both endpoints are set')
    E.prove(all(max(abs(a[0] - b[0]), abs(a[1] - b[1])) == 1 for a, b in zip(px, px[1:])), '8-connected path')


def t_draw_straight(E, horizontal):
    g = _graphics(E)
    view = g.graph_view
    p0, p1 = E.int('p0', 0, W - 1), E.int('p1', 0, W - 1)
    q = E.int('q', 0, H - 1)
    mask0 = E.choice('mask', [0x8000 >> k for k in range(16)])
    if horizontal:
        E.assume(p0 != p1)     # a single point is treated as vertical by the code

    def inv(L, i):
        return And(L['mask'] >= 1, L['mask'] <= 0x8000)

    def iteration(before, after, i):
        E.cover('iteration')
        stores = view.stores
        E.prove(len(stores) == 1, 'exactly one pixel per iteration')
        if len(stores) != 1:
            return
        (r, c), val = stores[0]
        p = before['p0'] + before['sp'] * i
        E.prove(And(r == q, c == p) if horizontal else And(r == p, c == q), 'pixel i of the edge, on the fixed coordinate')
        E.prove(And(p >= Min(p0, p1), p <= Max(p0, p1)), 'between the two ends')
        E.prove(val == 3, 'in the given attribute')

    def on_exit(L, n):
        E.cover('exit')
        E.prove(n == Abs(p1 - p0) + 1, 'every pixel between the ends, ends included, exactly once')

    E.interp.loop_contracts['_draw_straight'] = {'invariant': inv, 'iteration': iteration, 'exit': on_exit}
    if horizontal:
        r = E.call(g._draw_straight, p0, q, p1, q, 3, 0xffff, mask0)
    else:
        r = E.call(g._draw_straight, q, p0, q, p1, 3, 0xffff, mask0)
    E.prove(not r.raised, 'never raises')
    if not r.raised:
        E.prove(And(r.value >= 1, r.value <= 0x8000), 'the pattern mask handed on stays a single bit')


def t_draw_box(E):
    g = _graphics(E)
    (x0, y0), (x1, y1) = _pt(E, 'p0'), _pt(E, 'p1')
    calls = []
    if E.mode == 'symbolic':
        E.interp.contracts[graphics.Graphics._draw_straight] = lambda I, args, kw: (calls.append(tuple(args[1:6])), 0x8000)[1]
    else:
        g._draw_straight = lambda *a: (calls.append(tuple(a[:5])), 0x8000)[1]
    r = E.call(g._draw_box, x0, y0, x1, y1, 3)
    E.prove(not r.raised and len(calls) == 4, 'four edges')
    if r.raised or len(calls) != 4:
        return
    xa, xb, ya, yb = Min(x0, x1), Max(x0, x1), Min(y0, y1), Max(y0, y1)
    def edge(c):
        ax, ay, bx, by, attr = c
        return (Min(ax, bx), Min(ay, by), Max(ax, bx), Max(ay, by))
    es = [edge(c) for c in calls]
    def is_(e, t):
        return And(*[a == b for a, b in zip(e, t)])
    top, bottom = (xa, ya, xb, ya), (xa, yb, xb, yb)
    left, right = (xa, ya, xa, yb), (xb, ya, xb, yb)
    for name, t in (('top', top), ('bottom', bottom), ('left', left), ('right', right)):
        E.prove(Or(*[is_(e, t) for e in es]), 'the %s edge of the rectangle is drawn' % name)
    for e in es:
        E.prove(Or(*[is_(e, t) for t in (top, bottom, left, right)]), 'and nothing but the four edges')
    E.prove(And(*[c[4] == 3 for c in calls]), 'in the given attribute')


def t_draw_box_filled(E):
    g = _graphics(E)
    (x0, y0), (x1, y1) = _pt(E, 'p0'), _pt(E, 'p1')
    r = E.call(g._draw_box_filled, x0, y0, x1, y1, 3)
    st = g.graph_view.stores
    E.prove(not r.raised and len(st) == 1, 'one store')
    if r.raised or len(st) != 1:
        return
    (ys, xs), val = st[0]
    E.prove(And(ys.start == Min(y0, y1), ys.stop == Max(y0, y1) + 1, xs.start == Min(x0, x1), xs.stop == Max(x0, x1) + 1),
            'exactly the rows and columns of the rectangle')
    E.prove(val == 3 and ys.step is None and xs.step is None, 'filled with the attribute')


class _Mode(object):
    _pyvc_trusted = True
    is_text_mode = False
    pixel_width, pixel_height = W, H


def t_pset_point(E):
    g = _graphics(E)
    g._mode = _Mode()
    g._window = None
    g._window_bounds = None
    g._values = values_env()
    g._num_attr = 16
    g._last_point = (0, 0)
    X, Y = _pt(E, 'p')
    attr = E.int('attr', 1, 15)
    coords = [X, Y]
    if E.mode == 'symbolic':
        E.interp.contracts[values.to_single] = lambda I, args, kw: args[0]
        E.interp.contracts[values.pass_number] = lambda I, args, kw: args[0]
    class _Arg(object):
        _pyvc_trusted = True
        def __init__(self, v):
            self.v = v
        def to_value(self):
            return self.v
    ai = E.new(numbers.Integer, None, g._values)
    E.call(ai.from_int, attr)
    r = E.call(g._pset_preset, iter([False, _Arg(X), _Arg(Y), ai]), -1)
    E.prove(not r.raised, 'PSET succeeds on the screen')
    st = g.graph_view.stores
    E.prove(len(st) == 1, 'PSET stores exactly one pixel')
    if len(st) == 1:
        (row, col), val = st[0]
        E.prove(And(row == Y, col == X, val == attr), 'at the given position with the given attribute')
    r = E.call(g.point_, iter([_Arg(X), _Arg(Y)]))
    E.prove(not r.raised, 'POINT succeeds')
    ld = g.graph_view.loads
    E.prove(len(ld) == 1 and bool(And(ld[0][0] == Y, ld[0][1] == X)) if len(ld) == 1 else False, 'POINT reads exactly that pixel')
    if not r.raised:
        E.prove(s16(r.value) == 5, 'and returns what the pixel buffer holds')


# ---------------------------------------------------------------------------
# the real viewport on an unclipped screen: what is stored is what was asked for

class _Pixels(object):
    """Pixel buffer stand-in behind the real GraphicsViewPort: records stores and loads."""
    _pyvc_trusted = True
    def __init__(self, width, height):
        self.width, self.height = width, height
        self.stores, self.loads = [], []
    def __setitem__(self, index, data):
        self.stores.append((index, data))
    def __getitem__(self, index):
        self.loads.append(index)
        return 5


def _rect_of(index):
    ys, xs = index
    def ends(c):
        if isinstance(c, slice):
            if c.step is not None:
                raise Unsupported('stepped slice')
            return c.start, c.stop
        return c, c + 1
    (ya, yb), (xa, xb) = ends(ys), ends(xs)
    return ya, yb, xa, xb


def t_viewport_unclipped(E, how, form):
    """No VIEW: view[y, x] = a / view[y0:y1+1, x0:x1+1] = a reach the pixel buffer as exactly
    that pixel / rectangle, for every on-screen position; view[y, x] reads exactly that pixel."""
    Wd = E.int('width', 8, 1024)
    Ht = E.int('height', 8, 1024)
    px = _Pixels(Wd, Ht)
    v = E.new(graphics.GraphicsViewPort, px)
    if how == 'unset':
        v._rect = (3, 3, 5, 5); v._active = True; v._absolute = True
        E.call(v.unset)
    xa = E.int('xa', 0, 1023); xb = E.int('xb', 0, 1023)
    ya = E.int('ya', 0, 1023); yb = E.int('yb', 0, 1023)
    E.assume(And(xa <= xb, xb < Wd, ya <= yb, yb < Ht))
    if form == 'point':
        index, want = (ya, xa), (ya, ya + 1, xa, xa + 1)
    elif form == 'row':
        index, want = (ya, slice(xa, xb + 1)), (ya, ya + 1, xa, xb + 1)
    elif form == 'column':
        index, want = (slice(ya, yb + 1), xa), (ya, yb + 1, xa, xa + 1)
    else:
        index, want = (slice(ya, yb + 1), slice(xa, xb + 1)), (ya, yb + 1, xa, xb + 1)
    r = E.call(v.__setitem__, index, 7)
    E.prove(not r.raised, 'never raises')
    E.prove(len(px.stores) == 1, 'an on-screen pixel / rectangle is stored (one store)')
    if len(px.stores) == 1:
        got = _rect_of(px.stores[0][0])
        E.prove(And(*[a == b for a, b in zip(got, want)]), 'exactly the pixels asked for reach the pixel buffer')
        E.prove(px.stores[0][1] == 7, 'with the given attribute')
    if form == 'point':
        r = E.call(v.__getitem__, index)
        E.prove(not r.raised and len(px.loads) == 1, 'one load')
        if len(px.loads) == 1:
            got = _rect_of(px.loads[0])
            E.prove(And(*[a == b for a, b in zip(got, want)]), 'a pixel read is a read of exactly that pixel')


# ---------------------------------------------------------------------------
# the LINE statement: which endpoints reach the drawing primitives

class _Arg(object):
    _pyvc_trusted = True
    def __init__(self, v):
        self.v = v
    def to_value(self):
        return self.v


def t_line_statement(E, first, step1, shape):
    """LINE [[STEP](x0,y0)]-[STEP](x1,y1)[,[attr][,B[F]]] without WINDOW: the first endpoint is (x0,y0),
    the graphics cursor plus (x0,y0) with STEP, or the graphics cursor when omitted; the second is
    (x1,y1), or the FIRST endpoint plus (x1,y1) with STEP; the primitive for the shape is called once
    with these endpoints, and the graphics cursor ends at the second endpoint."""
    g = _graphics(E)
    g._mode = _Mode()
    g._window = None
    g._window_bounds = None
    g._values = values_env()
    g._num_attr = 16
    g._attr = 7
    lx, ly = E.int('lastx', -2000, 2000), E.int('lasty', -2000, 2000)
    g._last_point = (lx, ly)
    g._draw_current = 1
    X0, Y0 = E.int('x0', -2000, 2000), E.int('y0', -2000, 2000)
    X1, Y1 = E.int('x1', -2000, 2000), E.int('y1', -2000, 2000)
    calls = []
    if E.mode == 'symbolic':
        E.interp.contracts[values.to_single] = lambda I, args, kw: args[0]
        E.interp.contracts[values.to_int] = lambda I, args, kw: args[0]
        for name in ('_draw_line', '_draw_box', '_draw_box_filled'):
            E.interp.contracts[getattr(graphics.Graphics, name)] = (lambda nm: lambda I, args, kw: calls.append((nm,) + tuple(args[1:6])))(name)
    else:
        raise Unsupported('symbolic only')
    if first == 'omitted':
        a0 = [None, None, None]
        p0 = (lx, ly)
    elif first == 'step':
        a0 = [True, _Arg(X0), _Arg(Y0)]
        p0 = (lx + X0, ly + Y0)
    else:
        a0 = [False, _Arg(X0), _Arg(Y0)]
        p0 = (X0, Y0)
    p1 = (p0[0] + X1, p0[1] + Y1) if step1 else (X1, Y1)
    r = E.call(g.line_, iter(a0 + [step1, _Arg(X1), _Arg(Y1), 3, shape, None]))
    E.prove(not r.raised, 'LINE succeeds')
    E.prove(len(calls) == 1, 'one primitive is drawn')
    if len(calls) != 1:
        return
    nm, cx0, cy0, cx1, cy1, attr = calls[0]
    E.prove(nm == {None: '_draw_line', b'B': '_draw_box', b'BF': '_draw_box_filled'}[shape], 'the primitive of the shape')
    E.prove(And(cx0 == p0[0], cy0 == p0[1]), 'first endpoint: given, cursor-relative with STEP, or the graphics cursor')
    E.prove(And(cx1 == p1[0], cy1 == p1[1]), 'second endpoint: given, or relative to the FIRST endpoint with STEP')
    E.prove(attr == 3, 'in the given attribute')
    E.prove(And(g._last_point[0] == p1[0], g._last_point[1] == p1[1]), 'the graphics cursor ends at the second endpoint')


# ---------------------------------------------------------------------------
# GET / PUT: the sprite builders (real ByteMatrix operations on symbolic pixel values)

def _matrix(E, h, w, maxval, tag='px'):
    from pcbasic.basic.base import bytematrix
    cells = [[E.int('%s[%d,%d]' % (tag, y, x), 0, maxval) for x in range(w)] for y in range(h)]
    rows = [SBuf(list(r), 'bytearray') if E.mode == 'symbolic' else bytearray(r) for r in cells]
    return bytematrix.ByteMatrix._create_from_rows(rows), cells


def t_sprite_roundtrip(E, builder, param, w, h):
    """unpack(pack(sprite)) = sprite for every pixel content (GET stores pack(...) in the array, PUT draws
    unpack(...) of it): with PSET at the same place the screen is unchanged. Also the size record."""
    from pcbasic.basic.display import framebuffer as fb
    cls = {'packed': fb.PackedSpriteBuilder, 'planed': fb.PlanedSpriteBuilder, 'tandy6': fb.Tandy6SpriteBuilder}[builder]
    b = E.new(cls, param)
    nbits = param        # bits per pixel (packed) / number of planes
    sprite, cells = _matrix(E, h, w, (1 << nbits) - 1)
    r = E.call(b.pack, sprite)
    E.prove(not r.raised, 'pack never raises')
    if r.raised:
        return
    data = r.value
    dc = list(to_cells(data))
    if builder == 'packed':
        row_bytes = (w * nbits + 7) // 8
        E.prove(len(dc) == 4 + row_bytes * h, 'size record and byte-aligned rows')
        E.prove(And(dc[0] + 256 * dc[1] == w * nbits, dc[2] + 256 * dc[3] == h), 'size record: row bits, height')
    else:
        row_bytes = (w + 7) // 8
        E.prove(len(dc) == 4 + row_bytes * h * nbits, 'size record and one byte-aligned row per plane and scan line')
        rec_w = w // 2 if builder == 'tandy6' else w
        E.prove(And(dc[0] + 256 * dc[1] == rec_w, dc[2] + 256 * dc[3] == h), 'size record: width (half the width in Tandy SCREEN 6), height')
    r2 = E.call(b.unpack, data)
    E.prove(not r2.raised, 'unpack never raises')
    if r2.raised:
        return
    back = r2.value
    E.prove(back.width == w and back.height == h, 'the sprite comes back with its size')
    if back.width == w and back.height == h:
        for y in range(h):
            got = list(to_cells(back._rows[y]))
            E.prove(len(got) == w and bool(And(*[g == c for g, c in zip(got, cells[y])])), 'every pixel of scan line %d comes back' % y)


def t_put_operations(E, op):
    """PUT's pixel operations on ByteMatrix rows: XOR applied twice restores the original pixels; PSET replaces
    them (operator checks on the real elementwise code, symbolic pixels)."""
    import operator
    old, oc = _matrix(E, 2, 3, 15, 'old')
    spr, sc = _matrix(E, 2, 3, 15, 'spr')
    f = {'xor': operator.ixor, 'or': operator.ior, 'and': operator.iand}[op]
    r = E.call(f, old, spr)
    E.prove(not r.raised, 'never raises')
    if r.raised:
        return
    once = r.value
    want1 = {'xor': lambda a, b: a + b - 2 * _band(a, b), 'or': lambda a, b: a + b - _band(a, b), 'and': _band}[op]
    for y in range(2):
        got = list(to_cells(once._rows[y]))
        E.prove(And(*[g == want1(a, b) for g, a, b in zip(got, oc[y], sc[y])]), 'elementwise %s of screen and sprite pixels' % op)
    if op == 'xor':
        r = E.call(f, once, spr)
        twice = r.value
        for y in range(2):
            got = list(to_cells(twice._rows[y]))
            E.prove(And(*[g == a for g, a in zip(got, oc[y])]), 'XOR applied twice restores the original pixels')


def _band(a, b):
    """Bitwise and of two 4-bit values, arithmetically."""
    return sum((((a // (1 << k)) % 2) * ((b // (1 << k)) % 2)) * (1 << k) for k in range(4))


TASKS = [
    Task('Graphics._draw_line (loop invariant)', t_draw_line, covers=('iteration', 'exit'), timeout_ms=60000),
    Task('Graphics._draw_line (bounded cross-check)', t_draw_line_native, bounded=True, samples=(300, 5000),
         scope='300 (quick) / 5000 (thorough) sampled endpoint pairs on a 640x400 screen, checked pixel by pixel'),
    Task('Graphics._draw_straight (loop invariant)', t_draw_straight, covers=('iteration', 'exit'),
         cases=[{'horizontal': h} for h in (True, False)]),
    Task('Graphics._draw_box', t_draw_box),
    Task('Graphics._draw_box_filled', t_draw_box_filled),
    Task('PSET / POINT', t_pset_point),
    Task('GraphicsViewPort (no VIEW): stores and loads are exact', t_viewport_unclipped,
         cases=[{'how': h, 'form': f} for h in ('init', 'unset') for f in ('point', 'row', 'column', 'rectangle')]),
    Task('sprite builders: unpack(pack(sprite)) = sprite', t_sprite_roundtrip,
         cases=[{'builder': 'packed', 'param': bpp, 'w': w, 'h': h} for bpp in (1, 2, 4) for w, h in ((1, 1), (3, 2), (8, 1), (9, 2))]),
    Task('planed sprite builders: unpack(pack(sprite)) = sprite (bounded)', t_sprite_roundtrip, bounded=True, samples=(40, 400),
         cases=[{'builder': 'planed', 'param': n, 'w': w, 'h': h} for n in (2, 4) for w, h in ((1, 1), (3, 2), (8, 1), (9, 2), (17, 3))] +
               [{'builder': 'tandy6', 'param': 2, 'w': w, 'h': h} for w, h in ((2, 1), (4, 2), (8, 1), (10, 2), (18, 3))],
         scope='40 (quick) / 400 (thorough) random pixel contents per builder and sprite size (the bitwise or of two symbolic planes is outside the proof engine)'),
    Task('PUT pixel operations: XOR twice restores (bounded)', t_put_operations, cases=[{'op': o} for o in ('xor', 'or', 'and')], bounded=True, samples=(200, 2000),
         scope='200 (quick) / 2000 (thorough) random 2x3 screen and sprite contents per operation, real ByteMatrix in-place operators'),
    Task('Graphics.line_ (endpoints)', t_line_statement,
         cases=[{'first': f, 'step1': s, 'shape': sh} for f in ('given', 'step', 'omitted') for s in (False, True) for sh in (None, b'B', b'BF')]),
]

ASSUMPTIONS = [
    'unclipped screen: coordinates on a 640x400 screen, no VIEW; the pixel buffer is a recording stand-in behind the viewport interface (C30 covers the viewport)',
    'solid pattern (0xffff); line styles only keep the invariant 1 <= mask <= 0x8000',
    'numeric argument evaluation (to_single / to_value) of PSET and POINT is taken by contract',
]
NOT_COVERED = [
    'GET / PUT statements themselves (get_ / put_: array bounds, clipping): not under contract; the packed (CGA) sprite builder round trip is proved, '
    'the planed (EGA) and Tandy SCREEN 6 builders and the XOR/OR/AND pixel operations only sampled natively (bounded tasks)',
    'clipping against VIEW and the screen edge (C30), WINDOW scaling, styled lines pixel selection',
]
