"""
C09 - String functions and statements match their reference definitions.

Under contract (real source): values.StringFunctions.left_/right_/mid_/instr_/string_,
values.len_/asc_/chr_/space_, strings.String.len/asc/space/add/eq/gt/lset/midset with the real
StringSpace.store/view/check_modify (values/values.py, values/strings.py).
Strings have symbolic *content*; their *length* is a case parameter (0, 1, 2, 5, 254, 255 for
the unary and slicing functions; shorter grids for the quadratic ones); numeric arguments are
symbolic over the whole Integer range. Reference definitions:
  LEFT$(s,n) = s[:n], RIGHT$(s,n) = s[len-n:], MID$(s,a[,n]) = s[a-1:a-1+n] (empty if a > len),
  INSTR([a,]b,s) = least 1-based position >= a where s occurs in b, else 0 (0 if b empty or a > len)
  STRING$(n,c), SPACE$(n) = n copies; LEN, ASC (IFC on empty), CHR$ (0..255)
  a + b: concatenation, String too long iff len(a)+len(b) > 255
  a = b byte-wise; a > b byte-wise lexicographic, a proper prefix is smaller
  LSET/RSET: target keeps its length; source cut or padded with spaces left/right justified
  MID$ statement: target keeps its length; bytes [a-1, a-1+min(n, len(v), len-a+1)) replaced
  Illegal function call exactly for arguments outside the documented ranges.
"""

from .common import *

PROPERTY = 'C09'

LENS = (0, 1, 2, 5, 254, 255)


class _Temps(set):
    _pyvc_trusted = True


_LAST = {}

def _sf(vals):
    sf = values.StringFunctions(_Temps())
    _LAST['sf'] = sf
    return sf


def _no_temps(E):
    """Every exit of a string function - result, empty result, error - releases its arguments:
    an argument left registered as a temporary would be kept alive by the collector for good."""
    E.prove(len(_LAST['sf']._temp_values) == 0, 'the arguments are no longer registered as temporaries')


def _str(E, vals, n, tag):
    return new_string(E, vals, E.bytes(tag, n, kind='bytes')) if n else E.new(strings.String, None, vals)


def _int(E, vals, name, lo=-32768, hi=32767):
    n = E.int(name, lo, hi)
    o = E.new(numbers.Integer, None, vals)
    E.call(o.from_int, n)
    return o, n


def _content(E, s):
    return str_cells(E, s)


def t_left_right(E, fn, L):
    vals = values_env(with_strings=True)
    s = _str(E, vals, L, 's')
    c0 = _content(E, s)
    nobj, n = _int(E, vals, 'n')
    r = E.call(getattr(_sf(vals), fn), iter([s, nobj]))
    _no_temps(E)
    if r.raised:
        E.cover('rejected')
        E.prove(r.is_error(BASICError, error.IFC), 'only Illegal function call')
        E.prove(Or(n < 0, n > 255), 'only for a count outside 0..255')
        return
    E.cover('returned')
    E.prove(And(n >= 0, n <= 255), 'a count outside 0..255 is rejected')
    out = _content(E, r.value)
    k = E.concretize(Min(n, L))
    want = c0[:k] if fn == 'left_' else c0[L - k:]
    E.prove(len(out) == k and bool(same_bytes(out, want)) if k else len(out) == 0,
            'LEFT$ is the first n bytes' if fn == 'left_' else 'RIGHT$ is the last n bytes')
    E.prove(same_bytes(_content(E, s), c0), 'the argument is unchanged')


def t_mid(E, L, with_num):
    vals = values_env(with_strings=True)
    s = _str(E, vals, L, 's')
    c0 = _content(E, s)
    aobj, a = _int(E, vals, 'start')
    if with_num:
        nobj, n = _int(E, vals, 'num')
    else:
        nobj, n = None, L
    r = E.call(_sf(vals).mid_, iter([s, aobj, nobj]))
    _no_temps(E)
    ok = And(a >= 1, a <= 255, n >= 0, n <= 255)
    if r.raised:
        E.cover('rejected')
        E.prove(r.is_error(BASICError, error.IFC), 'only Illegal function call')
        E.prove(Not(ok), 'valid arguments are accepted')
        return
    E.cover('returned')
    E.prove(ok, 'start outside 1..255 or count outside 0..255 is rejected')
    out = _content(E, r.value)
    ac = E.concretize(Min(a, L + 1))
    nc = E.concretize(Min(n, L)) if not isinstance(n, int) else n
    want = c0[ac - 1: ac - 1 + nc]
    E.prove(len(out) == len(want) and (not want or bool(same_bytes(out, want))), 'MID$(s, a, n) = s[a-1 : a-1+n]')


def t_instr(E, LB, LS, with_start):
    vals = values_env(with_strings=True)
    big = _str(E, vals, LB, 'b')
    small = _str(E, vals, LS, 's')
    cb, cs = _content(E, big), _content(E, small)
    if with_start:
        aobj, a = _int(E, vals, 'start')
        args = [aobj, big, small]
    else:
        a = 1
        args = [big, small]
    r = E.call(_sf(vals).instr_, iter(args))
    _no_temps(E)
    if r.raised:
        E.prove(r.is_error(BASICError, error.IFC), 'only Illegal function call')
        E.prove(Or(a < 1, a > 255), 'only for a start outside 1..255')
        return
    E.prove(And(a >= 1, a <= 255), 'start outside 1..255 is rejected')
    pos = s16(r.value)
    ac = E.concretize(a) if not isinstance(a, int) else a
    # reference: least p >= a with big[p-1 : p-1+LS] == small
    def occurs(p):
        if p - 1 + LS > LB:
            return False
        return And(*[cb[p - 1 + j] == cs[j] for j in range(LS)]) if LS else True
    if LB == 0 or ac > LB:
        E.prove(pos == 0, 'empty string or start beyond the end: 0')
        return
    cands = list(range(ac, LB + 1))
    none_before = True
    spec = []
    for p in cands:
        spec.append(Implies(And(none_before, occurs(p)), pos == p))
        none_before = And(none_before, Not(occurs(p)))
    spec.append(Implies(none_before, pos == 0))
    E.prove(And(*spec), 'INSTR is the least position >= start where the substring occurs, else 0')


def t_string_space(E, fn):
    vals = values_env(with_strings=True)
    nobj, n = _int(E, vals, 'n')
    if fn == 'string_':
        cobj, c = _int(E, vals, 'c')
        r = E.call(_sf(vals).string_, iter([nobj, cobj]))
        ok = And(n >= 0, n <= 255, c >= 0, c <= 255)
    else:
        r = E.call(values.space_, [nobj])
        ok = And(n >= 0, n <= 255)
        c = 32
    if r.raised:
        E.prove(r.is_error(BASICError, error.IFC), 'only Illegal function call')
        E.prove(Not(ok), 'valid arguments are accepted')
        return
    E.prove(ok, 'arguments outside 0..255 are rejected')
    out = _content(E, r.value)
    E.prove(len(out) == E.concretize(n), 'n bytes')
    E.prove(And(*[x == c for x in out]) if out else True, 'all the given character')


def t_string_from_char(E, L):
    """STRING$(n, s$): first character of s$."""
    vals = values_env(with_strings=True)
    s = _str(E, vals, L, 's')
    c0 = _content(E, s)
    nobj, n = _int(E, vals, 'n', 0, 12)
    r = E.call(_sf(vals).string_, iter([nobj, s]))
    if L == 0:
        E.prove(r.raised and isinstance(r.exc, BASICError) or (not r.raised and len(_content(E, r.value)) == 0),
                'empty string argument: error or empty result')
        return
    E.prove(not r.raised, 'accepted')
    if not r.raised:
        out = _content(E, r.value)
        E.prove(len(out) == E.concretize(n) and bool(And(*[x == c0[0] for x in out]) if out else True), 'n copies of the first character')


def t_len_asc_chr(E, L):
    vals = values_env(with_strings=True)
    s = _str(E, vals, L, 's')
    c0 = _content(E, s)
    rl = E.call(values.len_, [s])
    E.prove(not rl.raised and bool(s16(rl.value) == L), 'LEN is the number of bytes')
    ra = E.call(values.asc_, [s])
    if L == 0:
        E.prove(ra.is_error(BASICError, error.IFC), 'ASC of the empty string: Illegal function call')
    else:
        E.prove(not ra.raised and bool(s16(ra.value) == c0[0]), 'ASC is the first byte')
    cobj, c = _int(E, vals, 'c')
    rc = E.call(values.chr_, [cobj])
    if rc.raised:
        E.prove(rc.is_error(BASICError, error.IFC) and bool(Or(c < 0, c > 255)), 'CHR$: Illegal function call only outside 0..255')
    else:
        E.prove(And(c >= 0, c <= 255), 'CHR$ rejects values outside 0..255')
        out = _content(E, rc.value)
        E.prove(len(out) == 1 and bool(out[0] == c), 'CHR$(c) is the one-byte string c')


def t_chr_float(E, kind):
    """CHR$ of a single/double argument: Overflow when the rounded value does not fit an Integer (as every
    function taking an integer argument), Illegal function call outside 0..255, the one-byte string otherwise."""
    vals = values_env(with_strings=True)
    n = E.int('n', -33000, 33000)
    x = E.new(numbers.Single if kind == 'single' else numbers.Double, None, vals)
    r = E.call(x.from_int, n)
    if r.raised:
        raise Unsupported('from_int raised')
    rc = E.call(values.chr_, [x])
    if bool(Or(n < -32768, n > 32767)):
        E.cover('overflow')
        E.prove(rc.is_error(BASICError, error.OVERFLOW), 'beyond the Integer range: Overflow')
    elif bool(Or(n < 0, n > 255)):
        E.cover('illegal')
        E.prove(rc.is_error(BASICError, error.IFC), 'outside 0..255: Illegal function call')
    else:
        E.cover('char')
        E.prove(not rc.raised, 'in range: succeeds')
        if not rc.raised:
            out = _content(E, rc.value)
            E.prove(len(out) == 1 and bool(out[0] == n), 'CHR$(n) is the one-byte string n')


def t_compare_operators(E, L, shape):
    """The relational operators on strings (values.eq / neq / gt ..., as the expression evaluator calls them),
    including operands that share an address: a string computed to be empty carries the address of the string
    allocated before it, and a variable compared with itself."""
    vals = values_env(with_strings=True)
    a = _str(E, vals, L, 'a')
    ca = _content(E, a)
    if shape == 'empty at the same address':
        b = E.new(strings.String, None, vals)
        E.call(b.from_pointer, 0, E.call(a.address).value)
        cb = []
    elif shape == 'itself':
        b, cb = a, ca
    else:
        b = _str(E, vals, L, 'b')
        cb = _content(E, b)
    same = (len(ca) == len(cb)) and (not ca or bool(And(*[x == y for x, y in zip(ca, cb)])))
    re_, rn = E.call(values.eq, a, b), E.call(values.neq, a, b)
    E.prove(not re_.raised and not rn.raised, 'never raise')
    if re_.raised or rn.raised:
        return
    E.prove(s16(re_.value) == (-1 if same else 0), 'a = b is -1 exactly when lengths and bytes agree')
    E.prove(s16(rn.value) == (0 if same else -1), 'a <> b is its negation')


def t_concat(E, LA, LB):
    vals = values_env(with_strings=True)
    a, b = _str(E, vals, LA, 'a'), _str(E, vals, LB, 'b')
    ca, cb = _content(E, a), _content(E, b)
    r = E.call(values.add, a, b)
    if LA + LB > 255:
        E.prove(r.is_error(BASICError, error.STRING_TOO_LONG), 'String too long when the result would exceed 255 bytes')
        return
    E.prove(not r.raised and isinstance(r.value, strings.String), 'concatenation succeeds up to 255 bytes')
    if not r.raised:
        out = _content(E, r.value)
        E.prove(len(out) == LA + LB and (LA + LB == 0 or bool(same_bytes(out, ca + cb))), 'a + b is a followed by b')
        E.prove(same_bytes(_content(E, a), ca) if LA else True, 'operands unchanged')


def t_compare(E, LA, LB):
    vals = values_env(with_strings=True)
    a, b = _str(E, vals, LA, 'a'), _str(E, vals, LB, 'b')
    ca, cb = _content(E, a), _content(E, b)
    re_ = E.call(a.eq, b)
    rg = E.call(a.gt, b)
    E.prove(not re_.raised and not rg.raised, 'never raise')
    eq = And(*[x == y for x, y in zip(ca, cb)]) if LA == LB else False
    if LA == LB == 0:
        eq = True
    E.prove(Iff(re_.value, eq), '= is byte-wise equality')
    # lexicographic: first difference decides; a proper prefix is smaller
    m = min(LA, LB)
    gt = LA > LB          # all common bytes equal: longer is greater
    for i in reversed(range(m)):
        gt = If(ca[i] > cb[i], True, If(ca[i] < cb[i], False, gt))
    E.prove(Iff(rg.value, gt), '> is byte-wise lexicographic order, shorter prefix first')


def t_lset(E, LT, LS, right):
    vals = values_env(with_strings=True)
    t, s = _str(E, vals, LT, 't'), _str(E, vals, LS, 's')
    cs = _content(E, s)
    r = E.call(t.lset, s, right)
    E.prove(not r.raised, 'never raises')
    out = _content(E, t)
    E.prove(len(out) == LT, 'the target keeps its length')
    cut = cs[:LT]
    pad = [32] * (LT - len(cut))
    want = pad + cut if right else cut + pad
    E.prove(bool(same_bytes(out, want)) if LT else True, 'RSET right-justifies' if right else 'LSET left-justifies, padded with spaces')


def t_midset(E, LT, LV, overlap):
    vals = values_env(with_strings=True)
    t = _str(E, vals, LT, 't')
    ct = _content(E, t)
    if overlap:
        v = t
        cv = ct
        LV = LT
    else:
        v = _str(E, vals, LV, 'v')
        cv = _content(E, v)
    start = E.int('start', 1, max(1, LT))
    num = E.int('num', 0, 255)
    r = E.call(t.midset, start, num, v)
    E.prove(not r.raised, 'never raises for a start inside the string')
    out = _content(E, t)
    E.prove(len(out) == LT, 'the target keeps its length')
    a = E.concretize(start)
    n = E.concretize(num)
    k = max(0, min(n, LV, LT - a + 1))
    if overlap:
        # byte-by-byte left to right: each target byte takes the (possibly already overwritten) source byte
        want = list(ct)
        for i in range(k):
            want[a - 1 + i] = want[i]
    else:
        want = ct[:a - 1] + cv[:k] + ct[a - 1 + k:]
    E.prove(bool(same_bytes(out, want)) if LT else True,
            'exactly bytes [start-1, start-1+min(n, len(v), len-start+1)) are replaced')


# ---------------------------------------------------------------------------
# statement level: DataSegment.mid_ / lset_ / rset_ on a real DataSegment

from pcbasic.basic.memory import memory as memory_mod

class _Prog(object):
    _pyvc_trusted = True
    protected = False
    def size(self):
        return 50


def _segment(E):
    ds = E.new(memory_mod.DataSegment, 65534, 3429, 128, 3, False)
    ds.set_buffers(_Prog())
    ds.values.set_handler(values.FloatErrorHandler(None))
    return ds


def _var_content(E, ds, name):
    v = E.call(ds.view_or_create_variable, name, [])
    if v.raised:
        raise Unsupported('variable lookup raised %r' % (v.exc,))
    return str_cells(E, v.value)


def t_mid_statement(E, LT, LV, with_num):
    ds = _segment(E)
    vals = ds.values
    if LT:
        E.call(ds.set_variable, b'A$', [], new_string(E, vals, E.bytes('t', LT, kind='bytes')))
    ct = _var_content(E, ds, b'A$')
    cb0 = None
    E.call(ds.set_variable, b'B$', [], new_string(E, vals, b'bystander'))
    v = _str(E, vals, LV, 'v')
    cv = _content(E, v)
    sobj, start = _int(E, vals, 'start')
    if with_num:
        nobj, num = _int(E, vals, 'num')
    else:
        nobj, num = None, 255
    r = E.call(ds.mid_, iter([(b'A$', []), sobj, nobj, v]))
    bad = Or(num < 0, num > 255, And(num > 0, Or(start < 1, start > LT)))
    if r.raised:
        E.cover('rejected')
        E.prove(r.is_error(BASICError, error.IFC), 'only Illegal function call')
        E.prove(bad, 'only for a count outside 0..255 or a start outside 1..LEN')
        E.prove(bool(same_bytes(_var_content(E, ds, b'A$'), ct)) if LT else len(_var_content(E, ds, b'A$')) == 0,
                'the target is unchanged when the statement is rejected')
        return
    E.cover('performed')
    E.prove(Not(bad), 'performed only for count 0..255 and (count = 0 or start in 1..LEN)')
    out = _var_content(E, ds, b'A$')
    E.prove(len(out) == LT, 'the target keeps its length')
    if LT == 0 or len(out) != LT:
        return
    n = E.concretize(Min(Max(num, 0), LT))
    if n == 0:
        E.prove(same_bytes(out, ct), 'count 0 changes nothing')
    else:
        a = E.concretize(start)
        k = max(0, min(n, LV, LT - a + 1))
        want = ct[:a - 1] + cv[:k] + ct[a - 1 + k:]
        E.prove(same_bytes(out, want), 'exactly bytes [start-1, start-1+min(n, len(v), len-start+1)) are replaced')
    E.prove(same_bytes(_var_content(E, ds, b'B$'), list(b'bystander')), 'other string variables are untouched')


def t_lset_statement(E, LT, LS, right):
    ds = _segment(E)
    vals = ds.values
    if LT:
        E.call(ds.set_variable, b'A$', [], new_string(E, vals, E.bytes('t', LT, kind='bytes')))
    E.call(ds.set_variable, b'B$', [], new_string(E, vals, b'bystander'))
    s = _str(E, vals, LS, 's')
    cs = _content(E, s)
    r = E.call(ds.rset_ if right else ds.lset_, iter([(b'A$', []), s]))
    E.prove(not r.raised, 'never raises')
    out = _var_content(E, ds, b'A$')
    E.prove(len(out) == LT, 'the target keeps its length')
    if LT and len(out) == LT:
        if LS >= LT:
            want = cs[:LT]
        elif right:
            want = [32] * (LT - LS) + cs
        else:
            want = cs + [32] * (LT - LS)
        E.prove(same_bytes(out, want), 'RSET right-justifies' if right else 'LSET left-justifies, padded with spaces')
    E.prove(same_bytes(_var_content(E, ds, b'B$'), list(b'bystander')), 'other string variables are untouched')


_SMALL = (0, 1, 2, 4)

TASKS = [
    Task('LEFT$/RIGHT$', t_left_right, cases=[{'fn': f, 'L': L} for f in ('left_', 'right_') for L in LENS],
         covers=('rejected', 'returned')),
    Task('MID$ function', t_mid, cases=[{'L': L, 'with_num': True} for L in (0, 1, 3, 7)] +
                                       [{'L': L, 'with_num': False} for L in (0, 1, 3, 254, 255)],
         covers=('rejected', 'returned')),
    Task('INSTR', t_instr, cases=[{'LB': b, 'LS': s, 'with_start': w} for b in (0, 1, 3, 6) for s in (0, 1, 2, 3) for w in (True, False)]),
    Task('STRING$/SPACE$', t_string_space, cases=[{'fn': f} for f in ('string_', 'space_')]),
    Task('STRING$(n, s$)', t_string_from_char, cases=[{'L': L} for L in (0, 1, 3)]),
    Task('LEN/ASC/CHR$', t_len_asc_chr, cases=[{'L': L} for L in LENS]),
    Task('CHR$ of a float', t_chr_float, covers=('overflow', 'illegal', 'char'), cases=[{'kind': k} for k in ('single', 'double')]),
    Task('string = and <> (operator level, shared addresses)', t_compare_operators,
         cases=[{'L': L, 'shape': sh} for L in (1, 2, 5) for sh in ('two strings', 'empty at the same address', 'itself')]),
    Task('concatenation', t_concat, cases=[{'LA': a, 'LB': b} for a, b in ((0, 0), (0, 3), (2, 3), (255, 0), (254, 1), (255, 1), (128, 128), (1, 255))]),
    Task('string comparison', t_compare, cases=[{'LA': a, 'LB': b} for a in (0, 1, 2, 5) for b in (0, 1, 2, 5)]),
    Task('LSET/RSET', t_lset, cases=[{'LT': t, 'LS': s, 'right': r} for t in (0, 1, 4, 9) for s in (0, 2, 4, 12) for r in (False, True)]),
    Task('MID$ statement', t_midset, cases=[{'LT': t, 'LV': v, 'overlap': False} for t in (1, 3, 6) for v in (0, 1, 2, 8)] +
                                            [{'LT': t, 'LV': t, 'overlap': True} for t in (1, 3, 6)]),
    Task('MID$ statement (DataSegment.mid_)', t_mid_statement,
         cases=[{'LT': t, 'LV': v, 'with_num': w} for t in (0, 1, 4) for v in (0, 2, 6) for w in (True, False)],
         covers=('rejected', 'performed')),
    Task('LSET/RSET statements (DataSegment.lset_/rset_)', t_lset_statement,
         cases=[{'LT': t, 'LS': s, 'right': r} for t in (0, 1, 4) for s in (0, 2, 4, 7) for r in (False, True)]),
]

ASSUMPTIONS = [
    'string lengths are case parameters (stated grids, including 0, 1, 254, 255); contents and numeric arguments are symbolic',
    'string space behind the values uses a stand-in for DataSegment (fixed layout, never out of memory); '
    'the statement-level tasks use the real DataSegment (65534 bytes, program stand-in of fixed size)',
    'argument plumbing through the statement parser is abstracted to an iterator of already evaluated values',
]
NOT_COVERED = ['array-element targets of the MID$/LSET/RSET statements (scalar targets are covered)',
               'lengths not in the grids (the code has no length-specific branches beyond those exercised)']
