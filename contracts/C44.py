"""
C44 - TIME$, DATE$ and ENVIRON read back what was set.

Proof level: Clock.time_ / Clock.date_ (clock.py, real source).
  The argument string has a concrete separator structure ("a", "a:b", "a:b:c", "a.b.c", four
  fields ...; "m-d-y", "m/d/y", wrong counts) and its numeric fields are abstracted: int() of
  field k is an arbitrary integer or a ValueError (any sign for TIME$, non-negative for DATE$
  because '-' is a separator there). datetime is replaced by an abstract calendar that checks
  field ranges exactly as CPython's constructor does and records date arithmetic symbolically.
  Postconditions (from the statement): valid fields -> the offset becomes old + (new - now)
  where new is the requested time on the current date (resp. the requested date at the
  current time) - so now + offset reads back the value set, plus elapsed time; every other
  string raises Illegal function call and leaves the offset unchanged; nothing else escapes.
Bounded stand-in (never counted as proved): ENVIRON / ENVIRON$ and TIME$/DATE$ end to end on
  real strings through the real codepage and host environment, exhaustive small alphabets.
"""

from .common import *
from pcbasic.basic import clock as clock_mod
import datetime as _real_datetime

PROPERTY = 'C44'


# ---------------------------------------------------------------------------
# abstract calendar

class FakeDelta(object):
    _pyvc_trusted = True
    def __init__(self, parts):
        self.parts = list(parts)
    def __add__(self, o):
        if isinstance(o, FakeDelta):
            return FakeDelta(self.parts + o.parts)
        return NotImplemented
    __iadd__ = __add__
    def __radd__(self, o):
        return o.__add__(self)


def _days_in_month(y, m):
    leap = And(y % 4 == 0, Or(y % 100 != 0, y % 400 == 0))
    return If(Or(m == 4, m == 6, m == 9, m == 11), 30, If(m == 2, If(leap, 29, 28), 31))


class FakeDateTime(object):
    _pyvc_trusted = True

    def __init__(self, year, month, day, hour=0, minute=0, second=0, microsecond=0, _trusted=False):
        if not _trusted:
            ok = And(year >= 1, year <= 9999, month >= 1, month <= 12, day >= 1,
                     day <= _days_in_month(year, month), hour >= 0, hour <= 23,
                     minute >= 0, minute <= 59, second >= 0, second <= 59,
                     microsecond >= 0, microsecond <= 999999)
            if not bool(ok):
                raise ValueError('field out of range')
        self.year, self.month, self.day = year, month, day
        self.hour, self.minute, self.second, self.microsecond = hour, minute, second, microsecond

    def fields(self):
        return (self.year, self.month, self.day, self.hour, self.minute, self.second, self.microsecond)

    def __add__(self, o):
        if isinstance(o, FakeDelta):
            return _CAL.shifted(self, o)
        return NotImplemented

    def __sub__(self, o):
        if isinstance(o, FakeDateTime):
            return FakeDelta([('diff', self, o)])
        return NotImplemented


class FakeCalendar(object):
    """Stand-in for the datetime module inside clock.py."""
    _pyvc_trusted = True

    def __init__(self):
        self.E = None
        self.sums = []

    class _DT(object):
        pass

    def reset(self, E):
        self.E = E
        self.sums = []
        cal = self
        class DT(FakeDateTime):
            @staticmethod
            def now():
                return cal.now_value
        DT._pyvc_trusted = True
        self.datetime = DT
        self.timedelta = lambda *a, **k: FakeDelta([])
        self.now_value = FakeDateTime(2024, 5, 17, 11, 22, 33, 444, _trusted=True)

    def shifted(self, base, delta):
        """base + delta: some valid datetime with fresh symbolic fields."""
        E = self.E
        k = len(self.sums)
        y = E.int('now_year#%d' % k, 1, 9999)
        m = E.int('now_month#%d' % k, 1, 12)
        d = E.int('now_day#%d' % k, 1, 31)
        E.assume(d <= _days_in_month(y, m))
        r = FakeDateTime(y, m, d, E.int('now_hour#%d' % k, 0, 23), E.int('now_minute#%d' % k, 0, 59),
                         E.int('now_second#%d' % k, 0, 59), E.int('now_us#%d' % k, 0, 999999), _trusted=True)
        self.sums.append((base, delta, r))
        return r


_CAL = FakeCalendar()


# ---------------------------------------------------------------------------

_TIME_SHAPES = [b'<0>', b'<0>:<1>', b'<0>:<1>:<2>', b'<0>.<1>.<2>', b'<0>:<1>.<2>', b'<0>:<1>:<2>:<3>', b'',
                b'<0>::<2>', b':<1>']
_DATE_SHAPES = [b'<0>-<1>-<2>', b'<0>/<1>/<2>', b'<0>-<1>/<2>', b'<0>-<1>', b'<0>', b'<0>-<1>-<2>-<3>', b'',
                b'<0>--<2>']


def _install(E, negative_ok):
    """Abstract int() of the marked fields; abstract calendar inside clock.py."""
    fields = {}
    from pyvc import summaries
    def h(I, args, kw):
        x = args[0] if args else 0
        if isinstance(x, SBuf) and not x.is_symbolic():
            x = x.native()
        if isinstance(x, (bytes, bytearray)) and bytes(x[:1]) == b'<' and bytes(x[-1:]) == b'>':
            k = int(bytes(x[1:-1]))
            if k not in fields:
                bad = E.bool('field%d_not_a_number' % k)
                v = E.int('field%d' % k, -100000 if negative_ok else 0, 100000)
                fields[k] = (bad, v)
            bad, v = fields[k]
            if bool(bad):
                raise ValueError('invalid literal for int()')
            return v
        return summaries.s_int(I, args, kw)
    E.interp.summaries[int] = h
    _CAL.reset(E)
    clock_mod.datetime = _CAL
    return fields


def _restore():
    clock_mod.datetime = _real_datetime


def _field_count(shape):
    parts = shape.replace(b'.', b':').replace(b'/', b'-')
    return parts


def _native_clock(E, shape, which):
    """Replay on the real clock: build the literal string from the model's field values."""
    import re
    vals = values_env(with_strings=True)
    c = clock_mod.Clock(vals)
    txt = shape
    fv = {}
    for k in range(4):
        if (b'<%d>' % k) in shape:
            try:
                bad = E.bool('field%d_not_a_number' % k)
                v = E.int('field%d' % k, -100000, 100000)
            except KeyError:
                bad, v = False, 0
            fv[k] = None if bad else v
            txt = txt.replace(b'<%d>' % k, b'x' if bad else b'%d' % v)
    s = vals.new_string().from_str(txt)
    r = E.call(c.time_ if which == 'time' else c.date_, iter([s]))
    E.prove(not r.raised or r.is_error(BASICError, error.IFC), 'only Illegal function call may be raised (%r)' % txt)
    if which == 'time':
        comps = shape.replace(b'.', b':').split(b':')
        ok = len(comps) in (1, 2, 3) and all(cc for cc in comps) and all(fv.get(k) is not None for k in range(len(comps)))
        v = [fv[k] for k in range(len(comps))] + [0] * (3 - len(comps)) if ok else []
        valid = ok and 0 <= v[0] <= 23 and 0 <= v[1] <= 59 and 0 <= v[2] <= 59
        E.prove(r.raised != valid, 'accepted exactly when valid (%r)' % txt)
        if valid and not r.raised:
            got = [int(x) for x in bytes(c.time_fn_([]).to_str()).split(b':')]
            d = (got[0] * 3600 + got[1] * 60 + got[2]) - (v[0] * 3600 + v[1] * 60 + v[2])
            E.prove(0 <= d % 86400 <= 2, 'new time has the hour, minute and second that were set')
    else:
        comps = shape.replace(b'/', b'-').split(b'-')
        ok = len(comps) == 3 and all(cc for cc in comps) and all(fv.get(k) is not None for k in range(3))
        valid = False
        if ok:
            mm, dd, yy = fv[0], fv[1], fv[2]
            year = 2000 + yy if yy <= 77 else (1900 + yy if yy <= 99 else yy)
            year_ok = 0 <= yy <= 77 or 80 <= yy <= 99 or 1980 <= yy <= 2099
            valid = bool(year_ok and 1 <= mm <= 12 and 1 <= dd <= int(_days_in_month(year, mm)))
        E.prove(r.raised != valid, 'accepted exactly when valid (%r)' % txt)
        if valid and not r.raised:
            E.prove(bytes(c.date_fn_([]).to_str()) == b'%02d-%02d-%04d' % (mm, dd, year),
                    'new date is the date that was set')


def t_time(E, shape):
    vals = values_env(with_strings=True)
    c = object.__new__(clock_mod.Clock)
    c._values = vals
    if E.mode != 'symbolic':
        return _native_clock(E, shape, 'time')
    fields = _install(E, negative_ok=True)
    try:
        old = FakeDelta([('old',)])
        c.time_offset = old
        s = new_string(E, vals, shape)
        r = E.call(c.time_, iter([s]))
    finally:
        _restore()
    # reference: component strings as the statement describes them
    comps = shape.replace(b'.', b':').split(b':')
    n = len(comps)
    wellformed = n in (1, 2, 3) and all(cc != b'' for cc in comps)
    vals_ = []
    numeric = True
    if wellformed:
        for k in range(n):
            bad, v = fields.get(k, (False, 0))
            numeric = And(numeric, Not(bad))
            vals_.append(v)
    vals_ += [0] * (3 - len(vals_))
    valid = And(numeric, vals_[0] >= 0, vals_[0] <= 23, vals_[1] >= 0, vals_[1] <= 59,
                vals_[2] >= 0, vals_[2] <= 59) if wellformed else False
    if r.raised:
        E.cover('rejected')
        E.prove(r.is_error(BASICError, error.IFC), 'an invalid time raises Illegal function call and nothing else')
        E.prove(Not(valid), 'a valid hh[:mm[:ss]] must be accepted')
        E.prove(c.time_offset is old, 'the clock is unchanged when the time is rejected')
    else:
        E.cover('accepted')
        E.prove(valid, 'only valid hh[:mm[:ss]] (0-23, 0-59, 0-59) are accepted')
        off = c.time_offset
        ok = isinstance(off, FakeDelta) and len(off.parts) == 2 and off.parts[0] == ('old',) and off.parts[1][0] == 'diff'
        E.prove(ok, 'offset becomes old offset + (new time - current time)')
        if ok:
            _, new, cur = off.parts[1]
            E.prove(len(_CAL.sums) == 1 and cur is _CAL.sums[0][2] and _CAL.sums[0][0] is _CAL.now_value
                    and _CAL.sums[0][1] is old, 'current time is now + old offset')
            E.prove(And(new.hour == vals_[0], new.minute == vals_[1], new.second == vals_[2]),
                    'new time has the hour, minute and second that were set')
            E.prove(And(new.year == cur.year, new.month == cur.month, new.day == cur.day,
                        new.microsecond == cur.microsecond), 'date (and sub-second part) unchanged')


def t_date(E, shape):
    vals = values_env(with_strings=True)
    c = object.__new__(clock_mod.Clock)
    c._values = vals
    if E.mode != 'symbolic':
        return _native_clock(E, shape, 'date')
    fields = _install(E, negative_ok=False)
    try:
        old = FakeDelta([('old',)])
        c.time_offset = old
        s = new_string(E, vals, shape)
        r = E.call(c.date_, iter([s]))
    finally:
        _restore()
    comps = shape.replace(b'/', b'-').split(b'-')
    wellformed = len(comps) == 3 and all(cc != b'' for cc in comps)
    if wellformed:
        numeric = True
        v = []
        for k in range(3):
            bad, x = fields.get(k, (False, 0))
            numeric = And(numeric, Not(bad))
            v.append(x)
        mm, dd, yy = v
        year = If(yy <= 77, 2000 + yy, If(yy <= 99, 1900 + yy, yy))
        year_ok = Or(And(yy >= 0, yy <= 77), And(yy >= 80, yy <= 99), And(yy >= 1980, yy <= 2099))
        valid = And(numeric, year_ok, mm >= 1, mm <= 12, dd >= 1, dd <= _days_in_month(year, mm))
    else:
        valid = False
    if r.raised:
        E.cover('rejected')
        E.prove(r.is_error(BASICError, error.IFC), 'an invalid date raises Illegal function call and nothing else')
        E.prove(Not(valid), 'a valid mm-dd-yy[yy] must be accepted')
        E.prove(c.time_offset is old, 'the clock is unchanged when the date is rejected')
    else:
        E.cover('accepted')
        E.prove(valid, 'only valid dates (two-digit years 80-99/00-77, four-digit 1980-2099) are accepted')
        off = c.time_offset
        ok = isinstance(off, FakeDelta) and len(off.parts) == 2 and off.parts[0] == ('old',) and off.parts[1][0] == 'diff'
        E.prove(ok, 'offset becomes old offset + (new date - current time)')
        if ok:
            _, new, cur = off.parts[1]
            E.prove(len(_CAL.sums) == 1 and cur is _CAL.sums[0][2], 'current time is now + old offset')
            E.prove(And(new.month == mm, new.day == dd, new.year == year), 'new date is the date that was set')
            E.prove(And(new.hour == cur.hour, new.minute == cur.minute, new.second == cur.second,
                        new.microsecond == cur.microsecond), 'time of day unchanged')


# ---------------------------------------------------------------------------
# bounded, end to end on the real thing

_TIMES = [b'00', b'23', b'24', b'-1', b'7:5', b'07:05:09', b'23:59:59', b'23:60', b'1:2:60', b'12.30.15', b'1:2:3:4',
          b'', b'ab', b'1:x', b' 5 : 6 ', b'+5', b'0x5', b'1:-2', b'1:2:-3', b'99999999999', b'5.5', b':', b'12:']
_DATES = [b'01-02-2003', b'1/2/03', b'12-31-99', b'02-29-2000', b'02-29-1900', b'02-30-2001', b'13-01-2001', b'00-01-2001',
          b'01-00-2001', b'01-01-78', b'01-01-79', b'01-01-80', b'01-01-77', b'01-01-1979', b'01-01-2100', b'01-01-100',
          b'', b'1-2', b'1-2-3-4', b'a-b-c', b'01-01--5', b'+1-+2-+2003', b' 1 - 2 - 2003 ', b'1-1-99999999999']

def t_clock_e2e(E):
    from pcbasic.basic import Session
    import io, re
    which = E.int('which', 0, len(_TIMES) + len(_DATES) - 1)
    out = io.BytesIO()
    txt = _TIMES[which] if which < len(_TIMES) else _DATES[which - len(_TIMES)]
    try:
        with Session(output_streams=out, input_streams=None) as s:
            if which < len(_TIMES):
                s.execute(b'TIME$="' + txt + b'": PRINT "["+TIME$+"]"')
            else:
                s.execute(b'DATE$="' + txt + b'": PRINT "["+DATE$+"]"')
    except Exception as e:
        E.prove(False, 'no internal error for %r (escaped: %s)' % (txt, type(e).__name__))
        return
    res = out.getvalue()
    E.prove(b'Internal error' not in res and b'Traceback' not in res, 'no internal error for %r' % txt)
    E.prove(b'Illegal function call' in res or b'[' in res, 'either Illegal function call or the value reads back')
    m = re.search(br'\[(.*?)\]', res)
    if m and which < len(_TIMES):
        comps = [int(x) for x in txt.replace(b'.', b':').split(b':')]
        comps += [0] * (3 - len(comps))
        got = [int(x) for x in m.group(1).split(b':')]
        d = (got[0] * 3600 + got[1] * 60 + got[2]) - (comps[0] * 3600 + comps[1] * 60 + comps[2])
        E.prove(0 <= d % 86400 <= 2, 'TIME$ reads back the time set (within elapsed seconds)')
    elif m:
        mm, dd, yy = [int(x) for x in txt.replace(b'/', b'-').split(b'-')]
        yy = 2000 + yy if yy <= 77 else (1900 + yy if yy < 100 else yy)
        E.prove(m.group(1) == b'%02d-%02d-%04d' % (mm, dd, yy), 'DATE$ reads back the date set')


_ENVS = [b'A=B', b'a=b', b'PCB_T=', b'PCB_T=x=y', b'=x', b'noequals', b'', b'PCB_T=\x00', b'PC\x00B=1', b'PCB_\xe9=1',
         b'PCB_T=\xe9', b'PCB_T=' + b'x' * 200, b'pcb_t=MiXed', b'PCB T=1', b'PCB_T= spaced ']

def t_environ_e2e(E):
    from pcbasic.basic import Session
    import io
    which = E.int('which', 0, len(_ENVS) - 1)
    txt = _ENVS[which]
    out = io.BytesIO()
    try:
        with Session(output_streams=out, input_streams=None) as s:
            s.set_variable('E$', txt)
            eq = txt.find(b'=')
            name = txt[:eq] if eq > 0 else b'X'
            s.set_variable('N$', name)
            s.execute(b'ENVIRON E$: PRINT "["+ENVIRON$(N$)+"]"')
    except Exception as e:
        E.prove(False, 'no internal error for %r (escaped: %s)' % (txt, type(e).__name__))
        return
    res = out.getvalue()
    E.prove(b'Internal error' not in res and b'Traceback' not in res, 'no internal error for %r' % txt)
    if b'Illegal function call' not in res:
        eq = txt.find(b'=')
        E.prove(eq > 0, 'a string without a name must be rejected')
        E.prove(b'[' + txt[eq+1:] + b']' in res, 'ENVIRON$ reads back the value set (name compared in upper case)')
        s2 = io.BytesIO()
        with Session(output_streams=s2, input_streams=None) as s:
            s.set_variable('N$', txt[:eq].upper())
            s.execute(b'PRINT "["+ENVIRON$(N$)+"]"')
        E.prove(b'[' + txt[eq+1:] + b']' in s2.getvalue(), 'readable through the upper-case name')


class _CP(object):
    """Codepage stand-in: bytes <-> 'unicode' is the identity on a wrapper that keeps symbolic bytes."""
    _pyvc_trusted = True
    def bytes_to_unicode(self, b):
        return ('u', tuple(to_cells(b)))
    def unicode_to_bytes(self, u):
        if u == u'':
            return b''
        cs = list(u[1])
        return SBuf(cs, 'bytes') if any(not isinstance(c, int) for c in cs) else bytes(cs)


def t_environ_contract(E, set_name, get_name, L):
    """ENVIRON "name=value" then ENVIRON$("name") in any letter case reads back the value, whatever the
    host environment already holds (here: a lower-case twin of the name and an unrelated variable);
    nothing else in the host environment changes. The host environment is a ghost map behind
    setenvu / getenvu / iterenvu."""
    from pcbasic.basic import dos
    host = {u'verif_twin': ('u', (115, 116, 97, 108, 101)), u'OTHER': ('u', (120,))}
    order = [u'verif_twin', u'OTHER']
    def _set(I, args, kw):
        k, v = args
        if k not in host:
            order.append(k)
        host[k] = v
    E.interp.contracts[dos.setenvu] = _set
    E.interp.contracts[dos.getenvu] = lambda I, args, kw: host.get(args[0], args[1] if len(args) > 1 else None)
    E.interp.contracts[dos.iterenvu] = lambda I, args, kw: iter(list(order))
    vals = values_env(with_strings=True)
    env = E.new(dos.Environment, vals, _CP())
    value = E.bytes('value', L, kind='bytes') if L else b''
    if L:
        E.assume(And(*[c != 0 for c in to_cells(value)]))
    arg = new_string(E, vals, (SBuf(list(set_name + b'=') + list(to_cells(value)), 'bytes') if L else set_name + b'='))
    r = E.call(env.environ_statement_, iter([arg]))
    E.prove(not r.raised, 'ENVIRON accepts name=value')
    E.prove(host[u'verif_twin'] == ('u', (115, 116, 97, 108, 101)) and host[u'OTHER'] == ('u', (120,)),
            'other host variables (also a lower-case twin of the name) are untouched')
    g = E.call(env.environ_, iter([new_string(E, vals, get_name)]))
    E.prove(not g.raised, 'ENVIRON$ succeeds')
    if not g.raised:
        got = str_cells(E, g.value)
        E.prove(len(got) == L and (bool(cells_equal(got, list(to_cells(value)))) if L else True),
                'ENVIRON$ returns the value that was set, the name compared without regard to case')


TASKS = [
    Task('ENVIRON / ENVIRON$ (ghost host environment)', t_environ_contract,
         cases=[{'set_name': a, 'get_name': b, 'L': L} for a, b in ((b'VERIF_TWIN', b'VERIF_TWIN'), (b'verif_twin', b'Verif_Twin'),
                                                                     (b'Verif_Twin', b'verif_twin'), (b'NEWVAR', b'newvar'))
                for L in (0, 1, 5)]),
    Task('Clock.time_', t_time, cases=[{'shape': s} for s in _TIME_SHAPES], covers=('rejected', 'accepted')),
    Task('Clock.date_', t_date, cases=[{'shape': s} for s in _DATE_SHAPES], covers=('rejected', 'accepted')),
    Task('TIME$/DATE$ end to end (bounded)', t_clock_e2e, bounded=True, samples=(400, 2000),
         scope='%d literal TIME$ and %d DATE$ strings through a real Session (listed in contracts/C44.py)' % (
             len(_TIMES), len(_DATES))),
    Task('ENVIRON end to end (bounded)', t_environ_e2e, bounded=True, samples=(200, 1000),
         scope='%d literal ENVIRON strings (NUL, non-ASCII, empty name, long value ...) through a real Session' % len(_ENVS)),
]

ASSUMPTIONS = [
    'Clock.time_/date_: int() of each separated field is abstracted (arbitrary integer or ValueError); the datetime '
    'module is replaced by an abstract calendar with CPython\'s constructor range checks and symbolic date arithmetic',
    'string splitting is on concrete separator structures (9 TIME$ and 8 DATE$ shapes)',
    'ENVIRON/ENVIRON$ and strftime formatting are only covered by the bounded end-to-end tasks',
]
NOT_COVERED = ['the host environment calls themselves (setenvu / getenvu / iterenvu are a ghost map) and the codepage conversion of names and values']
