"""
C33 - DRAW moves the pen exactly as its commands specify (no angle turning).

Under contract (real source): Graphics._draw, Graphics._draw_step, Graphics.point_ (fn 0, 1)
(display/graphics.py) with the real macro-language parser mlparser.MLParser (skip_blank,
parse_number incl. "=variable;" arguments, parse_string for X) over the real CodeStream.
DRAW strings have a *concrete command structure* (case parameter: a list of commands) and
*symbolic amounts*: every count / coordinate / scale is passed as "=V;" with V an Integer variable of
symbolic value (the whole Integer range), so each obligation covers all amounts at once; literal
digit strings are used for the range checks beyond the Integer range.
Reference semantics (from the property statement), executed by the spec evaluator below on the same
command list:
  U D L R E F G H n : offset (dx, dy)*n, moved = trunc(scale * offset / 4) (toward zero), per axis
  M+x,y / M-x,y    : relative move by trunc(scale*x/4), trunc(scale*y/4);  M x,y : absolute position
  B : the next move does not draw;  N : the next move returns to its start;  both for one move only
  S n : scale (1..255);  C n : colour for the following segments, clipped to the mode's attributes as LINE clips it;  X s$ : executes the substring
  every drawn segment is one _draw_line(start, end, colour) - the line LINE draws (C31)
  POINT(0), POINT(1) report the final pen position
Illegal function call for counts beyond +-99999, coordinates beyond +-9999, scale outside 1..255.
"""

from .common import *
from pcbasic.basic.display import graphics
from pcbasic.basic import mlparser

PROPERTY = 'C33'

DIRS = {b'U': (0, -1), b'D': (0, 1), b'L': (-1, 0), b'R': (1, 0),
        b'E': (1, -1), b'F': (1, 1), b'G': (-1, 1), b'H': (-1, -1)}


class _Mode(object):
    _pyvc_trusted = True
    is_text_mode = False
    pixel_height, pixel_width = 200, 320


class _Memory(object):
    """Variable store seen by the macro-language parser."""
    _pyvc_trusted = True
    def __init__(self, vars_):
        self.vars = vars_
    def view_or_create_variable(self, name, indices):
        return self.vars[name.upper().rstrip(b'%$')]


def _trunc4(v):
    """trunc(v / 4) toward zero."""
    return If(v >= 0, v // 4, -((-v) // 4))


def _graphics(E, lines):
    g = object.__new__(graphics.Graphics)
    g._mode = _Mode()
    g._screen_aspect = (4, 3)
    g._values = values_env(with_strings=True)
    g._window = None
    g._window_bounds = None
    g._draw_scale = 4
    g._draw_angle = 0
    g._last_attr = 3
    g._num_attr = 4
    x0, y0 = E.int('x0', -32768, 32767), E.int('y0', -32768, 32767)
    g._last_point = (x0, y0)
    g._draw_current = None
    if E.mode == 'symbolic':
        E.interp.contracts[graphics.Graphics._draw_line] = lambda I, args, kw: lines.append(tuple(args[1:6]))
    else:
        g._draw_line = lambda *a: lines.append(tuple(a[:5]))
    return g, x0, y0


def _build(E, g, cmds):
    """Command list -> (DRAW string, variables, reference result)."""
    vals = g._values
    vars_ = {}
    text = b''
    # reference state
    pos = g._last_point
    scale, colour, plot, goback = 4, 3, True, False
    want_lines = []
    legal = True

    def var(letter):
        n = E.int(letter.decode(), -32768, 32767)
        o = E.new(numbers.Integer, None, vals)
        E.call(o.from_int, n)
        vars_[letter] = o
        return n

    for c in cmds:
        op = c[0]
        if op in DIRS:
            n = var(c[1])
            text += op + b'=' + c[1] + b';'
            dx, dy = DIRS[op]
            ox, oy = _trunc4(scale * (dx * n)), _trunc4(scale * (dy * n))
            new = (pos[0] + ox, pos[1] + oy)
            if plot:
                want_lines.append((pos[0], pos[1], new[0], new[1], colour))
            pos = pos if goback else new
            plot, goback = True, False
        elif op in (b'M+', b'M-', b'M'):
            x, y = var(c[1]), var(c[2])
            if op == b'M':
                text += b'M=' + c[1] + b';,=' + c[2] + b';'
                legal = And(legal, x >= -9999, x <= 9999, y >= -9999, y <= 9999)
                new = (x, y)
            else:
                sgn = op[1:]
                text += b'M' + sgn + b'=' + c[1] + b';,=' + c[2] + b';'
                if sgn == b'-':
                    x = -x
                legal = And(legal, x >= -9999, x <= 9999, y >= -9999, y <= 9999)
                new = (pos[0] + _trunc4(scale * x), pos[1] + _trunc4(scale * y))
            if plot:
                want_lines.append((pos[0], pos[1], new[0], new[1], colour))
            pos = pos if goback else new
            plot, goback = True, False
        elif op == b'B':
            text += b'B'
            plot = False
        elif op == b'N':
            text += b'N'
            goback = True
        elif op == b'S':
            s = var(c[1])
            text += b'S=' + c[1] + b';'
            legal = And(legal, s >= 1, s <= 255)
            scale = s
        elif op == b'C':
            a = var(c[1])
            text += b'C=' + c[1] + b';'
            # the colour LINE would use for this number: clipped to the attributes of the mode
            colour = Min(g._num_attr - 1, Max(0, a))
        elif op == b' ':
            text += b' ;'
        else:
            raise ValueError(op)
    return text, vars_, pos, want_lines, legal


def t_draw(E, cmds):
    E.nl_mode = 'abstract'
    lines = []
    g, x0, y0 = _graphics(E, lines)
    text, vars_, want_pos, want_lines, legal = _build(E, g, cmds)
    g._memory = _Memory(vars_)
    r = E.call(g._draw, text)
    if r.raised:
        E.cover('rejected')
        E.prove(r.is_error(BASICError, error.IFC), 'only Illegal function call')
        E.prove(Not(legal), 'only for a scale outside 1..255 or a coordinate beyond +-9999')
        return
    E.cover('drawn')
    E.prove(legal, 'accepted only inside the documented ranges')
    cur = g._draw_current
    E.prove(And(cur[0] == want_pos[0], cur[1] == want_pos[1]), 'the pen ends where the reference semantics puts it')
    lp = g._last_point
    E.prove(And(lp[0] == want_pos[0], lp[1] == want_pos[1]), 'and the graphics cursor follows (no WINDOW)')
    E.prove(len(lines) == len(want_lines), 'one segment per drawing move, none for B moves')
    for got, want in zip(lines, want_lines):
        E.prove(And(*[a == b for a, b in zip(got, want)]), 'each segment is the LINE from the start to the end of its move, in the current colour')
    # POINT(0), POINT(1)
    seen = []
    if E.mode == 'symbolic':
        E.interp.contracts[numbers.Float.from_value] = lambda I, args, kw: (seen.append(args[1]), args[0])[1]
        for fn in (0, 1):
            a0 = E.new(numbers.Integer, None, g._values)
            E.call(a0.from_int, fn)
            E.call(g.point_, iter([a0, None]))
        E.prove(len(seen) == 2 and bool(And(seen[0] == want_pos[0], seen[1] == want_pos[1])) if len(seen) == 2 else False,
                'POINT(0) and POINT(1) report the final pen position')


def t_draw_step(E):
    """One step: all offsets up to the DRAW limit, every scale, both flags."""
    E.nl_mode = 'abstract'
    lines = []
    g, x0, y0 = _graphics(E, lines)
    scale = E.int('scale', 1, 255)
    g._draw_scale = scale
    sx, sy = E.int('sx', -99999, 99999), E.int('sy', -99999, 99999)
    plot, goback = E.bool('plot'), E.bool('goback')
    r = E.call(g._draw_step, x0, y0, sx, sy, plot, goback)
    E.prove(not r.raised, 'never raises')
    if r.raised:
        return
    x1, y1 = x0 + _trunc4(scale * sx), y0 + _trunc4(scale * sy)
    if bool(plot):
        E.prove(len(lines) == 1 and bool(And(*[a == b for a, b in zip(lines[0], (x0, y0, x1, y1, 3))])) if len(lines) == 1 else False,
                'a drawing step draws the line from the start to start + trunc(scale*offset/4)')
    else:
        E.prove(lines == [], 'a blank step draws nothing')
    cur = g._draw_current
    E.prove(If(goback, And(cur[0] == x0, cur[1] == y0), And(cur[0] == x1, cur[1] == y1)),
            'the pen moves to the end of the step, or stays at its start with N')
    E.canary(cur[0] == x0, 'pen never moves')


def t_literal(E, text, ok):
    """Literal numbers: limits beyond the Integer range, defaults, blanks, X substrings."""
    lines = []
    g, x0, y0 = _graphics(E, lines)
    vals = g._values
    sub = E.new(strings.String, None, vals)
    E.call(sub.from_str, b'BR8D8')
    g._memory = _Memory({b'A': sub})
    r = E.call(g._draw, text)
    if ok is None:
        E.prove(r.is_error(BASICError, error.IFC), 'Illegal function call')
        return
    E.prove(not r.raised, 'accepted')
    if r.raised:
        return
    cur = g._draw_current
    E.prove(And(cur[0] == x0 + ok[0], cur[1] == y0 + ok[1]), 'pen offset as specified')
    E.prove(len(lines) == ok[2], 'number of segments drawn')


_V = [b'A', b'B', b'C', b'D', b'E', b'F']

def _cases():
    cs = []
    for d in sorted(DIRS):
        cs.append([(d, b'A')])
        cs.append([(b'S', b'S'), (d, b'A')])
    cs += [
        [(b'B',), (b'U', b'A'), (b'R', b'B')],
        [(b'N',), (b'U', b'A'), (b'R', b'B')],
        [(b'B',), (b'N',), (b'F', b'A'), (b'G', b'B')],
        [(b'M+', b'A', b'B')], [(b'M-', b'A', b'B')], [(b'M', b'A', b'B')],
        [(b'S', b'S'), (b'M+', b'A', b'B')], [(b'S', b'S'), (b'M-', b'A', b'B')],
        [(b'B',), (b'M', b'A', b'B'), (b'R', b'C')],
        [(b'N',), (b'M', b'A', b'B'), (b'L', b'C')],
        [(b'B',), (b'M+', b'A', b'B'), (b'D', b'C')],
        [(b'N',), (b'M+', b'A', b'B'), (b'H', b'C')],
        [(b'C', b'C'), (b'E', b'A'), (b'C', b'D'), (b'F', b'B')],
        [(b'U', b'A'), (b' ',), (b'S', b'S'), (b'R', b'B'), (b'S', b'T'), (b'D', b'C')],
        [(b'E', b'A'), (b'N',), (b'F', b'B'), (b'B',), (b'G', b'C'), (b'H', b'D')],
        [(b'R', b'A'), (b'N',), (b'M', b'B', b'C'), (b'D', b'D')],
        [(b'B',), (b'M', b'A', b'B'), (b'N',), (b'M', b'C', b'D'), (b'R', b'E')],
        [(b'U', b'A'), (b'B',), (b'M', b'B', b'C'), (b'N',), (b'M+', b'D', b'E'), (b'L', b'F')],
    ]
    return [{'cmds': c} for c in cs]


TASKS = [
    Task('Graphics._draw_step', t_draw_step),
    Task('Graphics._draw (symbolic amounts)', t_draw, cases=_cases(), covers=('drawn', 'rejected')),
    Task('Graphics._draw (literals, defaults, limits)', t_literal, cases=[
        {'text': b'U', 'ok': (0, -1, 1)}, {'text': b'R5 D 3', 'ok': (5, 3, 2)}, {'text': b'r5;;d3;', 'ok': (5, 3, 2)},
        {'text': b'U99999', 'ok': (0, -99999, 1)}, {'text': b'U100000', 'ok': None}, {'text': b'U-100000', 'ok': None},
        {'text': b'S255R4', 'ok': (255, 0, 1)}, {'text': b'S0', 'ok': None}, {'text': b'S256', 'ok': None},
        {'text': b'BM+9999,-9999', 'ok': (9999, -9999, 0)}, {'text': b'M+10000,0', 'ok': None}, {'text': b'M0,-10000', 'ok': None},
        {'text': b'M+5', 'ok': None}, {'text': b'Q', 'ok': None}, {'text': b'U+', 'ok': None},
        {'text': b'XA;', 'ok': (8, 8, 1)}, {'text': b'U3XA;L1', 'ok': (7, 5, 3)},
        {'text': b'S8E3', 'ok': (6, -6, 1)}, {'text': b'S1R7', 'ok': (1, 0, 1)}, {'text': b'S1L7', 'ok': (-1, 0, 1)},
        {'text': b'S3G5', 'ok': (-3, 3, 1)}, {'text': b'NU5', 'ok': (0, 0, 1)}, {'text': b'BU5', 'ok': (0, -5, 0)},
    ]),
]

ASSUMPTIONS = [
    'command structure of the DRAW string is a case parameter (all 8 directions alone and with S, B/N prefixes, M+/M-/M, '
    'C, blanks, six multi-command sequences); amounts are symbolic Integer variables passed as "=V;"',
    'float division by 4. of an integer below 2**53 is exact (IEEE 754): modelled as an exact quotient that is then truncated',
    '_draw_line is taken by contract (C31): a segment is "the line LINE would draw" because it is the same function call',
    'the variable store behind "=V;" and X is a stand-in returning the value objects',
]
NOT_COVERED = ['angle turning (A, TA: floating-point rotation; excluded by the property)', 'P (paint) inside DRAW',
               'WINDOW coordinates for POINT(2), POINT(3)', 'VARPTR$ arguments ("=" followed by a 3-byte pointer)']
