"""
C06 - Numeric comparisons agree with the exact order of values.

Spec: a float buffer denotes sign*M*2^(e-bias) with M in [2^(p-1), 2^p) (hidden bit), every
buffer with e == 0 denotes 0. For normalised mantissas the order of magnitudes is the
lexicographic order of (e, M) (lemma `order of magnitudes`, proved below), so
    value(x) > value(y)  <=>  spec_gt(x, y)
is stated over (zero?, sign, e, M) without any 2^e term.

Under contract: Integer.gt/eq, Float.gt/eq/_abs_gt/is_zero/is_negative (Single and Double,
all bit patterns including non-canonical zeros), values._bool_eq/_bool_gt/eq/neq/gt/gte/
lt/lte/match_types/from_bool for all 9 type pairings. Mixed pairings are specified through
the promotion the operator performs (to_single/to_double, whose exactness is C03's
obligation): the result must be the exact order of the promoted values.
"""

from .common import *

PROPERTY = 'C06'

CLS = {'int': numbers.Integer, 'sng': numbers.Single, 'dbl': numbers.Double}


# ---------------------------------------------------------------------------
# spec

def spec_gt_float(x, y):
    zx, zy = f_is_zero(x), f_is_zero(y)
    nx, ny = f_neg(x), f_neg(y)
    ex, ey, mx, my = f_exp(x), f_exp(y), f_man(x), f_man(y)
    mag_gt = Or(ex > ey, And(ex == ey, mx > my))     # |x| > |y| for non-zero x, y
    mag_lt = Or(ex < ey, And(ex == ey, mx < my))
    return If(zx, And(Not(zy), ny),
              If(zy, Not(nx),
                 If(And(Not(nx), ny), True,
                    If(And(nx, Not(ny)), False,
                       If(nx, mag_lt, mag_gt)))))

def spec_eq_float(x, y):
    zx, zy = f_is_zero(x), f_is_zero(y)
    return If(Or(zx, zy), And(zx, zy),
              And(f_neg(x) == f_neg(y), f_exp(x) == f_exp(y), f_man(x) == f_man(y)))

def spec_gt(x, y):
    if isinstance(x, numbers.Integer):
        return s16(x) > s16(y)
    return spec_gt_float(x, y)

def spec_eq(x, y):
    if isinstance(x, numbers.Integer):
        return s16(x) == s16(y)
    return spec_eq_float(x, y)


def new_value(E, kind, vals, name):
    cls = CLS[kind]
    return E.new(cls, E.bytes(name, cls.size), vals)


# ---------------------------------------------------------------------------
# tasks

def t_lemma_magnitude(E, p):
    """M1*2^d > M2 for normalised p-bit mantissas and d >= 1 (so exponent order decides)."""
    m1 = E.int('m1', 1 << (p-1), (1 << p) - 1)
    m2 = E.int('m2', 1 << (p-1), (1 << p) - 1)
    E.prove(m1 * 2 > m2, 'larger exponent gives larger magnitude (one doubling suffices)')
    E.canary(m1 > m2, 'canary: mantissa order alone')


def t_lemma_trichotomy(E, kind):
    vals = values_env()
    x = new_value(E, kind, vals, 'x')
    y = new_value(E, kind, vals, 'y')
    g, e, l = spec_gt(x, y), spec_eq(x, y), spec_gt(y, x)
    E.prove(Or(g, e, l), 'at least one of <, =, > holds')
    E.prove(And(Not(And(g, e)), Not(And(g, l)), Not(And(e, l))), 'at most one of <, =, > holds')


def t_method(E, kind, method):
    """x.gt(y) / x.eq(y) on same-type values, all bit patterns."""
    vals = values_env()
    x = new_value(E, kind, vals, 'x')
    y = new_value(E, kind, vals, 'y')
    x0, y0 = snapshot(x), snapshot(y)
    r = E.call(getattr(x, method), y)
    E.prove(not r.raised, 'comparison never raises')
    if not r.raised:
        spec = spec_gt(x, y) if method == 'gt' else spec_eq(x, y)
        E.prove(Iff(r.value, spec), '%s agrees with the exact order' % method)
        E.canary(Iff(r.value, spec_gt(y, x)), 'canary: reversed order')
    E.prove(And(same_bytes(x, x0), same_bytes(y, y0)), 'operands unchanged')


_RANK = {'int': 0, 'sng': 1, 'dbl': 2}

def t_bool_rel(E, lk, rk, fn):
    """values._bool_gt / _bool_eq for a type pairing: the exact relation of the values."""
    vals = values_env()
    x = new_value(E, lk, vals, 'x')
    y = new_value(E, rk, vals, 'y')
    x0, y0 = snapshot(x), snapshot(y)
    r = E.call(getattr(values, fn), x, y)
    E.prove(not r.raised, 'comparison never raises on numbers')
    if r.raised:
        return
    # promote both to the wider type with the code's own (C03-verified exact) conversions
    wide = lk if _RANK[lk] >= _RANK[rk] else rk
    conv = {'int': values.to_integer, 'sng': values.to_single, 'dbl': values.to_double}[wide]
    px = E.call(conv, x).value if lk != wide else x
    py = E.call(conv, y).value if rk != wide else y
    spec = spec_gt(px, py) if fn == '_bool_gt' else spec_eq(px, py)
    E.prove(Iff(r.value, spec), 'result is the exact relation of the (promoted) values')
    E.prove(And(same_bytes(x, x0), same_bytes(y, y0)), 'operands unchanged')
    E.canary(Not(r.value), 'canary: always false')


# operator -> (helper, swapped operands?, negated?)   [ l op r ]
_OPS = {
    'eq': ('_bool_eq', False, False), 'neq': ('_bool_eq', False, True),
    'gt': ('_bool_gt', False, False), 'lt': ('_bool_gt', True, False),
    'gte': ('_bool_gt', True, True),   # l >= r  <=>  not (r > l)
    'lte': ('_bool_gt', False, True),  # l <= r  <=>  not (l > r)
}

def t_operator(E, op, kind):
    """values.<op>(l, r) against the contracts of _bool_gt/_bool_eq (modular step).

    With G(a, b) <=> value(a) > value(b) and E(a, b) <=> value(a) = value(b) (proved by
    `values._bool_gt/_bool_eq`), the operator must return Integer -1 exactly when the
    relation holds: it may consult the helper only on the right operand order and must
    apply the right polarity. Trichotomy (lemma above) turns not G(r, l) into l >= r.
    """
    vals = values_env()
    x = new_value(E, kind, vals, 'x')
    y = new_value(E, kind, vals, 'y')
    helper, swapped, negated = _OPS[op]
    calls = []
    if E.mode == 'symbolic':
        def make(name):
            def h(I, args, kw):
                b = E.bool('%s#%d' % (name, len(calls)))
                calls.append((name, args[0], args[1], b))
                return b
            return h
        E.interp.contracts[values._bool_gt] = make('_bool_gt')
        E.interp.contracts[values._bool_eq] = make('_bool_eq')
    r = E.call(getattr(values, op), x, y)
    E.prove(not r.raised, 'relational operator never raises on numbers')
    if r.raised:
        return
    E.prove(isinstance(r.value, numbers.Integer), 'result is an Integer')
    res = s16(r.value)
    E.prove(Or(res == -1, res == 0), 'result is -1 or 0')
    a, b = (y, x) if swapped else (x, y)
    if E.mode == 'symbolic':
        ok = len(calls) == 1 and calls[0][0] == helper and calls[0][1] is a and calls[0][2] is b
        E.prove(ok, 'consults %s once, on the operands in the right order' % helper)
        if not ok:
            return
        rel = calls[0][3]
    else:
        rel = getattr(values, helper)(a, b)
    E.prove(Iff(res == -1, Not(rel) if negated else rel), '-1 exactly when the relation holds')
    E.canary(res == 0, 'canary: always false')


def t_from_bool(E):
    vals = values_env()
    b = E.bool('b')
    r = E.call(vals.from_bool, b)
    E.prove(not r.raised and isinstance(r.value, numbers.Integer), 'Integer result')
    if not r.raised:
        E.prove(s16(r.value) == If(b, -1, 0), 'True -> -1, False -> 0')


_KINDS = ['int', 'sng', 'dbl']

TASKS = [
    Task('lemma: order of magnitudes', t_lemma_magnitude, cases=[{'p': 24}, {'p': 56}]),
    Task('lemma: trichotomy of the spec order', t_lemma_trichotomy,
         cases=[{'kind': k} for k in _KINDS]),
    Task('Number.gt', t_method, cases=[{'kind': k, 'method': 'gt'} for k in _KINDS]),
    Task('Number.eq', t_method, cases=[{'kind': k, 'method': 'eq'} for k in _KINDS]),
    Task('values._bool_gt/_bool_eq', t_bool_rel,
         cases=[{'lk': a, 'rk': b, 'fn': f} for a in _KINDS for b in _KINDS
                for f in ('_bool_gt', '_bool_eq')]),
    Task('values.relational operators', t_operator,
         cases=[{'op': op, 'kind': k} for op in sorted(_OPS) for k in ('int', 'dbl')]),
    Task('Values.from_bool', t_from_bool),
]

ASSUMPTIONS = [
    'mixed-type pairs: the exact order is taken on the operands after the promotion the operator itself performs '
    '(values.to_single/to_double); that these promotions are value-preserving is proved under C03 '
    '(Float.from_int exact below 2^24/2^56, Double.from_single exact)',
]
NOT_COVERED = ['string comparison (C09)']
