"""
C38 - Event traps fire only when enabled and never re-enter (transition contracts).

Schedules are handled deductively: every transition over the per-handler record
(in enabled set, stopped, triggered, gosub) and the globals (suspend_all, run_mode) has a
contract; no interleaving is enumerated. Real source: Interpreter.handle_basic_events /
jump_sub / return_ / trap_error / resume_ (interpreter.py), BasicEvents.command,
EventHandler.trigger / set_jump / reset (basicevents.py). Handler records are symbolic.
  dispatch (handle_basic_events): a handler's subroutine is entered ONLY IF a program is running,
      traps are not suspended (no error handler active), and the handler is enabled, triggered,
      not stopped and has a line; dispatch clears `triggered`, sets `stopped`, and pushes a
      return record carrying the handler; every other handler record is unchanged
  RETURN from that subroutine clears `stopped` for that handler only
  command ON: enabled, not stopped; OFF: removed from the enabled set; STOP: stopped, still
      enabled - so an occurrence while stopped stays recorded (`triggered`) and is dispatched
      once after ON / RETURN
  suspend_all is set by trap_error when it enters a handler and cleared by resume_ (C21)
Lemma (from the contracts): between two dispatches of one handler there is a transition that
clears `stopped` (its own RETURN, or ON) - no re-entry.
"""

from .icommon import *

PROPERTY = 'C38'


def _handlers(E, n):
    hs = []
    for i in range(n):
        h = basicevents.EventHandler()
        h.gosub = E.choice('gosub%d' % i, [None, 100, 200])
        h.stopped = E.bool('stopped%d' % i)
        h.triggered = E.bool('triggered%d' % i)
        hs.append(h)
    return hs


def t_dispatch(E, run_mode, suspended):
    it = make_interpreter(E, run_mode=run_mode, pos=70)
    hs = _handlers(E, 2)
    en = [E.bool('enabled%d' % i) for i in range(2)]
    ev = Events(hs)
    # the enabled set, in handler order (real code iterates a set; order is immaterial for one dispatch per handler)
    ev.enabled = [h for h, e_ in zip(hs, en) if bool(e_)]
    ev.suspend_all = suspended
    it._basic_events = ev
    before = [(h.gosub, h.stopped, h.triggered) for h in hs]
    r = E.call(it.handle_basic_events)
    E.prove(not r.raised, 'never raises')
    pushed = [rec[2] for rec in it.gosub_stack]
    for i, h in enumerate(hs):
        g0, s0, t0 = before[i]
        may = And(run_mode, Not(suspended), en[i], t0, Not(s0), g0 is not None)
        if h in pushed:
            E.cover('dispatched')
            E.prove(may, 'dispatched only if running, not suspended, enabled, triggered, not stopped, with a line')
            E.prove(h.triggered is False and h.stopped is True, 'dispatch consumes the trigger and stops the event while it is handled')
            E.prove(pushed.count(h) == 1, 'dispatched once')
        else:
            E.cover('not dispatched')
            E.prove(Not(may), 'an eligible handler is dispatched')
            E.prove(And(Iff(h.triggered, t0), Iff(h.stopped, s0)) and h.gosub == g0, 'other handler records are unchanged')
    if not run_mode or suspended:
        E.prove(it.gosub_stack == [], 'nothing is dispatched in direct mode or while an error handler is active')


def t_return_reenables(E):
    it = make_interpreter(E)
    hs = _handlers(E, 2)
    hs[0].stopped = True
    s1 = hs[1].stopped
    it.gosub_stack = [(55, True, None), (66, True, hs[0])]
    r = E.call(it.return_, iter([None]))
    E.prove(not r.raised, 'RETURN succeeds')
    E.prove(hs[0].stopped is False, 'RETURN from the trap subroutine re-enables that event')
    E.prove(Iff(hs[1].stopped, s1), 'and no other')
    E.prove(last_seek(it._program_code) == 66 and not any(x[0] == 'skip_to' for x in it._program_code.log),
            'execution resumes exactly where the event interrupted it')
    hs[0].stopped = True
    r2 = E.call(it.return_, iter([None]))
    E.prove(hs[0].stopped is True, 'an ordinary RETURN does not touch event state')
    # RETURN <line> from the trap subroutine re-enables the event just the same
    it2 = make_interpreter(E)
    hs2 = _handlers(E, 2)
    hs2[0].stopped = True
    it2.gosub_stack = [(55, True, None), (66, True, hs2[0])]
    r3 = E.call(it2.return_, iter([100]))
    E.prove(not r3.raised, 'RETURN 100 succeeds')
    E.prove(hs2[0].stopped is False, 'RETURN <line> from the trap subroutine re-enables that event as well')
    E.prove(last_seek(it2._program_code) == LINES[100], 'and continues at the given line')


def t_command(E, cmd):
    ev = object.__new__(basicevents.BasicEvents)
    h = basicevents.EventHandler()
    other = basicevents.EventHandler()
    h.stopped, h.triggered, h.gosub = E.bool('stopped'), E.bool('triggered'), 100
    was_enabled = E.bool('enabled')
    ev.enabled = set([h, other]) if bool(was_enabled) else set([other])
    t0 = h.triggered
    s0 = h.stopped
    r = E.call(ev.command, h, {'on': tk.ON, 'off': tk.OFF, 'stop': tk.STOP}[cmd])
    E.prove(not r.raised, 'never raises')
    E.prove(other in ev.enabled, 'other events unaffected')
    E.prove(Iff(h.triggered, t0), 'a recorded occurrence is kept')
    if cmd == 'on':
        E.prove(h in ev.enabled and h.stopped is False, 'ON: enabled and not stopped')
    elif cmd == 'off':
        E.prove(h not in ev.enabled, 'OFF: no longer enabled (occurrences are not dispatched)')
    else:
        E.prove(h.stopped is True and (h in ev.enabled) == bool(was_enabled), 'STOP: stopped, enabledness unchanged')


def t_handler_basics(E):
    h = E.new(basicevents.EventHandler)
    E.prove(h.gosub is None and h.stopped is False and h.triggered is False, 'initially: no line, not stopped, not triggered')
    E.call(h.trigger)
    E.prove(h.triggered is True and h.stopped is False, 'trigger records the occurrence only')
    E.call(h.set_jump, 100)
    E.prove(h.gosub == 100, 'set_jump sets the line')
    E.call(h.reset)
    E.prove(h.gosub is None and h.stopped is False and h.triggered is False, 'reset clears everything')


class _Clock(object):
    _pyvc_trusted = True
    def __init__(self, now):
        self.now = now
    def get_time_ms(self):
        return self.now


class _Sound(object):
    _pyvc_trusted = True
    def __init__(self, waiting, multivoice):
        self.waiting, self.multivoice = waiting, multivoice
    def tones_waiting(self):
        return self.waiting


def t_check_input(E, kind):
    """An occurrence is recorded (`triggered`) whether or not the trap is stopped - that is what makes
    "an occurrence while stopped is handled once after ON / RETURN" true; `stopped` is never touched."""
    from pcbasic.basic.base import signals, scancode
    stopped, trig0 = E.bool('stopped'), E.bool('triggered')
    match = E.bool('occurrence matches this handler')
    if kind == 'key':
        h = E.new(basicevents.KeyHandler, scancode.F1)
        sig = signals.Event(signals.KEYB_DOWN, (u'', scancode.F1 if match else scancode.F2, []))
        swallow = True
    elif kind == 'key-defined':
        h = E.new(basicevents.KeyHandler)
        E.call(h.set_trigger, bytes([4, scancode.a]))
        mods = [scancode.CTRL] if match else [scancode.ALT]
        sig = signals.Event(signals.KEYB_DOWN, (u'', scancode.a, mods))
        swallow = True
    elif kind == 'pen':
        h = E.new(basicevents.PenHandler)
        sig = signals.Event(signals.PEN_DOWN if match else signals.PEN_UP, (1, 1))
        swallow = False
    elif kind == 'strig':
        h = E.new(basicevents.StrigHandler, 0, 1)
        sig = signals.Event(signals.STICK_DOWN, (0, 1) if match else (1, 1))
        swallow = False
    elif kind == 'timer':
        now = E.int('now', 0, 10**9)
        h = E.new(basicevents.TimerHandler, _Clock(0))
        E.call(h.set_trigger, 1000)
        h.clock.now = now
        match = now >= 1000
        sig = signals.Event(None)
        swallow = False
    else:
        raise Unsupported(kind)
    h.stopped, h.triggered = stopped, trig0
    r = E.call(h.check_input, sig)
    E.prove(not r.raised, 'never raises')
    E.prove(Iff(h.triggered, Or(trig0, match)), 'the occurrence is recorded exactly when it matches - whether or not the trap is stopped')
    E.prove(Iff(h.stopped, stopped), 'stopped is not touched')
    if swallow:
        E.prove(Iff(r.value, match), 'a trapped key is removed from further processing exactly when it matches')
    else:
        E.prove(not r.value, 'the signal is left for other consumers')


def t_writers(E):
    """Frame: the only stores to .stopped / .triggered / .suspend_all in the package are in the
    functions under contract (AST scan of the current source)."""
    import ast, os
    import pcbasic.basic as pkg
    root = os.path.dirname(pkg.__file__)
    found = set()
    for dp, dn, fn in os.walk(root):
        for f in fn:
            if not f.endswith('.py'):
                continue
            tree = ast.parse(open(os.path.join(dp, f)).read())
            for fd in ast.walk(tree):
                if isinstance(fd, ast.FunctionDef):
                    for n in ast.walk(fd):
                        ts = n.targets if isinstance(n, ast.Assign) else ([n.target] if isinstance(n, ast.AugAssign) else [])
                        for t in ts:
                            if isinstance(t, ast.Attribute) and t.attr in ('stopped', 'triggered', 'suspend_all'):
                                found.add((os.path.relpath(os.path.join(dp, f), root), fd.name, t.attr))
    allowed = {
        ('basicevents.py', 'reset', 'suspend_all'), ('basicevents.py', 'command', 'stopped'),
        ('basicevents.py', 'reset', 'stopped'), ('basicevents.py', 'reset', 'triggered'),
        ('basicevents.py', 'trigger', 'triggered'),
        ('interpreter.py', 'handle_basic_events', 'triggered'), ('interpreter.py', 'handle_basic_events', 'stopped'),
        ('interpreter.py', 'return_', 'stopped'), ('interpreter.py', 'trap_error', 'suspend_all'),
        ('interpreter.py', 'resume_', 'suspend_all'),
    }
    extra = sorted(found - allowed)
    E.prove(extra == [], 'no other function writes event state: %r' % (extra,))
    E.prove(len(found & allowed) >= 8, 'the writers under contract exist')


def t_set_pointer(E, old_mode, new_mode):
    """Interpreter.set_pointer: KEY/event handlers take input only while a program runs - entering run mode
    installs the enabled handlers in the input chain, returning to direct mode removes them all (a trapped
    key typed at the prompt reaches the keyboard buffer instead of being swallowed)."""
    from pcbasic.basic import interpreter as interp_mod
    from .C16 import Spy
    log = []
    it = object.__new__(interp_mod.Interpreter)
    it.run_mode = old_mode
    it._files = Spy('files', log)
    it._sound = Spy('sound', log)
    it._queues = Spy('queues', log)
    enabled = ['handler-1', 'handler-2']
    class _Ev(object):
        pass
    it._basic_events = _Ev()
    it._basic_events.enabled = enabled
    class _Code(object):
        _pyvc_trusted = True
        def __init__(self):
            self.seeks = []
        def seek(self, *a):
            self.seeks.append(a)
    it._program_code, it.direct_line = _Code(), _Code()
    pos = E.int('pos', 0, 60000)
    r = E.call(it.set_pointer, new_mode, pos)
    E.prove(not r.raised, 'never raises')
    E.prove(it.run_mode == new_mode, 'the mode is switched')
    sets = [a for (n, a) in log if n == 'queues.set_basic_event_handlers']
    E.prove(len(sets) >= 1, 'the input chain is updated')
    if sets:
        last = sets[-1][0]
        if new_mode:
            E.prove(last is enabled, 'run mode: the enabled event handlers take input')
        else:
            E.prove(list(last) == [], 'direct mode: no event handler takes input')
    cs = it._program_code if new_mode else it.direct_line
    E.prove(cs.seeks == [(pos,)], 'the pointer is set in the code of the new mode')


def t_basic_handlers(E, n):
    """EventQueues.set_basic_event_handlers: every enabled handler takes input, in order, whether or not it
    is stopped at the moment - a stopped trap must still record the occurrence (it fires after ON / RETURN)."""
    from pcbasic.basic import eventcycle
    q = object.__new__(eventcycle.EventQueues)
    class _H(object):
        def __init__(self, stopped):
            self.stopped = stopped
    hs = [_H(E.bool('stopped[%d]' % i)) for i in range(n)]
    r = E.call(q.set_basic_event_handlers, iter(hs))
    E.prove(not r.raised, 'never raises')
    got = list(q._basic_handlers)
    E.prove(len(got) == n and all(a is b for a, b in zip(got, hs)), 'all enabled handlers are in the input chain, in order, stopped or not')


TASKS = [
    Task('Interpreter.handle_basic_events', t_dispatch, covers=('dispatched', 'not dispatched'),
         cases=[{'run_mode': m, 'suspended': s} for m in (True, False) for s in (True, False)]),
    Task('Interpreter.return_ (event subroutine)', t_return_reenables),
    Task('BasicEvents.command', t_command, cases=[{'cmd': c} for c in ('on', 'off', 'stop')]),
    Task('EventHandler', t_handler_basics),
    Task('writers of event state (structure)', t_writers),
    Task('check_input (occurrence recorded)', t_check_input,
         cases=[{'kind': k} for k in ('key', 'key-defined', 'pen', 'strig', 'timer')]),
    Task('Interpreter.set_pointer (event handlers only in run mode)', t_set_pointer,
         cases=[{'old_mode': a, 'new_mode': b} for a in (False, True) for b in (False, True)]),
    Task('EventQueues.set_basic_event_handlers', t_basic_handlers, cases=[{'n': n} for n in (0, 1, 3)]),
]

ASSUMPTIONS = [
    'two handlers with symbolic records stand for any number (the dispatch loop treats each handler independently)',
    'the enabled set is iterated in list order in the harness; which eligible handler goes first is not part of the property',
    '"an occurrence while OFF is lost" relies on the input queue calling check_input only for enabled handlers (EventQueues, not covered); COM handlers stay enabled on OFF by design',
]
NOT_COVERED = ['trigger conditions of PLAY/COM check_input (KEY/TIMER/PEN/STRIG are covered)', 'EventQueues plumbing and interface threads']
