"""
C36 - The text cursor and screen content stay consistent (cursor arithmetic).

Under contract (real source, display/textscreen.py): ScrollArea.set/unset/init_mode,
TextScreen.set_pos / _wrap_around_and_scroll_as_needed / scroll, locate_, csrlin_, pos_,
view_print_. Screen size (width 20..132, height 25..50), scroll window and positions symbolic.
  invariant cursor_ok: 1 <= row <= height, 1 <= col <= width;  scroll_ok: 1 <= top <= bottom <= height
  set_pos(row, col)  (-width < col <= 2*width, as incr_pos/decr_pos/LOCATE produce): cursor_ok
      afterwards; col > width wraps to the next row (col - width) when allowed, col < 1 to the
      previous row; the text scrolls only when the row passes the bottom of the scroll window
      and scrolling is allowed, and then only inside [top, bottom]
  LOCATE r, c: the cursor is exactly at (r, c) or Illegal function call per the range rules
      (bottom row with key bar, VIEW PRINT window); nothing moves on error
  CSRLIN / POS report the cursor (with the overflow convention)
  VIEW PRINT a TO b: Illegal function call unless 1 <= a <= b <= 24 (25 on Tandy without key bar)
The page buffer (character cells, scroll_up) and the cursor sprite are recording stand-ins.
"""

from .common import *
from pcbasic.basic.display import textscreen

PROPERTY = 'C36'


class _Rec(object):
    _pyvc_trusted = True
    def __init__(self):
        object.__setattr__(self, 'log', [])
    def __getattr__(self, k):
        if k.startswith('__'):
            raise AttributeError(k)
        def f(*a, **kw):
            self.log.append((k, a))
            return 1
        return f

class _Mode(object):
    _pyvc_trusted = True
    def __init__(self, w, h):
        self.width, self.height = w, h
        self.is_text_mode = True

class _Bar(object):
    visible = False


def _screen(E, window):
    W = E.int('width', 20, 132)
    H = E.int('height', 25, 50)
    t = object.__new__(textscreen.TextScreen)
    t.mode = _Mode(W, H)
    t._apage = _Rec()
    t._cursor = _Rec()
    t._values = values_env()
    t._locked = False
    t._attr = 7
    t._tandytext = False
    t._bottom_bar = _Bar()
    t._bottom_row_allowed = False
    t.overflow = E.bool('overflow')
    sa = E.new(textscreen.ScrollArea, t.mode)
    if window:
        top = E.int('top', 1, 50)
        bot = E.int('bottom', 1, 50)
        E.assume(And(top <= bot, bot <= H - 1))
        E.call(sa.set, top, bot)
    t.scroll_area = sa
    r = E.int('row', 1, 50)
    c = E.int('col', 1, 132)
    E.assume(And(r <= H, c <= W))
    if window:
        E.assume(And(r >= sa._top, r <= sa._bottom))
    else:
        E.assume(r <= H - 1)
    t.current_row, t.current_col = r, c
    return t, W, H, sa


def t_set_pos(E, window, scroll_ok):
    t, W, H, sa = _screen(E, window)
    row0 = t.current_row
    to_col = E.int('to_col', -131, 264)
    E.assume(And(to_col > -W, to_col <= 2 * W))
    r = E.call(t.set_pos, row0, to_col, scroll_ok)
    E.prove(not r.raised, 'never raises')
    if r.raised:
        return
    row, col = t.current_row, t.current_col
    top, bot = sa._top, sa._bottom
    E.prove(And(row >= 1, row <= H, col >= 1, col <= W), 'cursor stays on the screen')
    E.prove(And(row >= top, row <= bot), 'cursor stays inside the scroll window')
    scrolls = [x for x in t._apage.log if x[0] == 'scroll_up']
    E.prove(len(scrolls) <= 1, 'at most one scroll')
    E.prove(Implies(to_col != W, Not(t.overflow)) if isinstance(t.overflow, SBool) else (t.overflow is False or bool(to_col == W)),
            'an overflow position left by earlier output survives only a move within the last column')
    if scrolls:
        E.cover('scrolled')
        E.prove(scroll_ok, 'no scrolling unless allowed')
        E.prove(And(to_col > W, row0 == bot), 'scrolls only when wrapping past the bottom row of the window')
        a = scrolls[0][1]
        E.prove(And(a[0] == top, a[1] == bot), 'scrolls exactly the rows of the window, nothing outside')
        E.prove(And(row == bot, col == to_col - W), 'cursor on the freed bottom row, column wrapped')
    else:
        E.cover('no scroll')
        wrapped_down = And(to_col > W, Or(row0 < bot, scroll_ok))
        E.prove(Implies(And(to_col >= 1, to_col <= W), And(row == row0, col == to_col)), 'inside the row: exact position')
        E.prove(Implies(And(to_col > W, row0 < bot), And(row == row0 + 1, col == to_col - W)), 'past the right edge: next row, column - width')
        E.prove(Implies(And(to_col > W, row0 == bot, Not(scroll_ok)), And(row == row0, col == W)), 'cannot scroll: stop at the right edge')
        E.prove(Implies(And(to_col < 1, row0 > top), And(row == row0 - 1, col == to_col + W)), 'before the left edge: previous row')
        E.prove(Implies(And(to_col < 1, row0 == top), And(row == row0, col == 1)), 'top-left corner: stop')


def t_set_pos_rows(E, window, scroll_ok):
    """Vertical moves, including from / to the bottom row outside the window (line feed on row 25)."""
    t, W, H, sa = _screen(E, window)
    allowed = E.bool('bottom row allowed')
    t._bottom_row_allowed = allowed
    to_row = E.int('to_row', 0, 52)
    to_col = E.int('to_col', 1, 132)
    E.assume(And(to_row <= H + 1, to_col <= W))
    r = E.call(t.set_pos, to_row, to_col, scroll_ok)
    E.prove(not r.raised, 'never raises')
    if r.raised:
        return
    row, col = t.current_row, t.current_col
    top, bot = sa._top, sa._bottom
    scrolls = [x for x in t._apage.log if x[0] == 'scroll_up']
    E.prove(col == to_col, 'column as requested')
    if t._bottom_row_allowed is True or (isinstance(t._bottom_row_allowed, SBool) and bool(t._bottom_row_allowed)):
        E.cover('bottom row')
        E.prove(And(allowed, to_row == H), 'the bottom row outside the window is entered only when allowed and asked for')
        E.prove(And(row == H, len(scrolls) == 0), 'cursor on the bottom row, no scroll')
        return
    E.prove(And(row >= top, row <= bot), 'otherwise the cursor ends inside the scroll window')
    E.prove(len(scrolls) <= 1, 'at most one scroll')
    if scrolls:
        E.cover('scrolled')
        a = scrolls[0][1]
        E.prove(And(scroll_ok, to_row > bot), 'scrolls only when moving below the window and allowed')
        E.prove(And(a[0] == top, a[1] == bot), 'scrolls exactly the rows of the window')
        E.prove(row == bot, 'cursor on the bottom row of the window after the scroll')
    else:
        E.cover('no scroll')
        E.prove(Implies(to_row > bot, And(Not(scroll_ok), row == bot)), 'below the window without scrolling: stops on its bottom row')
        E.prove(Implies(to_row < top, row == top), 'above the window: its top row')
        E.prove(Implies(And(to_row >= top, to_row <= bot), row == to_row), 'inside the window: exact row')


class _Page(object):
    """Text page stand-in: logs every operation; whether the current row already wraps is a symbolic input."""
    _pyvc_trusted = True
    def __init__(self, wraps):
        self._wraps = wraps
        self.log = []
    def wraps(self, row):
        return self._wraps
    def set_wrap(self, row, wrap):
        self.log.append(('set_wrap', (row, wrap)))
    def put_char_attr(self, row, col, char, attr, adjust_end=False):
        self.log.append(('put_char_attr', (row, col, char, attr)))
    def scroll_up(self, frm, to, attr):
        self.log.append(('scroll_up', (frm, to)))
    def scroll_down(self, frm, to, attr):
        self.log.append(('scroll_down', (frm, to)))
    def get_charwidth(self, row, col):
        return 1
    def __getattr__(self, k):
        if k.startswith('__'):
            raise AttributeError(k)
        return lambda *a, **kw: 1
    def collect_updates(self):
        return self
    def __enter__(self):
        return self
    def __exit__(self, *a):
        return False


def t_write_char(E, window, do_scroll_down):
    """One printed character, from every cursor state inside the window: where it lands, what scrolls, where
    the cursor goes. Plain text placement (wrap at the width, scroll only inside the window, rows outside
    untouched) follows by induction over the characters of the string."""
    t, W, H, sa = _screen(E, window)
    page = _Page(E.bool('row already wraps'))
    t._apage = page
    row0, col0, ov0 = t.current_row, t.current_col, t.overflow
    # the overflow position exists only in the last column
    E.assume(Implies(ov0, col0 == W))
    top, bot = sa._top, sa._bottom
    r = E.call(t.write_char, b'x', do_scroll_down)
    E.prove(not r.raised, 'never raises')
    if r.raised:
        return
    log = page.log
    puts = [x[1] for x in log if x[0] == 'put_char_attr']
    ups = [x[1] for x in log if x[0] == 'scroll_up']
    downs = [x[1] for x in log if x[0] == 'scroll_down']
    E.prove(len(puts) == 1, 'exactly one character cell is written')
    if len(puts) != 1:
        return
    pr, pc, ch, attr = puts[0]
    E.prove(ch == b'x' and attr == 7, 'with the character and the current attribute')
    # where: the cursor cell, or the start of the next row when the line is full (overflow position)
    E.prove(If(ov0, And(pc == 1, pr == If(row0 < bot, row0 + 1, bot)), And(pr == row0, pc == col0)),
            'at the cursor cell - or, from the overflow position, at column 1 of the next row (the bottom row after a scroll)')
    E.prove(And(pr >= top, pr <= bot, pc >= 1, pc <= W), 'inside the scroll window and the screen width')
    for u in ups:
        E.prove(And(u[0] == top, u[1] == bot), 'a scroll moves exactly the rows of the window')
    n_up = len(ups)
    wraps = page._wraps
    first_scroll = And(ov0, row0 == bot)
    second_scroll = And(pc == W, wraps, pr == bot)
    E.prove(n_up == If(first_scroll, 1, 0) + If(second_scroll, 1, 0),
            'the window scrolls up exactly when the text moves below its bottom row')
    if not do_scroll_down:
        E.prove(downs == [], 'PRINT never pushes rows down to make room (that is the line editor\'s behaviour)')
    else:
        E.prove(len(downs) <= 1 and (downs == [] or bool(And(ov0, Not(wraps), row0 < bot))),
                'rows are pushed down at most once, only when an unwrapped full line continues above the bottom row')
    # cursor afterwards
    nr, nc, nov = t.current_row, t.current_col, t.overflow
    E.prove(And(nr >= top, nr <= bot, nc >= 1, nc <= W), 'the cursor stays inside the window')
    E.prove(If(pc < W, And(nr == pr - If(second_scroll, 0, 0), nc == pc + 1, Not(nov)),
               If(wraps, And(nc == 1, Not(nov)), And(nr == pr, nc == W, nov))),
            'the cursor moves one cell right; in the last column it waits in the overflow position (or moves to a row the line already wraps into)')
    E.canary(n_up == 0, 'never scrolls')


class _TS(object):
    """TextScreen stand-in for Console.write: records the calls."""
    _pyvc_trusted = True
    def __init__(self):
        self.calls = []
        self.current_row, self.current_col = 3, 5
    def set_wrap(self, row, wrap):
        self.calls.append(('set_wrap', row, wrap))
    def write_chars(self, chars, do_scroll_down):
        self.calls.append(('write_chars', bytes(chars) if not isinstance(chars, SBuf) else chars, do_scroll_down))
    def newline(self, wrap):
        self.calls.append(('newline', wrap))
    def set_pos(self, *a, **kw):
        self.calls.append(('set_pos', a))


def t_console_write(E, n):
    """Console.write hands printable text to the screen in order, unchanged, and never asks for rows to be
    pushed down (do_scroll_down=False)."""
    from pcbasic.basic import console as console_mod
    c = object.__new__(console_mod.Console)
    ts = _TS()
    c._text_screen = ts
    c._io_streams = _Rec()
    c._sound = _Rec()
    text = [E.int('ch%d' % i, 32, 126) for i in range(n)]
    s = SBuf(text, 'bytes') if E.mode == 'symbolic' else bytes(text)
    r = E.call(c.write, s, False)
    E.prove(not r.raised, 'never raises')
    wc = [x for x in ts.calls if x[0] == 'write_chars']
    got = []
    for x in wc:
        got += list(to_cells(x[1]))
    E.prove(len(got) == n and bool(cells_equal(got, text)), 'the printable characters reach the screen in order, unchanged')
    E.prove(all(x[2] is False for x in wc), 'and are written without pushing rows down')
    E.prove([x for x in ts.calls if x[0] in ('newline', 'set_pos')] == [], 'plain text moves the cursor only by being written')


def t_locate(E, window, bar):
    t, W, H, sa = _screen(E, window)
    t._bottom_bar = type('B', (), {'visible': bar})()
    vals = t._values
    rr = E.int('to_row', -5, 60)
    cc = E.int('to_col', -5, 140)
    r0, c0 = t.current_row, t.current_col
    def mk(n):
        o = E.new(numbers.Integer, None, vals)
        E.call(o.from_int, n)
        return o
    r = E.call(t.locate_, iter([mk(rr), mk(cc)]))
    top, bot = sa._top, sa._bottom
    row_ok = And(rr >= top, rr <= bot) if window else And(rr >= 1, rr <= H)
    ok = And(row_ok, cc >= 1, cc <= W, Not(And(rr == H, bar)))
    if r.raised:
        E.cover('rejected')
        E.prove(r.is_error(BASICError, error.IFC), 'only Illegal function call')
        E.prove(Not(ok), 'a cell on the screen (inside the window) is accepted')
        E.prove(And(t.current_row == r0, t.current_col == c0), 'the cursor does not move on error')
    else:
        E.cover('moved')
        E.prove(ok, 'a cell off the screen, outside the window or on the key bar row is rejected')
        E.prove(And(t.current_row == rr, t.current_col == cc), 'the cursor is exactly at the requested cell')
        E.prove(t.overflow is False or (isinstance(t.overflow, SBool) and bool(Not(t.overflow))),
                'and not in the overflow position of earlier output: the next character is written at that cell')
        cr, cp = E.call(t.csrlin_, iter([])), E.call(t.pos_, iter([]))
        E.prove(not cr.raised and not cp.raised and bool(And(s16(cr.value) == rr, s16(cp.value) == cc)),
                'CSRLIN and POS report the requested cell')
        E.prove([x for x in t._apage.log if x[0].startswith('scroll')] == [], 'LOCATE never scrolls')


def t_csrlin_pos(E, window):
    t, W, H, sa = _screen(E, window)
    rc = E.call(t.csrlin_, iter([]))
    rp = E.call(t.pos_, iter([]))
    E.prove(not rc.raised and not rp.raised, 'never raise')
    row, col, ov = t.current_row, t.current_col, t.overflow
    at_edge = And(ov, col == W)
    E.prove(s16(rp.value) == If(at_edge, 1, col), 'POS is the column (1 in the overflow position)')
    E.prove(s16(rc.value) == If(And(at_edge, row < sa._bottom), row + 1, row),
            'CSRLIN is the row (next row in the overflow position, except on the last row)')
    E.prove(And(s16(rc.value) >= 1, s16(rc.value) <= H, s16(rp.value) >= 1, s16(rp.value) <= W), 'both are on the screen')


def t_view_print(E, tandy, bar):
    t, W, H, sa = _screen(E, False)
    t._tandytext = tandy
    t._bottom_bar = type('B', (), {'visible': bar})()
    vals = t._values
    a = E.int('start', -3, 30)
    b = E.int('stop', -3, 30)
    def mk(n):
        o = E.new(numbers.Integer, None, vals)
        E.call(o.from_int, n)
        return o
    old = (sa._top, sa._bottom, sa._active)
    r = E.call(t.view_print_, iter([mk(a), mk(b)]))
    mx = 25 if (tandy and not bar) else 24
    ok = And(a >= 1, a <= mx, b >= 1, b <= mx, a <= b)
    if r.raised:
        E.prove(r.is_error(BASICError, error.IFC), 'only Illegal function call')
        E.prove(Not(ok), 'a valid window is accepted')
        E.prove((sa._top, sa._bottom, sa._active) == old, 'window unchanged on error')
    else:
        E.prove(ok, 'an invalid window is rejected')
        E.prove(And(sa._top == a, sa._bottom == b) and sa._active is True, 'window set to the rows given')
        E.prove(And(t.current_row == a, t.current_col == 1), 'cursor at the top-left of the window')
    r2 = E.call(t.view_print_, iter([None, None]))
    E.prove(not r2.raised and sa._active is False and bool(And(sa._top == 1, sa._bottom == H - 1)),
            'VIEW PRINT without arguments restores the default window')


TASKS = [
    Task('TextScreen.set_pos', t_set_pos, covers=('scrolled', 'no scroll'),
         cases=[{'window': w, 'scroll_ok': s} for w in (True, False) for s in (True, False)]),
    Task('TextScreen.set_pos (rows)', t_set_pos_rows, covers=('scrolled', 'no scroll', 'bottom row'),
         cases=[{'window': w, 'scroll_ok': s} for w in (True, False) for s in (True, False)]),
    Task('TextScreen.write_char (one printed character)', t_write_char,
         cases=[{'window': w, 'do_scroll_down': d} for w in (True, False) for d in (False, True)]),
    Task('Console.write (plain text)', t_console_write, cases=[{'n': n} for n in (1, 3, 8)]),
    Task('TextScreen.locate_', t_locate, covers=('rejected', 'moved'),
         cases=[{'window': w, 'bar': b} for w in (True, False) for b in (True, False)]),
    Task('TextScreen.csrlin_/pos_', t_csrlin_pos, cases=[{'window': w} for w in (True, False)]),
    Task('TextScreen.view_print_', t_view_print, cases=[{'tandy': t, 'bar': b} for t in (True, False) for b in (True, False)]),
]

ASSUMPTIONS = [
    'page buffer (cells, scroll_up) and cursor sprite are recording stand-ins; TextScreen.scroll is the real method',
    'set_pos is called with -width < col <= 2*width (what incr_pos / decr_pos / LOCATE produce)',
]
NOT_COVERED = ['double-byte characters and control characters in printed text (TAB, CR/LF, cursor movement characters)', 'SCREEN(row, col) contents',
               'rows outside the window unchanged (VideoBuffer.scroll_up itself)']
