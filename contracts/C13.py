"""
C13 - The stored program matches the entered lines after any edit history (per-operation contracts).

Under contract (real source, program.py): Program.store_line, find_pos_line_dict, update_line_dict,
truncate, delete, rebuild_line_dict, erase, get_line_number with the real
Lister.detokenise_line_number / token_to_line_number and the real CodeStream / TokenisedStream
methods (skip_to, skip_blank_read, ...) running over a symbolic byte stream stand-in.

Abstract view of a program: the list of (line number, body) in memory order. Representation
invariant prog_ok(view):
    bytecode = for each line: 00, link (2 bytes), number (2 bytes), body; then 00 00 00
    link_i   = code_start + 1 + offset of the next line's leading 00 (the terminator's for the last)
    line_numbers = {number_i: offset_i} + {65536: offset of the terminator};  code_size = length
    numbers strictly ascending in memory order
History properties are decided by induction: every operation is shown to take any state satisfying
prog_ok(view) to a state satisfying prog_ok(view') with view' the reference model's result:
    store_line(n, body)  : view' = view with n inserted at its sorted place / replaced
    store_line(n, empty) : view' = view without n; Undefined line number if n is absent
    delete(a, b)         : view' = view without the lines a <= n <= b; Illegal function call if none
    rebuild_line_dict()  : line_numbers and links recomputed from the bytes alone equal the invariant's
    erase() (NEW)        : view' = []
So after any history the links chain the lines in ascending order and end with the terminator (what
PEEK shows), and the line dictionary (what GOTO and LIST use) points at exactly the model's lines.
Line numbers and body bytes are symbolic; the number of lines (0..3) and the body lengths are case
parameters.
"""

from .common import *
from pcbasic.basic import program as program_mod
from pcbasic.basic.base import codestream, tokens as tk
from pcbasic.basic.converter import lister as lister_mod

PROPERTY = 'C13'

CODE_START = 4718


class SymCodeStream(SymStream):
    """Symbolic byte stream with the real CodeStream / TokenisedStream parsing methods."""
    _pyvc_trusted = True
    blanks = codestream.CodeStream.blanks
    end_line = codestream.TokenisedStream.end_line
    peek = codestream.CodeStream.peek
    skip_read = codestream.CodeStream.skip_read
    skip_blank_read = codestream.CodeStream.skip_blank_read
    skip_blank = codestream.CodeStream.skip_blank
    skip_to = codestream.TokenisedStream.skip_to
    skip_to_read = codestream.TokenisedStream.skip_to_read


class _Mem(object):
    _pyvc_trusted = True
    def stack_start(self):
        return 60000


BODY_LENS = (2, 1, 3)


def _line_bytes(num, body, link):
    return [0, link % 256, link // 256, num % 256, num // 256] + list(body)


def _encode(view):
    """Reference encoding of a view: (cells, offsets, end)."""
    cells, offsets, pos = [], [], 0
    for num, body in view:
        offsets.append(pos)
        nxt = pos + 5 + len(body)
        cells += _line_bytes(num, body, CODE_START + 1 + nxt)
        pos = nxt
    return cells + [0, 0, 0], offsets, pos


def _program(E, k):
    """A program in a state satisfying prog_ok with k lines of symbolic numbers and bodies."""
    if E.mode == 'symbolic':
        E.interp.symbolic_dict_keys = True
    view = []
    prev = -1
    for i in range(k):
        n = E.int('n%d' % i, 0, 65529)
        E.assume(n > prev)
        prev = n
        body = [E.int('body%d[%d]' % (i, j), 0x41, 0x5a) for j in range(BODY_LENS[i])]
        view.append((n, body))
    cells, offsets, end = _encode(view)
    p = object.__new__(program_mod.Program)
    p._memory = _Mem()
    p.code_start = CODE_START
    p.bytecode = SymCodeStream(cells)
    p.protected = False
    p.lister = object.__new__(lister_mod.Lister)
    p.line_numbers = dict((n, off) for (n, _), off in zip(view, offsets))
    p.line_numbers[65536] = end
    p.last_stored = None
    p.code_size = len(cells)
    p._rebuild_offsets = True
    p.max_list_line = 65535
    return p, view


def _prog_ok(E, p, view, what):
    cells, offsets, end = _encode(view)
    got = list(p.bytecode.cells)
    E.prove(len(got) == len(cells), what + ': program memory has the size of the model\'s lines plus the terminator')
    if len(got) == len(cells):
        E.prove(cells_equal(got, cells), what + ': program memory is the encoding of the model (links chain the lines in order and end with the terminator)')
    E.prove(p.code_size == len(cells), what + ': code size is the memory size')
    # line dictionary: exactly {number_i: offset_i} and the end marker
    d = p.line_numbers
    E.prove(len(d) == len(view) + 1, what + ': the line dictionary has one entry per line and the end marker')
    by_off = {}
    for key, off in d.items():
        by_off.setdefault(off if not isinstance(off, SInt) else E.concretize(off), []).append(key)
    ok = True
    for (num, _), off in zip(view, offsets):
        ks = by_off.get(off, [])
        ok = And(ok, len([1 for kk in ks if not (isinstance(kk, int) and kk == 65536)]) == 1 and
                 Or(*[kk == num for kk in ks]) if ks else False)
    E.prove(ok, what + ': the line dictionary maps each line number to the offset of its line')
    E.prove(Or(*[kk == 65536 for kk in by_off.get(end, [])]) if by_off.get(end) else False,
            what + ': and the end marker to the terminator')
    for (a, _), (b, _) in zip(view, view[1:]):
        E.prove(a < b, what + ': line numbers ascend in memory order')


def _linebuf(E, num, body):
    return SymCodeStream([0, 0xc0, 0xde, num % 256, num // 256] + list(body))


def _model_store(E, view, num, body):
    """Reference model: insert / replace / delete; positions decided by the engine (forks)."""
    out, done = [], False
    for n, b in view:
        if not done and bool(num == n):
            if body is not None:
                out.append((num, body))
            done = True
            continue
        if not done and bool(num < n):
            if body is not None:
                out.append((num, body))
            done = True
        out.append((n, b))
    if not done and body is not None:
        out.append((num, body))
    return out


def t_store_line(E, k, newlen):
    p, view = _program(E, k)
    num = E.int('new', 0, 65529)
    body = [E.int('newbody[%d]' % j, 0x41, 0x5a) for j in range(newlen)]
    r = E.call(p.store_line, _linebuf(E, num, body))
    present = bool(Or(*[num == n for n, _ in view])) if view else False
    if newlen == 0 and not present:
        E.cover('rejected')
        E.prove(r.is_error(BASICError, error.UNDEFINED_LINE_NUMBER), 'deleting a line that does not exist: Undefined line number')
        _prog_ok(E, p, view, 'after the rejected entry')
        return
    E.cover('stored')
    E.prove(not r.raised, 'the line is accepted')
    if r.raised:
        return
    want = _model_store(E, view, num, body if newlen else None)
    _prog_ok(E, p, want, 'after store_line')
    E.prove(p.last_stored == num, 'the line becomes the current line (.)')


def t_delete(E, k):
    p, view = _program(E, k)
    a, b = E.int('from', 0, 65529), E.int('to', 0, 65535)
    keep = [(n, body) for n, body in view if not bool(And(n >= a, n <= b))]
    r = E.call(p.delete, a, b)
    if len(keep) == len(view):
        E.cover('rejected')
        E.prove(r.is_error(BASICError, error.IFC), 'no line in the range: Illegal function call')
        _prog_ok(E, p, view, 'after the rejected DELETE')
        return
    E.cover('deleted')
    E.prove(not r.raised, 'DELETE succeeds')
    if not r.raised:
        _prog_ok(E, p, keep, 'after DELETE')


def t_rebuild(E, k):
    p, view = _program(E, k)
    # forget the dictionary and the links: LOAD rebuilds both from the bytes
    cells, offsets, end = _encode(view)
    for off in offsets:
        p.bytecode.cells[off + 1] = 0x11
        p.bytecode.cells[off + 2] = 0x22
    p.line_numbers = {}
    r = E.call(p.rebuild_line_dict)
    E.prove(not r.raised, 'never raises')
    _prog_ok(E, p, view, 'after rebuild_line_dict')


def t_erase(E, k):
    p, view = _program(E, k)
    p.protected = True
    r = E.call(p.erase)
    E.prove(not r.raised, 'never raises')
    _prog_ok(E, p, [], 'after NEW')
    E.prove(p.protected is False and p.last_stored == 0, 'NEW clears protection and the current line')


def t_get_line_number(E, k):
    """The line containing a stream position (ERL, GOTO bookkeeping): the last line starting at or before it."""
    p, view = _program(E, k)
    cells, offsets, end = _encode(view)
    pos = E.int('pos', 0, end + 2)
    r = E.call(p.get_line_number, pos)
    E.prove(not r.raised, 'never raises')
    want = -1
    for (n, _), off in zip(view, offsets):
        want = If(off <= pos, n, want)
    want = If(end <= pos, 65536, want)
    E.prove(r.value == want, 'get_line_number is the line (or end marker) whose bytes contain the position')


TASKS = [
    Task('Program.store_line', t_store_line, covers=('stored', 'rejected'),
         cases=[{'k': k, 'newlen': n} for k in (0, 1, 2, 3) for n in (0, 1, 4)]),
    Task('Program.delete', t_delete, covers=('deleted', 'rejected'), cases=[{'k': k} for k in (1, 2, 3)]),
    Task('Program.rebuild_line_dict', t_rebuild, cases=[{'k': k} for k in (0, 1, 2, 3)]),
    Task('Program.erase', t_erase, cases=[{'k': k} for k in (0, 2)]),
    Task('Program.get_line_number', t_get_line_number, cases=[{'k': k} for k in (0, 1, 3)]),
]

ASSUMPTIONS = [
    'number of lines (0..3) and body lengths (2, 1, 3; new line 0, 1, 4) are case parameters; line numbers and body bytes are symbolic',
    'body bytes range over the letters A..Z (no token lead bytes, quotes or NUL inside a line: token skipping in skip_to is not exercised)',
    'the byte stream is a stand-in with io.BytesIO semantics carrying the real CodeStream/TokenisedStream methods',
    'history properties follow by induction over the per-operation contracts (each preserves prog_ok and realises the model step)',
]
NOT_COVERED = [
    'LIST text (Lister.detokenise_line), tokenisation of the entered text, RENUM rewriting of jump targets (C14), MERGE/LOAD file reading (C15)',
    'lines containing tokens with trailing bytes, string literals or REM (skip_to token handling)',
    'Out of memory on store_line near the stack',
]
