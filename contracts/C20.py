"""
C20 - User-defined functions never disturb the caller's variables.

Under contract (real source, parser/userfunctions.py): UserFunction.evaluate, on a real
DataSegment / Scalars (memory/*.py). The function body (ExpressionParser.parse) is a stand-in
with the frame "may read and overwrite scalar values in place, may raise a BASIC error": in the
harness it checks that the parameters hold the converted arguments, scribbles over them, and
then either returns a value or raises (symbolic choice).
Postconditions, on normal *and* exceptional exit:
  every parameter variable (after name completion) has byte for byte the value it had before the
  call (zero if it did not exist); other variables are untouched by evaluate itself; the
  recursion flag is cleared; the code stream position is restored; the temporaries are released;
  a call made while the function is being evaluated raises Out of memory and changes nothing.
Parameter lists: () (X) (X, Y%) (A#, A#) - duplicates included; arguments symbolic.
"""

from .common import *
from .icommon import Stream
from pcbasic.basic.memory import memory as memory_mod
from pcbasic.basic.parser import userfunctions

PROPERTY = 'C20'


class _Prog(object):
    _pyvc_trusted = True
    def size(self):
        return 50
    protected = False


class _Parser(object):
    """Stand-in for ExpressionParser.parse (the function body)."""
    _pyvc_trusted = True
    def __init__(self, E, ds, params, expect, fail, result):
        self.E, self.ds, self.params, self.expect, self.fail, self.result = E, ds, params, expect, fail, result
        self.seen = None
        self.stream_pos = None
        self.fn = None
        self.flag_during = None
    def parse(self, stream):
        self.stream_pos = stream.tell()
        # a nested call of the same function from the body must be refused: the flag is up
        self.flag_during = self.fn._is_parsing if self.fn is not None else None
        # what the parameters hold while the body runs
        self.seen = {}
        for name in self.params:
            v = self.ds.scalars._vars.get(name)
            self.seen[name] = None if v is None else list(to_cells(v))
        # the body may overwrite any scalar value in place (e.g. through a nested FN call)
        for name in self.params:
            buf = self.ds.scalars._vars[name]
            for i in range(len(to_cells(buf))):
                buf[i] = 0xAA
        if self.fail:
            raise BASICError(error.OVERFLOW)
        return self.result


def t_evaluate(E, params, preexisting, fail):
    ds = E.new(memory_mod.DataSegment, 65534, 3429, 128, 3, False)
    ds.set_buffers(_Prog())
    ds.values.set_handler(values.FloatErrorHandler(None))
    vals = ds.values
    CLS = {b'%': numbers.Integer, b'!': numbers.Single, b'#': numbers.Double}
    full = [p if p[-1:] in b'%!#' else p + b'!' for p in params]
    before = {}
    # caller's variables: parameters' namesakes (when preexisting) and a bystander
    for name in dict.fromkeys(full):
        if preexisting:
            v = E.new(CLS[name[-1:]], E.bytes('old_' + name.decode(), CLS[name[-1:]].size), vals)
            E.call(ds.scalars.set, name, v)
            before[name] = snapshot(v)
        else:
            before[name] = [0] * CLS[name[-1:]].size
    by = E.new(numbers.Integer, E.bytes('bystander', 2), vals)
    E.call(ds.scalars.set, b'Q%', by)
    by0 = snapshot(by)
    args = []
    for i, name in enumerate(full):
        # arguments of the parameter's own type (conversion between types is C03), except that
        # an Integer is passed to the first single-precision parameter, restricted to -2..2
        if name[-1:] == b'!' and i == 0:
            a = E.new(numbers.Integer, E.bytes('arg%d' % i, 2), vals)
            E.assume(And(s16(a) >= -2, s16(a) <= 2))
        else:
            a = E.new(CLS[name[-1:]], E.bytes('arg%d' % i, CLS[name[-1:]].size), vals)
        args.append(a)
    stream = Stream(17)
    result = E.new(numbers.Single, E.bytes('result', 4), vals)
    # expected parameter contents during evaluation: last duplicate wins
    expect = {}
    parser = _Parser(E, ds, list(dict.fromkeys(full)), expect, fail, result)
    fn = E.new(userfunctions.UserFunction, b'FNA!', stream, list(params), ds, parser)
    parser.fn = fn
    stream.seek(400)
    stream.log = []
    r = E.call(fn.evaluate, iter(args))
    if fail:
        E.prove(r.is_error(BASICError, error.OVERFLOW), 'an error in the body propagates as that BASIC error')
    else:
        E.prove(not r.raised and type(r.value) is numbers.Single, 'the result is converted to the function type')
    for name in dict.fromkeys(full):
        cur = ds.scalars._vars.get(name)
        E.prove(cur is not None and bool(same_bytes(list(to_cells(cur)), before[name])),
                'parameter namesake %s has the value it had before the call' % name.decode())
    E.prove(same_bytes(cells(E.call(ds.scalars.get, b'Q%').value), by0), 'other variables are untouched')
    E.prove(fn._is_parsing is False, 'recursion flag cleared')
    E.prove(stream.tell() == 400, 'code stream position restored')
    E.prove(parser.stream_pos == 17, 'the body is evaluated from the definition')
    E.prove(parser.flag_during is True, 'while the body is evaluated the function is marked as being evaluated (recursion guard)')
    E.prove(len(ds.temp_values) == 0, 'temporaries released')
    # during evaluation the parameters held the converted arguments
    if parser.seen is not None:
        last = {}
        for name, a in zip(full, args):
            last[name] = a
        for name, a in last.items():
            conv = {b'%': values.to_integer, b'!': values.to_single, b'#': values.to_double}[name[-1:]]
            want = cells(E.call(conv, a).value)
            E.prove(parser.seen[name] is not None and bool(same_bytes(parser.seen[name], want)),
                    'during evaluation the parameter holds the converted argument')


class _ParamBody(object):
    """Function body that is just a parameter: the expression parser hands back the variable's own
    value object (Scalars.get: a view on the variable's buffer), as it does for a bare variable reference."""
    _pyvc_trusted = True
    def __init__(self, E, ds, name):
        self.E, self.ds, self.name = E, ds, name
    def parse(self, stream):
        r = self.E.call(self.ds.scalars.get, self.name)
        return r.value


def t_identity(E, sigil, preexisting):
    """DEF FNA(X)=X: the call returns the argument, not what the caller's X held."""
    ds = E.new(memory_mod.DataSegment, 65534, 3429, 128, 3, False)
    ds.set_buffers(_Prog())
    ds.values.set_handler(values.FloatErrorHandler(None))
    vals = ds.values
    CLS = {b'%': numbers.Integer, b'!': numbers.Single, b'#': numbers.Double}
    name = b'X' + sigil
    if preexisting:
        old = E.new(CLS[sigil], E.bytes('old', CLS[sigil].size), vals)
        E.call(ds.scalars.set, name, old)
        old0 = snapshot(old)
    else:
        old0 = [0] * CLS[sigil].size
    arg = E.new(CLS[sigil], E.bytes('arg', CLS[sigil].size), vals)
    arg0 = snapshot(arg)
    stream = Stream(17)
    fn = E.new(userfunctions.UserFunction, b'FNA' + sigil, stream, [name], ds, _ParamBody(E, ds, name))
    stream.seek(400)
    r = E.call(fn.evaluate, iter([arg]))
    E.prove(not r.raised, 'the call succeeds')
    if r.raised:
        return
    E.prove(type(r.value) is CLS[sigil], 'result of the function type')
    E.prove(same_bytes(cells(r.value), arg0), 'FNA(a) with body X returns a - the argument, not the caller\'s X')
    cur = ds.scalars._vars.get(name)
    E.prove(cur is not None and bool(same_bytes(list(to_cells(cur)), old0)), 'and the caller\'s X is what it was')
    E.canary(same_bytes(arg0, old0), 'argument equals old value')


class _GcBody(object):
    """Function body during which a garbage collection happens (e.g. FRE("") or a full string space)."""
    _pyvc_trusted = True
    def __init__(self, E, ds, result, allocate):
        self.E, self.ds, self.result, self.allocate = E, ds, result, allocate
        self.seen = None
    def parse(self, stream):
        if self.allocate:
            # garbage created by the body
            self.E.call(self.ds.strings.store, b'garbage')
        self.E.call(self.ds._collect_garbage)
        v = self.E.call(self.ds.scalars.get, b'X$')
        self.seen = list(to_cells(self.E.call(v.value.to_str).value))
        return self.result


def t_string_param_gc(E, allocate):
    """A string parameter's namesake keeps its value when the body triggers a garbage collection."""
    ds = E.new(memory_mod.DataSegment, 65534, 3429, 128, 3, False)
    ds.set_buffers(_Prog())
    ds.values.set_handler(values.FloatErrorHandler(None))
    vals = ds.values
    E.call(ds.strings.fix_temporaries)
    old = E.bytes('old', 4, kind='bytes')
    E.call(ds.set_variable, b'X$', [], new_string(E, vals, old))
    E.call(ds.set_variable, b'Y$', [], new_string(E, vals, b'bystander'))
    E.call(ds.set_variable, b'G$', [], new_string(E, vals, b'dropped'))
    E.call(ds.set_variable, b'G$', [], vals.new_string())
    argc = E.bytes('arg', 3, kind='bytes')
    arg = new_string(E, vals, argc)
    result = E.new(numbers.Single, E.bytes('result', 4), vals)
    stream = Stream(17)
    body = _GcBody(E, ds, result, allocate)
    fn = E.new(userfunctions.UserFunction, b'FNA!', stream, [b'X$'], ds, body)
    stream.seek(400)
    r = E.call(fn.evaluate, iter([arg]))
    E.prove(not r.raised, 'the call succeeds')
    if r.raised:
        return
    E.prove(body.seen is not None and bool(same_bytes(body.seen, list(to_cells(argc)))), 'during the call X$ is the argument, also after the collection')
    x = E.call(ds.view_or_create_variable, b'X$', [])
    xs = E.call(x.value.to_str)
    E.prove(not xs.raised, 'X$ can be read after the call')
    if not xs.raised:
        E.prove(same_bytes(list(to_cells(xs.value)), list(to_cells(old))), 'X$ has the value it had before the call')
    y = E.call(E.call(ds.view_or_create_variable, b'Y$', []).value.to_str)
    E.prove(not y.raised and bool(same_bytes(list(to_cells(y.value)), list(b'bystander'))), 'other strings are untouched')
    E.prove(len(ds.temp_values) == 0, 'temporaries released')


class _SeenBody(object):
    """Body that reports what the parameter variables hold and returns a fresh number."""
    _pyvc_trusted = True
    def __init__(self, E, ds, names, result):
        self.E, self.ds, self.names, self.result = E, ds, names, result
        self.seen = {}
    def parse(self, stream):
        for nm in self.names:
            self.seen[nm] = list(to_cells(self.ds.scalars._vars[nm]))
        return self.result


def t_arguments_are_variables(E, sigil):
    """FNA(Y, X) with parameters (X, Y): the arguments are the caller's variables themselves (the expression
    parser hands over views of their buffers); each parameter must be bound to the VALUE its argument had at
    the call, also when that argument is a parameter variable."""
    ds = E.new(memory_mod.DataSegment, 65534, 3429, 128, 3, False)
    ds.set_buffers(_Prog())
    ds.values.set_handler(values.FloatErrorHandler(None))
    vals = ds.values
    CLS = {b'%': numbers.Integer, b'!': numbers.Single, b'#': numbers.Double}
    nx, ny = b'X' + sigil, b'Y' + sigil
    x = E.new(CLS[sigil], E.bytes('x', CLS[sigil].size), vals)
    y = E.new(CLS[sigil], E.bytes('y', CLS[sigil].size), vals)
    E.call(ds.scalars.set, nx, x)
    E.call(ds.scalars.set, ny, y)
    x0, y0 = snapshot(x), snapshot(y)
    result = E.new(numbers.Single, E.bytes('result', 4), vals)
    body = _SeenBody(E, ds, [nx, ny], result)
    fn = E.new(userfunctions.UserFunction, b'FNA!', Stream(17), [nx, ny], ds, body)
    # FNA(Y, X): views of the variables, as a variable reference evaluates
    ay = E.call(ds.scalars.get, ny).value
    ax = E.call(ds.scalars.get, nx).value
    r = E.call(fn.evaluate, iter([ay, ax]))
    E.prove(not r.raised, 'the call succeeds')
    if r.raised:
        return
    E.prove(same_bytes(body.seen[nx], y0), 'during FNA(Y, X) the parameter X holds the caller\'s Y')
    E.prove(same_bytes(body.seen[ny], x0), 'and the parameter Y holds the caller\'s X (not the X that was just overwritten)')
    E.prove(same_bytes(cells(E.call(ds.scalars.get, nx).value), x0) and bool(same_bytes(cells(E.call(ds.scalars.get, ny).value), y0)),
            'afterwards both variables have their old values')
    E.prove(len(ds.temp_values) == 0, 'temporaries released')


def t_failing_argument(E):
    """An error while the arguments are evaluated leaves nothing registered and no variable changed."""
    ds = E.new(memory_mod.DataSegment, 65534, 3429, 128, 3, False)
    ds.set_buffers(_Prog())
    ds.values.set_handler(values.FloatErrorHandler(None))
    vals = ds.values
    x = E.new(numbers.Single, E.bytes('x', 4), vals)
    E.call(ds.scalars.set, b'X!', x)
    x0 = snapshot(x)
    fn = E.new(userfunctions.UserFunction, b'FNA!', Stream(17), [b'X!', b'Y!'], ds, None)
    a0 = E.new(numbers.Single, E.bytes('a0', 4), vals)
    bad = E.new(strings.String, None, vals)          # a string where a number is expected: Type mismatch
    r = E.call(fn.evaluate, iter([a0, bad]))
    E.prove(r.is_error(BASICError, error.TYPE_MISMATCH), 'a string argument for a numeric parameter: Type mismatch')
    E.prove(len(ds.temp_values) == 0, 'the arguments evaluated before the failing one are released')
    E.prove(same_bytes(cells(E.call(ds.scalars.get, b'X!').value), x0), 'no variable changed')
    E.prove(fn._is_parsing is False, 'the function is not left marked as being evaluated')


def t_recursion(E, params):
    ds = E.new(memory_mod.DataSegment, 65534, 3429, 128, 3, False)
    ds.set_buffers(_Prog())
    ds.values.set_handler(values.FloatErrorHandler(None))
    vals = ds.values
    v = E.new(numbers.Single, E.bytes('old', 4), vals)
    E.call(ds.scalars.set, b'X!', v)
    v0 = snapshot(v)
    stream = Stream(17)
    fn = E.new(userfunctions.UserFunction, b'FNA!', stream, list(params), ds, None)
    fn._is_parsing = True
    a = E.new(numbers.Integer, E.bytes('arg', 2), vals)
    r = E.call(fn.evaluate, iter([a] * len(params)))
    E.prove(r.is_error(BASICError, error.OUT_OF_MEMORY), 'a function that calls itself raises Out of memory')
    E.prove(same_bytes(cells(E.call(ds.scalars.get, b'X!').value), v0), 'and the caller\'s variable is untouched')
    E.prove(len(ds.temp_values) == 0, 'the evaluated arguments do not stay registered as temporaries')


TASKS = [
    Task('UserFunction.evaluate', t_evaluate,
         cases=[{'params': p, 'preexisting': pre, 'fail': f}
                for p in ((), (b'X',), (b'X', b'Y%'), (b'A#', b'A#')) for pre in (True, False) for f in (True, False)]),
    Task('UserFunction.evaluate (body is the parameter)', t_identity,
         cases=[{'sigil': s, 'preexisting': p} for s in (b'%', b'!', b'#') for p in (True, False)]),
    Task('UserFunction.evaluate (string parameter, collection during the call)', t_string_param_gc,
         cases=[{'allocate': a} for a in (False, True)]),
    Task('UserFunction.evaluate (arguments are the caller\'s variables)', t_arguments_are_variables,
         cases=[{'sigil': s} for s in (b'%', b'!', b'#')]),
    Task('UserFunction.evaluate (failing argument)', t_failing_argument),
    Task('UserFunction.evaluate (recursion)', t_recursion, cases=[{'params': p} for p in ((), (b'X',), (b'X', b'Y%'))]),
]

ASSUMPTIONS = [
    'the function body (ExpressionParser.parse) is a stand-in that overwrites the parameter variables in place and returns or raises; '
    'expressions cannot remove a variable or replace its buffer (Scalars.set copies in place - read off the code)',
    'DataSegment, Scalars and the value classes are the real source; the program is a stand-in of fixed size',
]
NOT_COVERED = ['DEF FN parsing (def_fn_)', 'string-valued functions returning a string built in the body (string space, C10)']
