"""
C11 - Variable storage is faithfully exposed and never aliased.

Under contract (real source): a real DataSegment (memory/memory.py) with its Scalars and Arrays
(memory/scalars.py, memory/arrays.py): Scalars.set/get/view/varptr/get_memory,
get_name_in_memory, Arrays.allocate/varptr/index/get_memory/view_buffer,
DataSegment._get_var_memory/varptr/var_start/var_current.
The *layout* is a concrete scenario (six scalars of all numeric types with short and long
names, three arrays of rank 1 and 2 - and the same scenario with a scalar created after the
arrays, which moves them); the *contents* of every variable and array element are symbolic.
  * PEEK(VARPTR(v) + k) = byte k of v's stored value, for every variable, element and k
  * the record in front of each scalar/array carries the type size and the name
  * storage ranges of distinct variables / elements are pairwise disjoint and inside
    [var_start, end of array space)
  * assigning one variable leaves every other variable's bytes unchanged
"""

from .common import *
from pcbasic.basic.memory import memory as memory_mod

PROPERTY = 'C11'


class _Prog(object):
    _pyvc_trusted = True
    def size(self):
        return 321
    code_start = 0
    protected = False


SCALARS = [b'A%', b'B!', b'CC#', b'LONGNAME%', b'D!', b'E#']
ARRAYS = [(b'X%', [2]), (b'Y#', [1, 1]), (b'ZED!', [3])]
CLS = {b'%': numbers.Integer, b'!': numbers.Single, b'#': numbers.Double}


def _segment(E):
    ds = E.new(memory_mod.DataSegment, 65534, 3429, 128, 3, False)
    ds.set_buffers(_Prog())
    ds.values.set_handler(values.FloatErrorHandler(None))
    return ds


def _value(E, ds, name, tag):
    cls = CLS[name[-1:]]
    return E.new(cls, E.bytes(tag, cls.size), ds.values)


def _scenario(E, late_scalar):
    ds = _segment(E)
    content = {}
    for nm in SCALARS:
        v = _value(E, ds, nm, 'v_' + nm.decode())
        content[(nm, ())] = snapshot(v)
        out = E.call(ds.scalars.set, nm, v)
        if out.raised:
            raise Unsupported('setup: %r' % (out.exc,))
    for nm, dims in ARRAYS:
        out = E.call(ds.arrays.allocate, nm, dims)
        if out.raised:
            raise Unsupported('setup: %r' % (out.exc,))
        idxs = [[i] for i in range(dims[0] + 1)] if len(dims) == 1 else \
               [[i, j] for i in range(dims[0] + 1) for j in range(dims[1] + 1)]
        for ix in idxs:
            v = _value(E, ds, nm, 'a_%s_%s' % (nm.decode(), '_'.join(map(str, ix))))
            content[(nm, tuple(ix))] = snapshot(v)
            out = E.call(ds.arrays.set, nm, ix, v)
            if out.raised:
                raise Unsupported('setup: %r' % (out.exc,))
    if late_scalar:
        v = _value(E, ds, b'LATE!', 'v_late')
        content[(b'LATE!', ())] = snapshot(v)
        E.call(ds.scalars.set, b'LATE!', v)
    return ds, content


def t_peek_matches(E, late_scalar):
    ds, content = _scenario(E, late_scalar)
    ranges = []
    for (nm, ix), cellsv in sorted(content.items()):
        r = E.call(ds.varptr, nm, list(ix))
        E.prove(not r.raised, 'VARPTR of an existing variable succeeds')
        if r.raised:
            continue
        p = r.value
        ranges.append((p, p + len(cellsv), nm, ix))
        for k in range(len(cellsv)):
            g = E.call(ds._get_var_memory, p + k)
            E.prove(not g.raised and g.value == cellsv[k], 'PEEK(VARPTR(v)+k) is byte k of the stored value')
    lo = E.call(ds.var_start).value
    hi = E.call(ds.var_current).value + ds.arrays.current
    ranges.sort(key=lambda t: t[0])
    for a, b in zip(ranges, ranges[1:]):
        E.prove(a[1] <= b[0], 'storage of distinct variables and elements never overlaps')
    E.prove(all(lo <= a and b <= hi for a, b, _, _ in ranges), 'all storage lies inside variable and array space')
    E.canary(len(ranges) < 3, 'canary: fewer than three variables')


def t_records(E):
    """The record in front of the data: type size, name characters."""
    ds, content = _scenario(E, False)
    for nm in SCALARS:
        p = E.call(ds.varptr, nm, []).value
        hdr = max(3, len(nm)) + 1
        base = p - hdr
        size = E.call(ds._get_var_memory, base).value
        E.prove(size == {b'%': 2, b'!': 4, b'#': 8}[nm[-1:]], 'record starts with the type size')
        c1 = E.call(ds._get_var_memory, base + 1).value
        E.prove(c1 == nm[0], 'then the first character of the name')
    for nm, dims in ARRAYS:
        first = E.call(ds.varptr, nm, [0] * len(dims)).value
        hdr = 1 + max(3, len(nm)) + 3 + 2 * len(dims)
        base = first - hdr
        size = E.call(ds._get_var_memory, base).value
        E.prove(size == {b'%': 2, b'!': 4, b'#': 8}[nm[-1:]], 'array record starts with the type size')
        c1 = E.call(ds._get_var_memory, base + 1).value
        E.prove(c1 == nm[0], 'then the first character of the array name')
        nd = E.call(ds._get_var_memory, first - 2 * len(dims) - 1).value
        E.prove(nd == len(dims), 'number of dimensions precedes the extents')


def t_frame(E):
    ds, content = _scenario(E, False)
    v = _value(E, ds, b'B!', 'new_b')
    newc = snapshot(v)
    E.call(ds.scalars.set, b'B!', v)
    w = _value(E, ds, b'Y#', 'new_y')
    neww = snapshot(w)
    E.call(ds.arrays.set, b'Y#', [1, 0], w)
    for (nm, ix), cellsv in sorted(content.items()):
        if ix == ():
            cur = cells(E.call(ds.scalars.get, nm).value)
        else:
            cur = cells(E.call(ds.arrays.get, nm, list(ix)).value)
        if (nm, ix) == (b'B!', ()):
            E.prove(same_bytes(cur, newc), 'the assigned scalar holds the new value')
        elif (nm, ix) == (b'Y#', (1, 0)):
            E.prove(same_bytes(cur, neww), 'the assigned element holds the new value')
        else:
            E.prove(same_bytes(cur, cellsv), 'assigning one variable changes no other variable or element')


def t_peek_after_new_scalar(E):
    """A variable created after memory has been PEEKed is visible to PEEK as well (history of two steps)."""
    ds, content = _scenario(E, False)
    p0 = E.call(ds.varptr, SCALARS[0], []).value
    E.call(ds._get_var_memory, p0)
    E.call(ds._get_var_memory, p0 + 1)
    for nm, tag in ((b'NEW#', 'v_new'), (b'N2%', 'v_n2')):
        v = _value(E, ds, nm, tag)
        want = snapshot(v)
        E.call(ds.scalars.set, nm, v)
        r = E.call(ds.varptr, nm, [])
        E.prove(not r.raised, 'VARPTR of the new variable succeeds')
        if r.raised:
            continue
        for k in range(len(want)):
            g = E.call(ds._get_var_memory, r.value + k)
            E.prove(not g.raised and g.value == want[k], 'PEEK(VARPTR(v)+k) of a variable created after an earlier PEEK is byte k of its value')
    for (nm, ix), cellsv in sorted(content.items()):
        if ix != ():
            continue
        p = E.call(ds.varptr, nm, []).value
        g = E.call(ds._get_var_memory, p)
        E.prove(not g.raised and g.value == cellsv[0], 'the older variables still read back')


def t_varptrstr_dereference(E):
    """The address VARPTR$ encodes resolves back to the same variable or element (DRAW/PLAY "="+VARPTR$(v))."""
    ds, content = _scenario(E, False)
    for (nm, ix), cellsv in sorted(content.items()):
        pr = E.call(ds.varptr, nm, list(ix))
        if pr.raised:
            continue
        ptr = bytes([{b'%': 2, b'!': 4, b'#': 8}[nm[-1:]]]) + bytes([pr.value % 256, pr.value // 256])
        r = E.call(ds.get_value_for_varptrstr, ptr)
        E.prove(not r.raised and r.value is not None, 'the pointer resolves')
        if not r.raised and r.value is not None:
            E.prove(same_bytes(cells(r.value), cellsv), 'to the value of exactly that variable or element')


ERASE_ARRAYS = [(b'P#', [3]), (b'Q%', [1]), (b'R!', [2]), (b'S%', [0])]


def t_erase_then_peek(E, erase):
    """ERASE of several arrays in one statement: the survivors keep their values, PEEK at their new
    VARPTR shows them, storage stays disjoint and inside the array area, and the next DIM does not overlap."""
    ds = _segment(E)
    content = {}
    for nm, dims in ERASE_ARRAYS:
        E.call(ds.arrays.allocate, nm, dims)
        for i in range(dims[0] + 1):
            v = _value(E, ds, nm, 'a_%s_%d' % (nm.decode(), i))
            content[(nm, i)] = snapshot(v)
            E.call(ds.arrays.set, nm, [i], v)
    r = E.call(ds.arrays.erase_, iter(list(erase)))
    E.prove(not r.raised, 'ERASE of existing arrays succeeds')
    E.call(ds.arrays.allocate, b'T%', [1])
    t = _value(E, ds, b'T%', 'v_t')
    E.call(ds.arrays.set, b'T%', [1], t)
    content[(b'T%', 1)] = snapshot(t)
    ranges = []
    for (nm, i), cellsv in sorted(content.items()):
        if nm in erase:
            E.prove(nm not in ds.arrays._dims, 'an erased array is gone')
            continue
        pr = E.call(ds.varptr, nm, [i])
        E.prove(not pr.raised, 'VARPTR of a surviving element succeeds')
        if pr.raised:
            continue
        pp = pr.value
        ranges.append((pp, pp + len(cellsv)))
        for k in range(len(cellsv)):
            g = E.call(ds._get_var_memory, pp + k)
            E.prove(not g.raised and g.value == cellsv[k], 'PEEK(VARPTR(element)+k) of a surviving array is byte k of its value')
    lo = E.call(ds.var_current).value
    hi = lo + ds.arrays.current
    ranges.sort()
    E.prove(all(a[1] <= b[0] for a, b in zip(ranges, ranges[1:])), 'storage of surviving and new elements never overlaps')
    E.prove(all(lo <= a and b <= hi for a, b in ranges), 'all of it lies inside the array area')


TASKS = [
    Task('VARPTR$ dereference', t_varptrstr_dereference),
    Task('PEEK after a new scalar', t_peek_after_new_scalar),
    Task('ERASE several arrays, then PEEK', t_erase_then_peek,
         cases=[{'erase': e} for e in ((b'P#', b'Q%'), (b'Q%', b'P#'), (b'P#',), (b'Q%', b'R!'), (b'P#', b'R!', b'Q%'))]),
    Task('PEEK(VARPTR(v)+k)', t_peek_matches, cases=[{'late_scalar': l} for l in (False, True)]),
    Task('variable records', t_records),
    Task('assignment frame', t_frame),
]

ASSUMPTIONS = [
    'layout is a concrete scenario (six scalars, three arrays, optionally a scalar created after the arrays); '
    'contents are symbolic; the program is a stand-in of fixed size',
]
NOT_COVERED = ['string variables and string space through PEEK (C10)', 'SWAP, ERASE shifting (C12 covers the array bookkeeping)']
