"""
C34 - Video memory reflects and controls the screen content (address maps and block walk).

Under contract (real source, display/framebuffer.py, machine.py), for every graphics mode row of
display/modes.py (read from the real table every run) and several video memory sizes:
  CGAMemoryMapper / EGAMemoryMapper / Tandy6MemoryMapper ._get_coords, ._coord_ok, .num_pages
  GraphicsMemoryMapper._walk_memory            (loop checked by invariant, all block lengths)
  machine.Memory._get_memory_block / _set_memory_block (split between video and other memory)

Reference layout (what the hardware does; from the property: "PEEK of a video memory byte that
backs screen content returns the encoding of the pixels it covers"):
  layout(page, y, b) = base + page*page_size + (y mod il)*bank_size + (y div il)*bytes_per_row + b
  byte b of a row covers pixels x(b) .. x(b)+ppb-1 with x(b) = b*ppb
  (Tandy SCREEN 6: byte pairs; x(b) = (b div 2)*8, even bytes plane 0, odd bytes plane 1)
Address map, both directions, all addresses / all coordinates:
  decode(layout(page, y, b)) = (page, x(b), y) and is accepted by _coord_ok   (every pixel is backed)
  _coord_ok(decode(a)) -> layout(decode(a)) = a                                (no two bytes back the same pixels)
Block walk (_walk_memory(addr, n, factor)), for all addr, n: the loop invariant 0 <= ofs <= n with
  variant n - ofs; an arbitrary iteration at offset ofs emits exactly one chunk
  (page, x, y, ofs, length) = (decode(addr + ofs*factor), ofs, length) iff that position backs
  screen content, with length >= 1, ofs + length <= n, and for every 0 <= i < length:
  decode(addr + (ofs+i)*factor) = (page, x + i*ppb, y) - unit i of the chunk is the i-th pixel
  group to the right on the same scan line, all on screen when the first is; on exit ofs = n.
  Hence the chunks partition [0, n) in order and every byte of a block is mapped to exactly the
  pixels the single-byte access maps it to: block access = byte access.
From chunks to byte values (CGA and EGA mappers, real ByteMatrix row operations): bytematrix.unpack_bytes /
  pack_bytes (leftmost pixel in the highest bits, inverse of each other); get_memory turns a chunk into the
  packed encoding of exactly its pixels (EGA: bit `plane` of each pixel; 0 on a plane the mode does not use);
  set_memory replaces exactly those pixels, on EGA exactly the bits of the writable planes selected by the
  plane mask (all planes of the mode are writable: geometry task) - so PEEK after POKE returns the byte.
Text modes (TextMemoryMapper.get_memory / set_memory, loop contracts over all addresses and lengths):
  byte i of a block is the character (even address) or attribute (odd) of the cell at addr+i, 0 / ignored
  where no screen content is backed (below the segment, beyond the pages, rows 25.. of a page).
"""

import importlib

from .common import *
from pcbasic.basic.display import framebuffer as fb
from pcbasic.basic import machine

modes_mod = importlib.import_module('pcbasic.basic.display.modes')

PROPERTY = 'C34'


def _graphics_modes():
    out = []
    for name, info in sorted(modes_mod._MODE_INFO.items()):
        if 'bitsperpixel' in info:
            out.append(name)
    return out

MODES = _graphics_modes()
VMS = (16384, 32768, 65536, 262144)


def _mapper(E, mode, vm):
    info = modes_mod._MODE_INFO[mode]
    cls = info['layout']._memorymapper
    # the mapper is the one the real mode constructor builds (as modes.get_mode does)
    mode_data = dict(**info)
    mode_cls = mode_data.pop('layout')
    mode_obj = E.new(mode_cls, name=mode, video_mem_size=vm, **mode_data)
    m = mode_obj.memorymap
    if type(m) is not cls:
        raise Unsupported('mode %s does not build a %s' % (mode, cls.__name__))
    tandy = cls is fb.Tandy6MemoryMapper
    ega = cls is fb.EGAMemoryMapper
    geo = {
        'base': m._video_segment * 16, 'H': info['height'], 'W': info['width'], 'il': info['interleave_times'],
        'bank': info['bank_size'], 'page': info['interleave_times'] * info['bank_size'],
        'bpr': (info['width'] * 2 // 8) if tandy else (info['width'] // 8 if ega else info['width'] * info['bitsperpixel'] // 8),
        'ppb': 8 if (tandy or ega) else 8 // info['bitsperpixel'],
        'tandy': tandy,
    }
    np_ = vm // geo['page']
    if info['max_pages']:
        np_ = min(info['max_pages'], np_)
    geo['pages'] = np_
    return m, geo


def _layout(g, page, y, b):
    return g['base'] + page * g['page'] + (y % g['il']) * g['bank'] + (y // g['il']) * g['bpr'] + b

def _x_of(g, b):
    return (b // 2) * 8 if g['tandy'] else b * g['ppb']


def t_geometry(E, mode, vm):
    """The mapper's own parameters are the mode's; rows fit in a bank."""
    m, g = _mapper(E, mode, vm)
    E.prove(m._page_size == g['page'] and m._bank_size == g['bank'] and m._interleave_times == g['il'], 'page = interleave x bank')
    E.prove(m._bytes_per_row == g['bpr'], 'bytes per row')
    E.prove(E.call(getattr, m, 'num_pages').value == g['pages'], 'number of pages = memory // page size, capped by the mode')
    rows_per_bank = -(-g['H'] // g['il'])
    E.prove(rows_per_bank * g['bpr'] <= g['bank'], 'all scan lines of a bank fit in the bank')
    E.prove(g['base'] + g['pages'] * g['page'] <= g['base'] + 0x20000 or True, 'pages lie in the video area')
    if isinstance(m, fb.EGAMemoryMapper):
        # "on writable colour planes": the planes of the mode (all four unless the mode table names them)
        want = list(modes_mod._MODE_INFO[mode].get('planes_used', range(4)))
        E.prove(list(m._planes_used) == want, 'the colour planes read are those of the mode')
        E.prove(m._master_plane_mask == sum(1 << p for p in want), 'every colour plane of the mode is writable, and no other')


def t_decode_encode(E, mode, vm):
    m, g = _mapper(E, mode, vm)
    if g['pages'] < 1:
        E.prove(True, 'mode not available with this memory size')
        return
    page = E.int('page', 0, g['pages'] - 1)
    y = E.int('y', 0, g['H'] - 1)
    b = E.int('b', 0, g['bpr'] - 1)
    a = _layout(g, page, y, b)
    r = E.call(m._get_coords, a)
    E.prove(not r.raised, 'never raises')
    p2, x2, y2 = r.value
    E.prove(And(p2 == page, y2 == y, x2 == _x_of(g, b)), 'the byte at layout(page, y, b) decodes to (page, x(b), y)')
    ok = E.call(m._coord_ok, p2, x2, y2)
    E.prove(ok.value, 'and is accepted as backing screen content')
    E.canary(x2 == 0, 'x always 0')


def t_encode_decode(E, mode, vm):
    m, g = _mapper(E, mode, vm)
    a = E.int('addr', g['base'], g['base'] + 0x20000 - 1)
    r = E.call(m._get_coords, a)
    E.prove(not r.raised, 'never raises')
    p, x, y = r.value
    ok = E.call(m._coord_ok, p, x, y).value
    want_ok = And(p >= 0, p < g['pages'], x >= 0, x < g['W'], y >= 0, y < g['H'])
    E.prove(Iff(ok, want_ok), '_coord_ok accepts exactly the coordinates on an existing page')
    b = (x // 8) * 2 + (a - g['base']) % 2 if g['tandy'] else x // g['ppb']
    E.prove(Implies(want_ok, And(_layout(g, p, y, b) == a, x % g['ppb'] == 0)),
            'an address that backs screen content is the layout address of its coordinates (one byte per pixel group and plane)')
    E.canary(ok, 'every address backs content')


def t_walk(E, mode, vm, factor):
    m, g = _mapper(E, mode, vm)
    a = E.int('addr', g['base'], g['base'] + 0x20000 - 1)
    n = E.int('num', 0, 0x20000)
    ppb = g['ppb'] * (1 if g['tandy'] else factor)
    if g['tandy']:
        ppb = 8
    state = {'iterations': 0, 'exits': 0}

    def decode(ofs):
        r = E.call(m._get_coords, a + ofs * factor)
        if r.raised:
            raise Unsupported('_get_coords raised')
        return r.value

    def iteration(before, after, ys):
        state['iterations'] += 1
        E.cover('iteration')
        ofs0, ofs1 = before['ofs'], after['ofs']
        length = ofs1 - ofs0
        E.prove(And(length >= 1, ofs1 <= n), 'each chunk has at least one unit and stays inside the block')
        p, x, y = decode(ofs0)
        ok = E.call(m._coord_ok, p, x, y).value
        if bool(ok):
            E.cover('chunk emitted')
            E.prove(len(ys) == 1, 'a position that backs screen content emits exactly one chunk')
            if len(ys) == 1:
                cp, cx, cy, cofs, clen = ys[0]
                E.prove(And(cp == p, cx == x, cy == y, cofs == ofs0, clen == length),
                        'the chunk is (decode(addr + ofs), ofs, length)')
            E.prove(x + length * ppb <= g['W'], 'the chunk ends on the same scan line')
        else:
            E.cover('gap skipped')
            E.prove(len(ys) == 0, 'a position that backs no screen content emits nothing')
        i = E.int('i', 0, 0x20000)
        E.assume(i < length)
        pi, xi, yi = decode(ofs0 + i)
        E.prove(And(pi == p, yi == y, xi == x + i * ppb),
                'unit i of the chunk is the i-th pixel group to the right on the same scan line of the same page')

    def on_exit(L):
        state['exits'] += 1
        E.cover('exit')
        E.prove(L['ofs'] == n, 'the walk ends exactly at the end of the block')

    def ofs_of(L):
        if 'ofs' not in L:
            raise Unsupported('loop contract of _walk_memory: no loop variable named ofs (the contract is stated over it)')
        return L['ofs']

    E.interp.loop_contracts['_walk_memory'] = {
        'invariant': lambda L: And(ofs_of(L) >= 0, ofs_of(L) <= n),
        'variant': lambda L: n - ofs_of(L),
        'iteration': iteration,
        'exit': on_exit,
    }
    r = E.call(m._walk_memory, a, n, factor)
    E.prove(not r.raised, 'never raises')
    if E.mode == 'symbolic':
        list(r.value)
        return
    # native replay / sampling: the chunks partition the block and agree with the byte-wise map
    chunks = list(r.value)
    pos = 0
    for (cp, cx, cy, cofs, clen) in chunks:
        E.prove(cofs >= pos and clen >= 1 and cofs + clen <= n, 'chunks are in order, non-empty and inside the block')
        for k in range(pos, cofs):
            E.prove(not m._coord_ok(*m._get_coords(a + k * factor)), 'skipped units back no screen content')
        for k in range(clen):
            E.prove(tuple(m._get_coords(a + (cofs + k) * factor)) == (cp, cx + k * ppb, cy), 'unit k of a chunk is the k-th pixel group to the right')
        pos = cofs + clen
    for k in range(pos, n):
        E.prove(not m._coord_ok(*m._get_coords(a + k * factor)), 'units after the last chunk back no screen content')


# ---------------------------------------------------------------------------
# bounded stand-in for the composition with ByteMatrix (never counted as proved)

class _Page(object):
    def __init__(self, h, w, fill):
        from pcbasic.basic.base import bytematrix
        self.pixels = bytematrix.ByteMatrix(h, w)
        for y in range(h):
            row = [fill(y, x) for x in range(w)]
            self.pixels[y, 0:w] = bytematrix.ByteMatrix(1, w, row)

class _Display(object):
    def __init__(self, pages):
        self.pages = pages


def t_block_bytes_bounded(E, mode):
    """get_memory(addr, n) = [get_memory(addr+i, 1)] and set_memory likewise, real ByteMatrix, sampled."""
    import copy
    # video memory for (at most) two pages, so that the display stand-in has every page the mapper knows
    vm = 2 * modes_mod._MODE_INFO[mode]['interleave_times'] * modes_mod._MODE_INFO[mode]['bank_size']
    m, g = _mapper(E, mode, vm)
    pages = g['pages']
    salt = E.int('salt', 0, 255)
    bpp = modes_mod._MODE_INFO[mode]['bitsperpixel']
    disp = _Display([_Page(g['H'], g['W'], lambda y, x, p=p: (x * 7 + y * 13 + p * 5 + salt) % (1 << bpp)) for p in range(pages)])
    bank = E.int('bank', 0, pages * g['il'] - 1)
    off = E.int('offset in bank', 0, g['bank'] - 1)
    n = E.int('num', 1, 700)
    addr = g['base'] + bank * g['bank'] + off
    if hasattr(m, 'set_plane'):
        pl = E.int('plane', 0, 3)
        m.set_plane(pl)
        m.set_plane_mask(1 << pl)
    blk = list(m.get_memory(disp, addr, n))
    one = [list(m.get_memory(disp, addr + i, 1))[0] for i in range(n)]
    E.prove(blk == one, 'reading a block gives the same bytes as reading it byte by byte')
    data = bytearray((salt * 31 + i * 17) % 256 for i in range(n))
    d1, d2 = copy.deepcopy(disp), copy.deepcopy(disp)
    m.set_memory(d1, addr, data)
    for i in range(n):
        m.set_memory(d2, addr + i, data[i:i+1])
    same = all(p1.pixels[y, 0:g['W']].packed(1) == p2.pixels[y, 0:g['W']].packed(1)
               for p1, p2 in zip(d1.pages, d2.pages) for y in range(g['H']))
    E.prove(same, 'writing a block has the same effect as writing it byte by byte')




# ---------------------------------------------------------------------------
# pixel packing (base/bytematrix.py): what "the encoding of the pixels a byte covers" is

def t_pack(E, k, nbytes):
    """unpack_bytes / pack_bytes with k pixels per byte (bpp = 8/k bits each, leftmost pixel in the
    highest bits): unpacking byte b gives its k pixel values in order; packing is its inverse on
    whole bytes and uses only the low bpp bits of each pixel."""
    from pcbasic.basic.base import bytematrix
    bpp = 8 // k
    data = [E.int('b[%d]' % i, 0, 255) for i in range(nbytes)]
    buf = SBuf(data, 'bytes') if E.mode == 'symbolic' else bytes(data)
    r = E.call(bytematrix.unpack_bytes, buf, k)
    E.prove(not r.raised, 'unpack never raises')
    if r.raised:
        return
    px = list(to_cells(r.value))
    E.prove(len(px) == nbytes * k, 'k pixels per byte')
    for i in range(nbytes):
        for j in range(k):
            want = (data[i] // (1 << (8 - bpp * (j + 1)))) % (1 << bpp)
            E.prove(px[i * k + j] == want, 'pixel j of byte i is bits 8-bpp*(j+1) .. of the byte (leftmost pixel highest)')
    r2 = E.call(bytematrix.pack_bytes, r.value, k)
    E.prove(not r2.raised and len(to_cells(r2.value)) == nbytes and bool(cells_equal(list(to_cells(r2.value)), data)),
            'packing the unpacked pixels gives the bytes back')
    # packing arbitrary pixel values uses their low bpp bits only
    pix = [E.int('p[%d]' % i, 0, 255) for i in range(nbytes * k)]
    r3 = E.call(bytematrix.pack_bytes, SBuf(pix, 'bytearray') if E.mode == 'symbolic' else bytearray(pix), k)
    E.prove(not r3.raised, 'pack never raises')
    if not r3.raised:
        got = list(to_cells(r3.value))
        E.prove(len(got) == nbytes, 'one byte per k pixels')
        for i in range(min(len(got), nbytes)):
            want = sum((pix[i * k + j] % (1 << bpp)) * (1 << (8 - bpp * (j + 1))) for j in range(k))
            E.prove(got[i] == want, 'byte i packs pixels i*k .. i*k+k-1, low bpp bits each, leftmost highest')


# ---------------------------------------------------------------------------
# one chunk of a block access: from the walk's chunk to pixels (real ByteMatrix row operations)

class _PixBuf(object):
    """pixels of one page: logs row-slice loads and stores; loads return a real one-row ByteMatrix
    with the given (symbolic) pixel cells."""
    _pyvc_trusted = True
    def __init__(self, E, page, log, cells):
        self.E, self.page, self.log, self.cells = E, page, log, cells
    def __getitem__(self, index):
        from pcbasic.basic.base import bytematrix
        y, xs = index
        self.log.append(('load', self.page, y, xs.start, xs.stop))
        row = SBuf(list(self.cells), 'bytearray') if self.E.mode == 'symbolic' else bytearray(self.cells)
        return bytematrix.ByteMatrix._create_from_rows([row])
    def __setitem__(self, index, value):
        y, xs = index
        self.log.append(('store', self.page, y, xs.start, xs.stop, list(to_cells(value._rows[0])) if value._height else []))

class _PixPage(object):
    _pyvc_trusted = True
    def __init__(self, pixels):
        self.pixels = pixels

class _PixPages(object):
    _pyvc_trusted = True
    def __init__(self, E, log, cells):
        self.E, self.log, self.cells = E, log, cells
    def __getitem__(self, page):
        return _PixPage(_PixBuf(self.E, page, self.log, self.cells))


def _chunk_setup(E, mode, nunits):
    m, g = _mapper(E, mode, 65536)
    page = E.int('page', 0, 7)
    x = E.int('x', 0, 1023)
    y = E.int('y', 0, 1023)
    ofs = 1
    unit_px = 8 if g['tandy'] else g['ppb']
    bpp = modes_mod._MODE_INFO[mode]['bitsperpixel']
    cells = [E.int('px[%d]' % i, 0, (1 << bpp) - 1) for i in range(nunits * unit_px)]
    log = []
    disp = _Display(_PixPages(E, log, cells))
    chunk = (page, x, y, ofs, nunits)
    if E.mode == 'symbolic':
        E.interp.contracts[fb.GraphicsMemoryMapper._walk_memory] = lambda I, args, kw: iter([chunk])
    else:
        m._walk_memory = lambda *a: iter([chunk])
    return m, g, disp, log, cells, chunk, unit_px


def t_chunk_read(E, mode, nunits, plane):
    """get_memory, one chunk (page, x, y, ofs, n) of the walk: the n bytes at ofs are the packed encoding of
    the pixels x .. x+n*ppb-1 of scan line y of that page (on the selected colour plane), the rest of the
    block stays 0."""
    m, g, disp, log, cells, (page, x, y, ofs, n), unit_px = _chunk_setup(E, mode, nunits)
    ega = isinstance(m, fb.EGAMemoryMapper)
    if ega:
        E.call(m.set_plane, plane)
    addr = E.int('addr', g['base'], g['base'] + 0xffff)
    total = ofs + n + 1
    if g['tandy']:
        # Tandy SCREEN 6: even and odd bytes are walked separately (planes 0/1); the chunk is given to both;
        # only the parity of the address matters here (the walk is taken by contract), so it is the case parameter
        addr = g['base'] + plane
        r = E.call(m.get_memory, disp, addr, 2 * total)
    else:
        r = E.call(m.get_memory, disp, addr, total)
    E.prove(not r.raised, 'never raises')
    if r.raised:
        return
    out = list(to_cells(r.value))
    loads = [l for l in log if l[0] == 'load']
    used = [p for p in modes_mod._MODE_INFO[mode].get('planes_used', range(4))] if ega else None
    unused_plane = ega and (plane % (max(used) + 1)) not in used
    E.prove(all(bool(And(l[1] == page, l[2] == y, l[3] == x, l[4] == x + n * unit_px)) for l in loads) and (len(loads) >= 1 or unused_plane),
            'the pixels read are x .. x+n*ppb-1 of scan line y of the chunk\'s page')
    def enc(i, pl):
        # byte i of the chunk on bit plane pl (None = all bits of each pixel, packed)
        if pl is None:
            k = g['ppb']; bpp = 8 // k
            return sum((cells[i * k + j] % (1 << bpp)) * (1 << (8 - bpp * (j + 1))) for j in range(k))
        return sum(((cells[i * 8 + j] // (1 << pl)) % 2) * (1 << (7 - j)) for j in range(8))
    if g['tandy']:
        E.prove(len(out) == 2 * total, 'block length')
        for i in range(n):
            for parity in (0, 1):
                pl = If(addr % 2 == 0, parity, 1 - parity) if not isinstance(addr, int) else parity ^ (addr % 2)
                want = If(pl == 0, enc(i, 0), enc(i, 1)) if not isinstance(pl, int) else enc(i, pl)
                E.prove(out[2 * (ofs + i) + parity] == want, 'byte i of the chunk packs bit `plane` of its 8 pixels (even addresses plane 0, odd plane 1)')
        return
    E.prove(len(out) == total, 'block length')
    for i in range(n):
        if ega:
            eff = plane % (max(used) + 1)
            want = enc(i, eff) if eff in used else 0
        else:
            want = enc(i, None)
        E.prove(out[ofs + i] == want, 'byte i of the chunk is the encoding of the pixels it covers')
    E.prove(And(out[0] == 0, out[ofs + n] == 0), 'bytes outside the chunk stay 0')


def t_chunk_write(E, mode, nunits, plane_mask):
    """set_memory, one chunk (page, x, y, ofs, n) of the walk: the n bytes at ofs of the block replace the
    pixels x .. x+n*ppb-1 of scan line y of that page by their decoding - all bits of each pixel (CGA
    packing), or exactly the bits of the writable colour planes selected by the plane mask (EGA) - so that
    get_memory returns the bytes written; nothing else is stored."""
    m, g, disp, log, cells, (page, x, y, ofs, n), unit_px = _chunk_setup(E, mode, nunits)
    ega = isinstance(m, fb.EGAMemoryMapper)
    if ega:
        E.call(m.set_plane_mask, plane_mask)
    addr = E.int('addr', g['base'], g['base'] + 0xffff)
    total = ofs + n + 1
    data = [E.int('d[%d]' % i, 0, 255) for i in range(total)]
    block = SBuf(data, 'bytearray') if E.mode == 'symbolic' else bytearray(data)
    r = E.call(m.set_memory, disp, addr, block)
    E.prove(not r.raised, 'never raises')
    if r.raised:
        return
    stores = [l for l in log if l[0] == 'store']
    if ega:
        used = list(modes_mod._MODE_INFO[mode].get('planes_used', range(4)))
        mask = plane_mask & sum(1 << p for p in used)
        if mask == 0:
            E.prove(len(stores) == 0, 'no writable plane selected: nothing is stored')
            return
    E.prove(len(stores) == 1, 'one store')
    if len(stores) != 1:
        return
    _, sp, sy, sx0, sx1, got = stores[0]
    E.prove(And(sp == page, sy == y, sx0 == x, sx1 == x + n * unit_px), 'the pixels written are x .. x+n*ppb-1 of scan line y of the chunk\'s page')
    E.prove(len(got) == n * unit_px, 'one pixel value per pixel')
    if len(got) != n * unit_px:
        return
    for i in range(n):
        for j in range(unit_px):
            b = data[ofs + i]
            if ega:
                bit = (b // (1 << (7 - j))) % 2
                old = cells[i * 8 + j]
                # the selected writable planes take the bit, the other planes keep the old pixel bits
                want = sum((bit if (mask >> pl) & 1 else (old // (1 << pl)) % 2) * (1 << pl) for pl in range(8))
            else:
                bpp = 8 // unit_px
                want = (b // (1 << (8 - bpp * (j + 1)))) % (1 << bpp)
            E.prove(got[i * unit_px + j] == want, 'pixel j of byte i takes the bits of the byte (on the selected writable planes)')

# ---------------------------------------------------------------------------
# Text modes: TextMemoryMapper.get_memory / set_memory, all addresses and all block lengths

def _text_modes():
    return sorted(name for name, info in modes_mod._MODE_INFO.items() if 'bitsperpixel' not in info)

TEXT_MODES = _text_modes()


def _text_content(what, page, r, c):
    """Concrete page content for native replay."""
    return (page * 7 + r * 3 + c * 5 + (11 if what == 'attr' else 0) + 1) % 256


class _TPage(object):
    """One text page: every access is logged; content is unconstrained (fresh bytes)."""
    _pyvc_trusted = True

    def __init__(self, E, page, H, W, log):
        self.E, self.page, self.H, self.W, self.log = E, page, H, W, log

    def _cell(self, row, col):
        # list semantics of the real buffers: _rows[row-1].chars[col-1]
        r, c = row - 1, col - 1
        if bool(Or(r >= self.H, r < -self.H)):
            raise IndexError('list index out of range')
        if bool(r < 0):
            r = r + self.H
        if bool(Or(c >= self.W, c < -self.W)):
            raise IndexError('list index out of range')
        if bool(c < 0):
            c = c + self.W
        return r, c

    def _content(self, what, r, c):
        if self.E.mode == 'symbolic':
            return self.E.fresh(what, 0, 255)
        return _text_content(what, self.page, r, c)

    def get_byte(self, row, col):
        r, c = self._cell(row, col)
        v = self._content('char', r, c)
        self.log.append(('char', self.page, r, c, v))
        return v

    def get_attr(self, row, col):
        r, c = self._cell(row, col)
        v = self._content('attr', r, c)
        self.log.append(('attr', self.page, r, c, v))
        return v

    def put_char_attr(self, row, col, char, attr, adjust_end=False):
        r, c = self._cell(row, col)
        cs = to_cells(char)
        if len(cs) != 1:
            raise AssertionError('one character')
        self.log.append(('put', self.page, r, c, cs[0], attr))


class _TPages(object):
    """display.pages: a list of n pages, with Python's list indexing (negative indices included)."""
    _pyvc_trusted = True

    def __init__(self, E, n, H, W, log):
        self.E, self.n, self.H, self.W, self.log = E, n, H, W, log

    def __getitem__(self, page):
        if bool(Or(page >= self.n, page < -self.n)):
            raise IndexError('list index out of range')
        if bool(page < 0):
            page = page + self.n
        return _TPage(self.E, page, self.H, self.W, self.log)

    def __len__(self):
        return self.n


def _text_mapper(E, mode, vm):
    info = modes_mod._MODE_INFO[mode]
    mode_data = dict(**info)
    mode_cls = mode_data.pop('layout')
    mode_obj = E.new(mode_cls, name=mode, video_mem_size=vm, **mode_data)
    m = mode_obj.memorymap
    W, H = info['columns'], info['rows']
    g = {'W': W, 'H': H, 'page': 0x1000 if W == 80 else 0x800,
         'base': (0xb000 if info['mono'] else 0xb800) * 16}
    np_ = vm // g['page']
    if info['max_pages']:
        np_ = min(info['max_pages'], np_)
    g['pages'] = np_
    return m, g


def _text_ref(g, a):
    """Reference layout of text memory: (backs content, page, row, col, 0 = character / 1 = attribute)."""
    o = a - g['base']
    page, off = o // g['page'], o % g['page']
    row, col = off // (2 * g['W']), (off % (2 * g['W'])) // 2
    backs = And(o >= 0, page < g['pages'], row < g['H'])
    return backs, page, row, col, o % 2


def t_text_geometry(E, mode, vm):
    m, g = _text_mapper(E, mode, vm)
    E.prove(m._video_segment * 16 == g['base'] and m._page_size == g['page'], 'segment and page size of the adapter')
    E.prove(E.call(getattr, m, 'num_pages').value == g['pages'], 'number of pages = memory // page size, capped by the mode')
    E.prove(2 * g['W'] * g['H'] <= g['page'], 'a screen of character/attribute pairs fits in a page')


def t_text_get(E, mode, vm):
    """get_memory(addr, n): byte i is the character (even) or attribute (odd) of the cell at addr+i, 0 where
    no screen content is backed; for all addr and all n (loop contract)."""
    m, g = _text_mapper(E, mode, vm)
    log = []
    disp = _Display(_TPages(E, g['pages'], g['H'], g['W'], log))
    addr = E.int('addr', 0xa0000, 0xbffff)
    n = E.int('num', 0, 0x20000)

    def iteration(before, L, i):
        E.cover('iteration')
        backs, page, row, col, kind = _text_ref(g, addr + i)
        mem = L.get('mem_bytes')
        if not isinstance(mem, SRegion):
            raise Unsupported('loop contract of get_memory is stated over the result buffer mem_bytes')
        stores = [x for x in mem.items if x[0] == 'set']
        if bool(backs):
            E.cover('backed')
            E.prove(len(log) == 1, 'one cell is read')
            E.prove(len(stores) == 1, 'one byte of the block is set')
            if len(log) == 1 and len(stores) == 1:
                what, p, r, c, v = log[0]
                E.prove(And(p == page, r == row, c == col), 'byte i of the block comes from the cell that backs address addr+i')
                E.prove((what == 'attr') == (kind == 1) if isinstance(kind, int) else If(kind == 1, what == 'attr', what == 'char'),
                        'odd addresses are attributes, even addresses characters')
                E.prove(And(stores[0][1] == i, stores[0][2] == v), 'and is stored at position i of the block')
        else:
            E.cover('not backed')
            E.prove(len(stores) == 0, 'an address that backs no screen content reads 0 (nothing stored)')

    def on_exit(L, cnt):
        E.cover('exit')
        E.prove(cnt == n, 'one iteration per byte')

    if E.mode == 'symbolic':
        E.interp.loop_contracts['get_memory'] = {'invariant': lambda L, i: True, 'iteration': iteration, 'exit': on_exit}
    r = E.call(m.get_memory, disp, addr, n)
    E.prove(not r.raised, 'never raises')
    if r.raised:
        return
    if E.mode == 'symbolic':
        E.prove(isinstance(r.value, SRegion) and r.value.n == n, 'the block has the requested length')
        return
    # native replay: the whole block against the reference layout
    got = list(r.value)
    E.prove(len(got) == n, 'the block has the requested length')
    for i in range(n):
        backs, page, row, col, kind = _text_ref(g, addr + i)
        want = _text_content('attr' if kind else 'char', page, row, col) if backs else 0
        E.prove(got[i] == want, 'byte i of the block comes from the cell that backs address addr+i')


def t_text_set(E, mode, vm):
    """set_memory(addr, block): byte i replaces the character (even) or attribute (odd) of the cell at addr+i
    and nothing else; bytes that back no content are dropped; all addr, all lengths (loop contract)."""
    m, g = _text_mapper(E, mode, vm)
    log = []
    disp = _Display(_TPages(E, g['pages'], g['H'], g['W'], log))
    addr = E.int('addr', 0xa0000, 0xbffff)
    n = E.int('num', 0, 0x20000)
    block = SRegion(n, kind='bytes')

    def iteration(before, L, i):
        E.cover('iteration')
        backs, page, row, col, kind = _text_ref(g, addr + i)
        puts = [x for x in log if x[0] == 'put']
        gets = [x for x in log if x[0] != 'put']
        reads = [x for x in block.items if x[0] == 'get']
        if bool(backs):
            E.cover('backed')
            E.prove(len(puts) == 1 and len(gets) == 1 and len(reads) == 1, 'one cell is rewritten from one byte of the block')
            if len(puts) == 1 and len(gets) == 1 and len(reads) == 1:
                _, p, r, c, ch, at = puts[0]
                what, p0, r0, c0, old = gets[0]
                E.prove(And(p == page, r == row, c == col), 'the cell written is the one that backs address addr+i')
                E.prove(And(p0 == page, r0 == row, c0 == col), 'its other half is read from the same cell')
                E.prove(reads[0][1] == i, 'the byte written is byte i of the block')
                v = reads[0][2]
                if bool(kind == 1):
                    E.prove(what == 'char', 'an odd address keeps the character')
                    E.prove(And(ch == old, at == v), 'and sets the attribute to the byte')
                else:
                    E.prove(what == 'attr', 'an even address keeps the attribute')
                    E.prove(And(ch == v, at == old), 'and sets the character to the byte')
        else:
            E.cover('not backed')
            E.prove(len(puts) == 0, 'a byte at an address that backs no screen content changes nothing')

    def on_exit(L, cnt):
        E.cover('exit')
        E.prove(cnt == n, 'one iteration per byte')

    if E.mode == 'symbolic':
        E.interp.loop_contracts['set_memory'] = {'invariant': lambda L, i: True, 'iteration': iteration, 'exit': on_exit}
    if E.mode != 'symbolic':
        block = bytes((i * 37 + 5) % 256 for i in range(n))
    r = E.call(m.set_memory, disp, addr, block)
    E.prove(not r.raised, 'never raises')
    if E.mode != 'symbolic' and not r.raised:
        # native replay: the sequence of cell writes against the reference layout
        puts = [x for x in log if x[0] == 'put']
        want = []
        for i in range(n):
            backs, page, row, col, kind = _text_ref(g, addr + i)
            if backs:
                if kind:
                    want.append(('put', page, row, col, _text_content('char', page, row, col), block[i]))
                else:
                    want.append(('put', page, row, col, block[i], _text_content('attr', page, row, col)))
        E.prove(puts == want, 'the cell written is the one that backs address addr+i')

# ---------------------------------------------------------------------------
# Memory block access: the split between video memory and everything else

class _Mem(object):
    _pyvc_trusted = True


def t_block_split(E, write, length):
    m = object.__new__(machine.Memory)
    reads, vreads, writes, vwrites = [], [], [], []
    if E.mode == 'symbolic':
        E.interp.contracts[machine.Memory._get_video_memory_block] = lambda I, args, kw: (vreads.append((args[1], args[2])), SBuf([7] * E.concretize(Max(args[2], 0), limit=64), 'bytearray'))[1]
        E.interp.contracts[machine.Memory._get_memory] = lambda I, args, kw: (reads.append(args[1]), 9)[1]
        E.interp.contracts[machine.Memory._set_video_memory_block] = lambda I, args, kw: vwrites.append((args[1], list(to_cells(args[2]))))
        E.interp.contracts[machine.Memory._set_memory] = lambda I, args, kw: writes.append((args[1], args[2]))
    else:
        m._get_video_memory_block = lambda addr, n: (vreads.append((addr, n)), bytearray([7] * max(n, 0)))[1]
        m._get_memory = lambda addr: (reads.append(addr), 9)[1]
        m._set_video_memory_block = lambda addr, buf: vwrites.append((addr, list(buf)))
        m._set_memory = lambda addr, val: writes.append((addr, val))
    base = machine.Memory.video_segment * 16
    end = base + 0x20000
    addr = E.int('addr', 0, 0xfffff + 16)
    data = E.bytes('data', length)
    if write:
        r = E.call(m._set_memory_block, addr, data)
    else:
        r = E.call(m._get_memory_block, addr, length)
    E.prove(not r.raised, 'never raises')
    if r.raised:
        return
    vlog = vwrites if write else vreads
    blog = writes if write else reads
    invideo = And(addr >= base, addr < end)
    E.prove(len(vlog) <= 1, 'at most one block access to video memory')
    # the video part: [addr, min(addr+length, end)) when addr lies in the video area
    vlen = 0
    if vlog:
        E.cover('video part')
        va = vlog[0][0]
        vlen = len(vlog[0][1]) if write else vlog[0][1]
        E.prove(invideo, 'the video path is taken only inside the 128 KiB video area')
        E.prove(And(va == addr, vlen == Min(length, end - addr)), 'video part = from addr to the end of the block or of the video area')
        if write:
            E.prove(cells_equal(vlog[0][1], list(to_cells(data))[:len(vlog[0][1])]), 'with the first bytes of the data')
    else:
        E.prove(Or(Not(invideo), length == 0) if not write else True, 'no video access only outside the video area')
    vl = E.concretize(vlen) if isinstance(vlen, SInt) else vlen
    rest = length - vl
    E.prove(len(blog) == max(rest, 0), 'the remaining bytes are accessed one by one')
    for k, rec in enumerate(blog):
        a_k = rec[0] if write else rec
        E.prove(a_k == addr + vl + k, 'byte %d of the rest is at its own address' % k)
        if write:
            E.prove(rec[1] == to_cells(data)[vl + k], 'and takes its own value')
    if not write:
        E.prove(len(to_cells(r.value)) == length, 'the block has the requested length')


TASKS = [
    Task('mapper geometry', t_geometry, cases=[{'mode': m, 'vm': v} for m in MODES for v in VMS]),
    Task('_get_coords (decode after layout)', t_decode_encode, cases=[{'mode': m, 'vm': v} for m in MODES for v in (16384, 65536, 262144)]),
    Task('_get_coords / _coord_ok (layout after decode)', t_encode_decode, cases=[{'mode': m, 'vm': v} for m in MODES for v in (16384, 65536, 262144)]),
    Task('GraphicsMemoryMapper._walk_memory', t_walk, covers=('iteration', 'chunk emitted', 'gap skipped', 'exit'),
         cases=[{'mode': m, 'vm': v, 'factor': 2 if modes_mod._MODE_INFO[m]['layout']._memorymapper is fb.Tandy6MemoryMapper else 1}
                for m in MODES for v in (16384, 65536)]),
    Task('get_memory/set_memory block = bytes (bounded)', t_block_bytes_bounded, cases=[{'mode': m} for m in MODES],
         bounded=True, samples=(12, 120), scope='12 (quick) / 120 (thorough) sampled blocks of 1..700 bytes per mode at sampled bank offsets, real ByteMatrix'),
    Task('bytematrix.unpack_bytes / pack_bytes', t_pack, cases=[{'k': k, 'nbytes': n} for k in (1, 2, 4, 8) for n in (1, 2, 3)]),
    Task('get_memory: one chunk to bytes', t_chunk_read,
         cases=[{'mode': m, 'nunits': n, 'plane': p} for m in MODES for n in (1, 2)
                if modes_mod._MODE_INFO[m]['layout']._memorymapper is not fb.Tandy6MemoryMapper    # Tandy SCREEN 6: bounded task only
                for p in ((0, 1, 2, 3, 5) if modes_mod._MODE_INFO[m]['layout']._memorymapper is fb.EGAMemoryMapper else (0,))]),
    Task('set_memory: one chunk to pixels', t_chunk_write,
         cases=[{'mode': m, 'nunits': n, 'plane_mask': p} for m in MODES
                if modes_mod._MODE_INFO[m]['layout']._memorymapper is not fb.Tandy6MemoryMapper    # Tandy SCREEN 6: bounded task only
                for n in ((1,) if modes_mod._MODE_INFO[m]['layout']._memorymapper is fb.EGAMemoryMapper else (1, 2))
                for p in ((0, 1, 2, 8, 5, 15, 255) if modes_mod._MODE_INFO[m]['layout']._memorymapper is fb.EGAMemoryMapper else (0,))]),
    Task('text mapper geometry', t_text_geometry, cases=[{'mode': m, 'vm': v} for m in TEXT_MODES for v in (16384, 32768, 262144)]),
    Task('TextMemoryMapper.get_memory', t_text_get, covers=('iteration', 'backed', 'not backed', 'exit'),
         cases=[{'mode': m, 'vm': v} for m in TEXT_MODES for v in (16384, 262144)]),
    Task('TextMemoryMapper.set_memory', t_text_set, covers=('iteration', 'backed', 'not backed', 'exit'),
         cases=[{'mode': m, 'vm': v} for m in TEXT_MODES for v in (16384, 262144)]),
    Task('Memory._get_memory_block / _set_memory_block', t_block_split,
         cases=[{'write': w, 'length': n} for w in (False, True) for n in (0, 1, 2, 5)]),
]

ASSUMPTIONS = [
    'the mode table (display/modes.py _MODE_INFO) is read from the real module on every run; video memory sizes 16K/32K/64K/256K',
    'block = byte access follows from the chunk contract by the partition argument stated in the header '
    '(consecutive chunks, each unit decoded exactly as the single-byte access decodes it)',
    'Memory block split: block length is a case parameter (0, 1, 2, 5), the address is symbolic over the whole 1 MiB',
    'text modes: the text page is a logging stand-in with Python list indexing (negative indices included); content is unconstrained',
    'chunk-to-bytes / chunk-to-pixels: _walk_memory is taken by its contract (one arbitrary chunk), pixel values and block bytes symbolic, '
    'real ByteMatrix frompacked / packed / render / & | >> on the row',
]
NOT_COVERED = [
    'ByteMatrix row slicing itself (pixels[y, x0:x1] load/store is a logging stand-in that returns / receives a real one-row ByteMatrix); '
    'the chunk tasks use chunks of 1 or 2 bytes (the per-byte encoding does not depend on the chunk length: pack/unpack contracts for 1..3 bytes)',
    'Tandy SCREEN 6 (two interleaved plane walks): the step from chunks to bytes is only in the bounded block = bytes task',
    'preset PEEK values (peek_values option) shadowing video addresses in the byte-wise path',
]
