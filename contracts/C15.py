"""
C15 - Saved programs load back identically; the protection cipher is a bijection.

Under contract (real source): converter.protect / converter.unprotect (stream loops) and
Program.save / Program.load in protected ('P') and tokenised ('B') mode, Program.erase.
Streams are stand-ins with io.BytesIO semantics over symbolic bytes.
  * unprotect(protect(s) + EOF) = s and protect(unprotect(t + EOF)) = t for every byte string of
    length 0, 1, 2, 142..145 and 290 (all bytes symbolic): every cipher index 0..142 is covered
    twice, including the wrap-around of the 13*11 key schedule. The loop body depends on the
    position only through index = position mod 143, so longer strings repeat these cases.
  * save in mode P / B then load restores byte-identical program memory (program memory
    always holds at least the 2 terminator bytes after the leading zero: n >= 2).
"""

from .common import *
from pcbasic.basic import converter, program as program_mod

PROPERTY = 'C15'


def t_cipher_roundtrip(E, n, first):
    if E.mode == 'symbolic':
        E.prefer_bv = True      # byte-wide xor/add/sub: decided by the bit-vector back end
        E.BV_WIDTH = 24
    data = [E.int('s[%d]' % i, 0, 255) for i in range(n)]
    src = SymStream(data)
    mid = SymStream()
    enc, dec = (converter.protect, converter.unprotect) if first == 'protect' else (converter.unprotect, converter.protect)
    if first == 'unprotect':
        # the decoder drops the final (EOF) byte of its input
        src = SymStream(data + [0x1a])
    r1 = E.call(enc, src, mid)
    E.prove(not r1.raised, 'first pass never raises')
    if r1.raised:
        return
    E.prove(len(mid.cells) == n, 'first pass is length preserving')
    back = SymStream()
    inp = SymStream(list(mid.cells) + ([0x1a] if first == 'protect' else []))
    r2 = E.call(dec, inp, back)
    E.prove(not r2.raised, 'second pass never raises')
    if r2.raised:
        return
    E.prove(len(back.cells) == n, 'second pass is length preserving')
    for i in range(min(n, len(back.cells))):
        E.prove(back.cells[i] == data[i], 'byte %d of the round trip (cipher index %d)' % (i, i % 143)
                if n <= 3 else 'round trip restores every byte')
    if n:
        E.canary(mid.cells[0] == data[0], 'canary: cipher is the identity')


class _Mem(object):
    _pyvc_trusted = True
    code_start = 4718
    def stack_start(self):
        # default memory size 65534, stack 512 (DataSegment.stack_start)
        return 65534 - 512 - 2


def _program(E, body, allow_protect=True):
    p = object.__new__(program_mod.Program)
    p._memory = _Mem()
    p.bytecode = SymStream([0] + list(body))
    p.protected = False
    p.allow_protect = allow_protect
    p.allow_code_poke = False
    p.max_list_line = 65535
    p.code_start = 4718
    p.line_numbers = {65536: 0}
    p.last_stored = 0
    p.code_size = len(body) + 1
    return p


def t_save_load(E, mode, n):
    if E.mode == 'symbolic':
        E.prefer_bv = True
        E.BV_WIDTH = 24
    body = [E.int('code[%d]' % i, 0, 255) for i in range(n)]
    p = _program(E, body)
    p.bytecode.seek(7 % (n + 1))
    pos0 = p.bytecode.tell()
    g = SymStream(filetype=mode)
    r = E.call(p.save, g)
    E.prove(not r.raised, 'SAVE succeeds')
    if r.raised:
        return
    E.prove(p.bytecode.tell() == pos0 and p.bytecode.cells[1:] == body, 'program memory and position untouched by SAVE')
    E.prove(len(g.cells) == n, 'file holds one byte per program byte')
    # the file as the loader sees it (protected files end with the EOF byte, which the decoder drops)
    f = SymStream(list(g.cells) + ([0x1a] if mode == b'P' else []), filetype=mode)
    q = _program(E, [E.int('old[%d]' % i, 0, 255) for i in range(5)])
    calls = []
    if E.mode == 'symbolic':
        E.interp.contracts[program_mod.Program.rebuild_line_dict] = lambda I, args, kw: calls.append(1)
    else:
        q.rebuild_line_dict = lambda: calls.append(1)
    r2 = E.call(q.load, f)
    E.prove(not r2.raised, 'LOAD succeeds')
    if r2.raised:
        return
    E.prove(len(q.bytecode.cells) == n + 1, 'loaded program has the same size')
    E.prove(q.bytecode.cells[0] == 0, 'leading zero byte')
    for i in range(min(n, len(q.bytecode.cells) - 1)):
        E.prove(q.bytecode.cells[1 + i] == body[i], 'LOAD restores byte-identical program memory')
    E.prove(calls == [1], 'line number table rebuilt once')
    E.prove(q.protected == (mode == b'P'), 'a protected file sets protection, a tokenised one clears it')
    E.prove(q.code_size == n + 1, 'code size updated')


def t_protected_save(E, mode):
    """A protected program can only be saved in protected form (shared with C16)."""
    p = _program(E, [E.int('code[%d]' % i, 0, 255) for i in range(6)])
    p.protected = True
    g = SymStream(filetype=mode)
    r = E.call(p.save, g)
    if mode == b'P':
        E.prove(not r.raised and len(g.cells) == 6, 'SAVE ,P of a protected program succeeds')
    else:
        E.prove(r.is_error(BASICError, error.IFC) and g.cells == [], 'other formats: Illegal function call, nothing written')


class _Lines(object):
    _pyvc_trusted = True
    def __init__(self, items):
        self.items = list(items)
    def read_line(self):
        return self.items.pop(0) if self.items else (b'', None)

class _TokBuf(object):
    _pyvc_trusted = True
    def __init__(self, first):
        self.first = first
        self.reads = 0
    def read(self, n=1):
        self.reads += 1
        return self.first
    def skip_blank(self):
        return b''

class _Tokeniser(object):
    _pyvc_trusted = True
    def __init__(self):
        self.seen = []
    def tokenise_line(self, line):
        self.seen.append(line)
        return _TokBuf(b'\0' if bytes(line[:1]).isdigit() else b':')


def t_merge_lines(E, n, cr):
    """ASCII LOAD/MERGE: every line the file layer delivers (with its line ending) is
    tokenised and stored, whatever its length; Line buffer overflow only when the file layer
    reports an overlong line (cr is None); end of file ends the merge."""
    p = _program(E, [0, 0])
    tok = _Tokeniser()
    p.tokeniser = tok
    stored = []
    if E.mode == 'symbolic':
        E.interp.contracts[program_mod.Program.store_line] = lambda I, args, kw: stored.append(args[1])
    else:
        p.store_line = lambda buf: stored.append(buf)
    line = (b'10 ' + b'X' * 300)[:n] if n else b''
    f = _Lines([(line, cr), (b'20 END', b'\r')])
    r = E.call(p.merge, f)
    if cr is None and n > 0:
        E.prove(r.is_error(BASICError, error.LINE_BUFFER_OVERFLOW), 'an overlong line reported by the file layer: Line buffer overflow')
        E.prove(stored == [], 'nothing stored')
    elif n == 0 and cr is None:
        E.prove(not r.raised and stored == [], 'end of file: nothing merged')
    else:
        E.prove(not r.raised, 'a delivered line of any length is accepted')
        E.prove(tok.seen[:1] == [line] and len(stored) == (2 if n else 1),
                'each delivered line is tokenised and (when it starts with a line number) stored')


def t_read_line(E, n, ending):
    """TextFile.read_line (ASCII LOAD / MERGE read program lines through it): a line of up to 255 characters
    ended by CR comes back whole with its CR (255 is the longest line that can be entered); 256 or more
    characters come back as the first 255 without a line end (-> Line buffer overflow in merge)."""
    from pcbasic.basic.devices import diskfiles
    chars = [E.int('c[%d]' % i, 32, 126) for i in range(n)]
    data = chars + ([13] if ending == 'cr' else ([13, 10] if ending == 'crlf' else []))
    class _File(object):
        _pyvc_trusted = True
        def __init__(self):
            self.pos = 0
            self._previous = b''
        def read_one(self):
            if self.pos >= len(data):
                return b''
            c = data[self.pos]
            self.pos += 1
            out = SBuf([c], 'bytes') if not isinstance(c, int) else bytes([c])
            return out
        def peek(self, k):
            c = data[self.pos:self.pos + k]
            return bytes(c) if all(isinstance(x, int) for x in c) else SBuf(c, 'bytes')
    f = _File()
    r = E.call(diskfiles.TextFile.read_line, f)
    E.prove(not r.raised, 'never raises')
    if r.raised:
        return
    line, cr = r.value
    got = list(to_cells(line))
    if n <= 255:
        E.prove(len(got) == n and (n == 0 or bool(cells_equal(got, chars))), 'a line of up to 255 characters comes back whole')
        if ending == 'eof':
            E.prove(not cr, 'end of file: no line end')
        else:
            E.prove(cr == b'\r', 'with its line end')
    else:
        E.prove(len(got) == 255 and bool(cells_equal(got, chars[:255])), 'a longer line is cut after 255 characters')
        E.prove(cr is None, 'and reported without a line end')


TASKS = [
    Task('converter.protect/unprotect', t_cipher_roundtrip, max_seconds=600,
         cases=[{'n': n, 'first': f} for n in (0, 1, 2, 142, 143, 144, 145, 290, 600) for f in ('protect', 'unprotect')]),
    Task('converter.protect/unprotect (long streams)', t_cipher_roundtrip, tier='thorough',
         cases=[{'n': n, 'first': f} for n in (511, 512, 513, 1024, 1200, 4200) for f in ('protect', 'unprotect')]),
    Task('Program.save/load', t_save_load, max_seconds=500, cases=[{'mode': m, 'n': n} for m in (b'P', b'B') for n in (2, 3, 40, 150)]),
    Task('Program.save (protected program)', t_protected_save, max_seconds=500, cases=[{'mode': m} for m in (b'P', b'B', b'A')]),
    Task('Program.merge (delivered lines)', t_merge_lines,
         cases=[{'n': n, 'cr': c} for n in (0, 4, 254, 255, 256, 300) for c in (b'\r', None)]),
    Task('TextFile.read_line', t_read_line, cases=[{'n': n, 'ending': e} for n in (0, 1, 254, 255, 256, 300) for e in ('cr', 'crlf', 'eof')]),
]

ASSUMPTIONS = [
    'streams are stand-ins with io.BytesIO semantics (read/write/seek/tell/truncate) over symbolic bytes',
    'the EOF byte (0x1a) that the disk layer appends to a protected file is supplied by the harness',
    'Program.rebuild_line_dict after LOAD is replaced by a recording stub (C13)',
    'cipher: lengths 0,1,2,142..145,290 cover every key index twice; arbitrary length by periodicity of index mod 143',
]
NOT_COVERED = ['ASCII SAVE/LOAD/MERGE (goes through lister and tokeniser, see C17)', 'main._convert (command-line converter)']
