"""
C10 - String variables keep their values through garbage collection; FRE is consistent.

Under contract (real source): StringSpace.store / _delete_last / collect_garbage / fix_temporaries /
reset_temporaries / clear (values/strings.py); DataSegment._collect_garbage / check_free /
_get_free / fre_ / set_variable / view_or_create_variable (memory/memory.py) with the real Scalars
and Arrays (get_strings, set, get).

A memory *layout* is a case parameter: the order in which strings of given lengths were allocated
and which of them are still referenced (scalar, array element, temporary on the evaluation stack) or
garbage. String *contents* are symbolic. Representation invariant strings_ok:
    every referenced pointer (length > 0, address >= var_start) has its bytes in string space under
    its address with that length; the stored strings are disjoint, lie in (current, stack_start];
Contracts:
  collect_garbage : every live variable / array element / temporary reads back the same bytes;
      string space holds exactly the live strings, packed without gaps below stack_start in their
      old order; current = stack_start - (live bytes); strings_ok holds again
  FRE after collection = total memory - stack - 2 - program - variables - arrays - live string bytes
  check_free(size, err): raises err exactly when the free space after a collection is <= size; a
      collection happens only when the space before was <= size; never changes a live value
  store : the new string lies directly below all others; nothing else moves (strings_ok preserved)
  temporaries: reset_temporaries frees exactly the one temporary at the top; fix_temporaries none
"""

from .common import *
from pcbasic.basic.memory import memory as memory_mod

PROPERTY = 'C10'


def engine_mode():
    from pyvc import sym
    e = sym._ENGINE[0]
    return e.mode if e is not None else 'native'


class _Prog(object):
    _pyvc_trusted = True
    protected = False
    def __init__(self, size=50):
        self._size = size
    def size(self):
        return self._size
    def get_memory_block(self, addr, n):
        return SBuf([76] * n, 'bytearray') if engine_mode() == 'symbolic' else bytearray(b'L' * n)


def _segment(E, total=65534, stack=512):
    ds = E.new(memory_mod.DataSegment, total, 3429, stack, 3, False)
    ds.set_buffers(_Prog())
    ds.values.set_handler(values.FloatErrorHandler(None))
    return ds


# layout items: (kind, length); kinds:
#   's' scalar assigned and kept, 'g' scalar assigned then overwritten (garbage), 'a' array element,
#   't' temporary kept alive on the evaluation stack, 'e' empty scalar, 'l' scalar pointing at a program literal,
#   'v' scalar assigned and kept, with a view of the variable itself waiting on the evaluation stack (as every
#       variable operand of an expression is: the same pointer reaches the collector twice)
#   'w' scalar assigned and kept, with a view of the variable registered in temp_values (argument of a running
#       built-in string function)
#   'z' scalar holding a *computed* empty string (length 0 but carrying the address of the allocation pointer,
#       i.e. the address of the string stored just before it)
LAYOUTS = [
    [('s', 3)],
    [('g', 4), ('s', 2)],
    [('s', 2), ('g', 5), ('s', 1), ('g', 1)],
    [('a', 3), ('g', 2), ('a', 1), ('s', 4)],
    [('s', 1), ('e', 0), ('g', 3), ('a', 2), ('l', 2), ('s', 2)],
    [('g', 2), ('g', 3), ('g', 1)],
    [('s', 255), ('g', 255), ('s', 254)],
    [('s', 2), ('t', 3), ('g', 1), ('s', 1)],
    [],
    [('s', 2), ('g', 4), ('t', 3)],
    [('g', 4), ('t', 3)],
    [('t', 2), ('t', 1)],
    [('s', 3), ('z', 0)],
    [('s', 2), ('z', 0), ('s', 1), ('z', 0), ('g', 2)],
    [('a', 2), ('z', 0), ('t', 1)],
    [('s', 1)],
    [('s', 1), ('t', 2)],
    [('v', 3)],
    [('g', 4), ('v', 2), ('s', 1)],
    [('v', 2), ('g', 3), ('t', 2), ('w', 1)],
    [('a', 2), ('w', 3), ('g', 1)],
]


def _build(E, ds, layout):
    """Populate; returns list of readers [(description, getter, expected cells)] and live byte count."""
    vals = ds.values
    live = []
    live_bytes = 0
    names = iter([b'A$', b'B$', b'C$', b'D$', b'E$', b'F$', b'G$', b'H$'])
    n_arr = sum(1 for k, _ in layout if k == 'a')
    if n_arr:
        E.call(ds.arrays.allocate, b'Z$', [max(n_arr - 1, 0)])
    ai = 0
    stack = []
    ds._stack.append(stack)
    # as at the start of every statement
    E.call(ds.strings.fix_temporaries)
    for i, (kind, L) in enumerate(layout):
        content = E.bytes('str%d' % i, L, kind='bytes') if L else b''
        if kind == 'z':
            name = next(names)
            z = E.new(strings.String, None, vals)
            E.call(z.from_str, b'')
            E.call(ds.set_variable, name, [], z)
            live.append((name.decode() + ' (computed empty)', (ds.view_or_create_variable, name, []), []))
        elif kind in ('s', 'g', 'e', 'v', 'w'):
            name = next(names)
            E.call(ds.set_variable, name, [], new_string(E, vals, content) if L else vals.new_string())
            if kind in ('v', 'w'):
                view = E.call(ds.view_or_create_variable, name, []).value
                if kind == 'v':
                    stack.append(view)
                else:
                    ds.temp_values.add(view)
                live.append(('operand view of ' + name.decode(), view, list(to_cells(content))))
            if kind == 'g':
                # overwrite: the old bytes become garbage
                E.call(ds.set_variable, name, [], vals.new_string())
            else:
                live.append((name.decode(), (ds.view_or_create_variable, name, []), list(to_cells(content))))
                live_bytes += L
        elif kind == 'a':
            E.call(ds.set_variable, b'Z$', [ai], new_string(E, vals, content))
            live.append(('Z$(%d)' % ai, (ds.view_or_create_variable, b'Z$', [ai]), list(to_cells(content))))
            live_bytes += L
            ai += 1
        elif kind == 't':
            t = new_string(E, vals, content)
            stack.append(t)
            live.append(('temporary %d' % i, t, list(to_cells(content))))
            live_bytes += L
        elif kind == 'l':
            name = next(names)
            lit = E.new(strings.String, None, vals)
            E.call(lit.from_pointer, L, ds.code_start + 10)
            E.call(ds.scalars.set, name, lit)
            live.append((name.decode() + ' (literal)', (ds.view_or_create_variable, name, []), [76] * L))
    return live, live_bytes


class _Unreadable(list):
    """Result of reading a string whose pointer is detached: equal to no value."""
    def __len__(self):
        return -1


def _read(E, getter):
    if isinstance(getter, tuple):
        v = E.call(*getter)
        if v.raised:
            raise Unsupported('reading a live string raised %r' % (v.exc,))
        getter = v.value
    out = E.call(getter.to_str)
    if out.raised:
        if isinstance(out.exc, KeyError):
            # 'Dereferencing detached string': the pointer refers to no stored string
            E.prove(False, 'a live string pointer refers to a stored string (detached: %s)' % (out.exc,))
            raise PathDone('live string unreadable')
        raise Unsupported('to_str raised %r' % (out.exc,))
    return to_cells(out.value)


def _strings_ok(E, ds, live, live_bytes, what, packed):
    sp = ds.strings
    top = ds.stack_start()
    entries = sorted(sp._strings.items())
    E.prove(all(len(v) > 0 for _, v in entries), what + ': no empty string is stored')
    E.prove(all(a > sp.current and a + len(v) - 1 <= top for a, v in entries), what + ': stored strings lie between the allocation pointer and the stack')
    E.prove(all(a + len(v) <= b for (a, v), (b, _) in zip(entries, entries[1:])), what + ': stored strings do not overlap')
    for desc, getter, want in live:
        got = _read(E, getter)
        E.prove(len(got) == len(want) and bool(same_bytes(got, want)) if want else len(got) == 0, what + ': %s reads back its value' % desc)
    if packed:
        E.prove(sp.current == top - live_bytes, what + ': allocation pointer = stack start - live string bytes')
        E.prove(sum(len(v) for _, v in entries) == live_bytes, what + ': string space holds the live strings only, without gaps')


def t_collect(E, layout_no):
    ds = _segment(E)
    live, live_bytes = _build(E, ds, LAYOUTS[layout_no])
    _strings_ok(E, ds, live, live_bytes, 'before collection', packed=False)
    r = E.call(ds._collect_garbage)
    E.prove(not r.raised, 'collection never raises')
    _strings_ok(E, ds, live, live_bytes, 'after collection', packed=True)
    free = E.call(ds._get_free).value
    want = (ds.total_memory - ds.stack_size - 2) - (ds.code_start + ds.program.size()) - ds.scalars.current - ds.arrays.current - live_bytes
    E.prove(free == want, 'free space after collection = memory - stack - program - variables - arrays - live string bytes')
    # idempotent: a second collection changes nothing
    cur = ds.strings.current
    E.call(ds._collect_garbage)
    E.prove(ds.strings.current == cur, 'a second collection moves nothing')
    _strings_ok(E, ds, live, live_bytes, 'after a second collection', packed=True)


def t_release_then_collect(E, layout_no):
    """A string released without any allocation (variable set to the empty string) right after a
    collection is garbage for the next collection."""
    ds = _segment(E)
    live, live_bytes = _build(E, ds, LAYOUTS[layout_no])
    E.call(ds._collect_garbage)
    # release the first live scalar
    victim = None
    for k, (desc, getter, want) in enumerate(live):
        if isinstance(getter, tuple) and getter[2] == [] and want and 'literal' not in desc:
            victim = k
            break
    if victim is None:
        E.prove(True, 'no releasable scalar in this layout')
        return
    desc, getter, want = live[victim]
    E.call(ds.set_variable, getter[1], [], ds.values.new_string())
    live2 = [x for k, x in enumerate(live) if k != victim] + [(desc + ' (released)', getter, [])]
    r = E.call(ds._collect_garbage)
    E.prove(not r.raised, 'collection never raises')
    _strings_ok(E, ds, live2, live_bytes - len(want), 'after releasing a string and collecting again', packed=True)
    free = E.call(ds._get_free).value
    want_free = (ds.total_memory - ds.stack_size - 2) - (ds.code_start + ds.program.size()) - ds.scalars.current - ds.arrays.current - (live_bytes - len(want))
    E.prove(free == want_free, 'FRE counts the released bytes as free')


def t_check_free(E, layout_no, slack):
    """Memory filled (an array stand-in) so that the free space after a collection is `slack`;
    request of symbolic size."""
    ds = _segment(E)
    live, live_bytes = _build(E, ds, LAYOUTS[layout_no])
    garbage = sum(L for k, L in LAYOUTS[layout_no] if k == 'g')
    free_now = E.call(ds._get_free).value
    ds.arrays.current += free_now + garbage - slack
    E.prove(E.call(ds._get_free).value == slack - garbage, 'setup: free space before collection')
    before_cur = ds.strings.current
    size = E.int('size', 0, 300)
    r = E.call(ds.check_free, size, error.OUT_OF_STRING_SPACE)
    if r.raised:
        E.cover('refused')
        E.prove(r.is_error(BASICError, error.OUT_OF_STRING_SPACE), 'only Out of string space')
        E.prove(size >= slack, 'refused only when the free space after a collection is not more than the request')
    else:
        E.cover('granted')
        E.prove(size < slack, 'granted only when more than the request is free after a collection')
    collected = ds.strings.current != before_cur
    if collected:
        E.prove(size >= slack - garbage, 'a collection happens only when the space before it was insufficient')
    _strings_ok(E, ds, live, live_bytes, 'after check_free', packed=False)


def t_mid_statement(E, slack, temp):
    """MID$(A$, 2) = value where A$ points at a program literal (so the statement first copies the
    literal into string space) and only `slack` bytes are free after a collection, garbage present:
    the value - a temporary result of an expression (temp) or a variable - survives the collection the
    copy may trigger; the statement either assigns or reports Out of string space."""
    ds = _segment(E)
    layout = [('l', 6), ('g', 5), ('s', 3)]
    live, live_bytes = _build(E, ds, layout)
    vals = ds.values
    vcells = [E.int('v[%d]' % i, 0, 255) for i in range(3)]
    if temp:
        val = new_string(E, vals, SBuf(vcells, 'bytes') if E.mode == 'symbolic' else bytes(vcells))
        live_bytes += 3
    else:
        val = E.call(ds.view_or_create_variable, b'C$', []).value     # the ('s', 3) scalar
        vcells = live[-1][2]
    free_now = E.call(ds._get_free).value
    ds.arrays.current += free_now + 5 - slack
    two = E.new(numbers.Integer, None, vals)
    E.call(two.from_int, 2)
    r = E.call(ds.mid_, iter([(b'A$', []), two, None, val]))
    E.prove(not r.raised or r.is_error(BASICError, error.OUT_OF_STRING_SPACE), 'assigns or reports Out of string space, nothing else')
    got = _read(E, (ds.view_or_create_variable, b'A$', []))
    if r.raised:
        E.cover('refused')
        E.prove(slack <= 6, 'refused only when the copy of the literal does not fit after a collection')
        E.prove(len(got) == 6 and bool(same_bytes(got, [76] * 6)), 'A$ keeps its value when the statement fails')
    else:
        E.cover('assigned')
        want = [76] + list(vcells) + [76, 76]
        E.prove(len(got) == 6 and bool(same_bytes(got, want)), 'A$ reads back the literal with the value written from position 2')
    others = [x for x in live if not x[0].startswith('A$')]
    _strings_ok(E, ds, others, 0, 'after the MID$ statement', packed=False)


def t_swap_statement(E, slack, right_exists):
    """SWAP A$, Y$(0) under memory pressure: when Y$ is not dimensioned the look-up of the right
    operand allocates the array (42 bytes), which may collect garbage and move A$'s string.
    Either the statement fails with Out of memory and nothing changes, or the two values are exchanged."""
    ds = _segment(E)
    layout = [('g', 4), ('s', 3), ('g', 2), ('s', 2)]
    live, live_bytes = _build(E, ds, layout)     # B$ = str1 (3 bytes), D$ = str3 (2 bytes); A$, C$ garbage
    if right_exists:
        E.call(ds.arrays.allocate, b'Y$', [10])
    free_now = E.call(ds._get_free).value
    # leave `slack` bytes free after a collection (6 bytes of garbage)
    ds.arrays.current += free_now + 6 - slack
    r = E.call(ds.swap_, iter([(b'B$', []), (b'Y$', [0])]))
    b_val, d_val = live[0][2], live[1][2]
    if r.raised:
        E.cover('refused')
        E.prove(r.is_error(BASICError, error.OUT_OF_MEMORY), 'only Out of memory')
        E.prove(not right_exists and slack <= 42, 'refused only when the array does not fit after a collection')
        _strings_ok(E, ds, live, live_bytes, 'after the failed SWAP', packed=False)
    else:
        E.cover('swapped')
        got_y = _read(E, (ds.view_or_create_variable, b'Y$', [0]))
        got_b = _read(E, (ds.view_or_create_variable, b'B$', []))
        E.prove(len(got_y) == 3 and bool(same_bytes(got_y, b_val)), 'the array element reads back the old value of the scalar')
        E.prove(len(got_b) == 0, 'the scalar reads back the old (empty) value of the array element')
        _strings_ok(E, ds, [live[1]], 0, 'after SWAP', packed=False)


def t_context_managers(E, which, fails):
    """hold_garbage / get_stack restore their state on every exit, also when the body raises
    (CHAIN of a missing file, Out of memory inside an assignment)."""
    ds = _segment(E)
    depth = len(ds._stack)
    cm = E.call(getattr(ds, which)).value
    E.call(cm.__enter__)
    if which == 'hold_garbage':
        E.prove(ds._allow_collect is False, 'collection is held inside the block')
    else:
        E.prove(len(ds._stack) == depth + 1, 'a value stack is pushed inside the block')
    if fails:
        exc = BASICError(error.FILE_NOT_FOUND)
        r = E.call(cm.__exit__, BASICError, exc, None)
        E.prove(not r.raised or r.exc is exc, 'the error of the body propagates')
        E.prove(r.raised or not r.value, 'and is not swallowed')
    else:
        E.call(cm.__exit__, None, None, None)
    if which == 'hold_garbage':
        E.prove(ds._allow_collect is True, 'garbage collection is enabled again after the block' + (' that raised' if fails else ''))
    else:
        E.prove(len(ds._stack) == depth, 'the value stack is popped after the block' + (' that raised' if fails else ''))


def t_temp_boundary(E, layout_no):
    """After a collection every kept string is still classified: is_permanent never fails, and
    strings that were temporary stay temporary, permanent ones stay permanent."""
    ds = _segment(E)
    live, live_bytes = _build(E, ds, LAYOUTS[layout_no])
    vals = []
    for desc, getter, want in live:
        if not want:
            continue
        v = E.call(*getter).value if isinstance(getter, tuple) else getter
        r = E.call(ds.strings.is_permanent, v)
        E.prove(not r.raised, 'setup: classification before collection')
        vals.append((desc, getter, r.value))
    r = E.call(ds._collect_garbage)
    E.prove(not r.raised, 'collection never raises')
    for desc, getter, was in vals:
        v = E.call(*getter).value if isinstance(getter, tuple) else getter
        r = E.call(ds.strings.is_permanent, v)
        E.prove(not r.raised, 'is_permanent works after a collection (%s)' % desc)
        if not r.raised:
            E.prove(bool(r.value) == bool(was), '%s is %s before and after' % (desc, 'permanent' if was else 'temporary'))
    # the next statement starts: temporaries are reset, permanent strings stay readable
    if not any(not was for _, _, was in vals):
        E.call(ds.strings.reset_temporaries)
        for desc, getter, want in live:
            if 'temporary' in desc:
                continue
            got = _read(E, getter)
            E.prove(len(got) == len(want) and (bool(same_bytes(got, want)) if want else True), '%s is still there at the next statement' % desc)
    # a new temporary after the collection is temporary, and reset_temporaries frees exactly it
    cur = ds.strings.current
    t = new_string(E, ds.values, b'tmp')
    r = E.call(ds.strings.is_permanent, t)
    E.prove(not r.raised and not r.value, 'a string stored after the collection is temporary')


def t_store(E, layout_no, L):
    ds = _segment(E)
    live, live_bytes = _build(E, ds, LAYOUTS[layout_no])
    before = dict((a, list(to_cells(v))) for a, v in ds.strings._strings.items())
    cur = ds.strings.current
    content = E.bytes('new', L, kind='bytes') if L else b''
    r = E.call(ds.strings.store, content)
    E.prove(not r.raised, 'store succeeds with free memory')
    if r.raised:
        return
    length, addr = r.value
    E.prove(length == L and addr == cur - L + 1, 'the new string lies directly below the previous allocation pointer')
    E.prove(ds.strings.current == cur - L, 'the allocation pointer moves down by the length')
    after = ds.strings._strings
    E.prove(all(a in after and bool(same_bytes(list(to_cells(after[a])), v)) for a, v in before.items()), 'no other string moves or changes')
    E.prove(len(after) == len(before) + (1 if L else 0), 'exactly one string is added (none for the empty string)')
    if L:
        E.prove(same_bytes(list(to_cells(after[addr])), list(to_cells(content))), 'with the given bytes')
    _strings_ok(E, ds, live, live_bytes, 'after store', packed=False)


def t_temporaries(E, L):
    ds = _segment(E)
    live, live_bytes = _build(E, ds, [('s', 2), ('s', 3)])
    sp = ds.strings
    E.call(sp.fix_temporaries)
    cur = sp.current
    E.call(sp.store, E.bytes('tmp', L, kind='bytes') if L else b'')
    E.call(sp.reset_temporaries)
    E.prove(sp.current == cur, 'reset_temporaries frees the temporary stored since the last fix')
    _strings_ok(E, ds, live, live_bytes, 'after reset_temporaries', packed=True)
    E.call(sp.store, E.bytes('kept', L, kind='bytes') if L else b'')
    E.call(sp.fix_temporaries)
    E.call(sp.reset_temporaries)
    E.prove(sp.current == cur - L, 'a string made permanent by fix_temporaries is not freed')


TASKS = [
    Task('collect_garbage', t_collect, cases=[{'layout_no': i} for i in range(len(LAYOUTS))]),
    Task('release, then collect again', t_release_then_collect, cases=[{'layout_no': i} for i in (0, 2, 3, 4, 6, 9, 12)]),
    Task('check_free', t_check_free, covers=('refused', 'granted'),
         cases=[{'layout_no': i, 'slack': s} for i in (0, 1, 2, 3, 5) for s in (1, 2, 7, 40)]),
    Task('StringSpace.store', t_store, cases=[{'layout_no': i, 'L': L} for i in (0, 2, 4, 8) for L in (0, 1, 5, 255)]),
    Task('temporaries', t_temporaries, cases=[{'L': L} for L in (1, 4)]),
    Task('temporaries boundary across a collection', t_temp_boundary, cases=[{'layout_no': i} for i in (1, 3, 7, 9, 10, 11, 12, 15, 16)]),
    Task('MID$ statement on a program literal under memory pressure', t_mid_statement, covers=('refused', 'assigned'),
         cases=[{'slack': k, 'temp': t} for k in (0, 3, 6, 7, 8, 10, 12, 40) for t in (True, False)]),
    Task('SWAP with an implicitly dimensioned array under memory pressure', t_swap_statement, covers=('refused', 'swapped'),
         cases=[{'slack': k, 'right_exists': x} for k in (0, 20, 43, 46, 47, 48, 49, 50, 60, 200) for x in (False, True)]),
    Task('hold_garbage / get_stack', t_context_managers,
         cases=[{'which': w, 'fails': f} for w in ('hold_garbage', 'get_stack') for f in (False, True)]),
]

ASSUMPTIONS = [
    'memory layouts (allocation order, lengths, which strings are live / garbage / temporary / literal / array elements) are case parameters; '
    'string contents and the request size are symbolic',
    'history properties follow by induction: each operation preserves strings_ok and the values of live strings',
    'the program is a stand-in of fixed size; literals in program text read as a fixed pattern',
]
NOT_COVERED = [
    'operation histories as such (random sequences of assignments, SWAP, ERASE, MID$/LSET/RSET): only the per-operation contracts above',
    'FIELD strings; Out of memory raised part-way through an assignment; Arrays.erase_ compaction',
]
