"""
C26 - File sharing and record locks exclude each other.

Under contract (real source, devices/diskfiles.py): Locks.open_file / close_file /
list_open / acquire_record_lock / release_record_lock / try_record_access /
_try_record_lock / try_access, LockingParameters.

State: three file numbers, #1 and #2 on the same file name, #3 on another name; each holds
0..2 locks, each lock either the whole file or a range with *symbolic* bounds
(1 <= start <= stop <= 2^25-2, as Files._get_lock_limits produces). Two ranges overlap iff
start <= stop' and start' <= stop; the whole-file lock overlaps everything.
  acquire: Permission denied iff the new range overlaps a lock held on the same file name
           through any file number (including the same one); otherwise exactly that lock is
           added; pairwise disjointness of all held locks on a name is preserved
  release: succeeds iff exactly that (start, stop) is held through that number
  access : a record inside a range locked through *another* number is denied
  open   : File already open iff the file is open for OUTPUT/APPEND or is being opened for
           OUTPUT/APPEND while open
The structure (<= 2 locks per number) is a stated bound of the harness; the bounds of every
range are unbounded symbolic integers. The set loops are per-element tests, so the bound on
the number of locks is not essential to the argument but is what is checked.
"""

from .common import *
from pcbasic.basic.devices import diskfiles

PROPERTY = 'C26'

MAXREC = 2**25 - 2


class SymSet(set):
    """A set of (start, stop) tuples with symbolic members: membership by value."""

    _pyvc_trusted = True     # its exceptions (KeyError) are semantic, not engine failures

    def _find(self, x):
        for e in list(self):
            if type(e) is tuple and len(e) == len(x):
                if all((a is None) == (b is None) for a, b in zip(e, x)):
                    if bool(And(*[a == b for a, b in zip(e, x) if a is not None])):
                        return e
        return None

    def remove(self, x):
        e = self._find(x)
        if e is None:
            raise KeyError(x)
        set.remove(self, e)

    def add(self, x):
        if self._find(x) is None:
            set.add(self, x)

    def __contains__(self, x):
        return self._find(x) is not None


def _file(name, mode=b'R', lock_type=b'', access=b''):
    f = object.__new__(diskfiles.LockingParameters)
    f.name = name
    f.lock_set = SymSet()
    f.lock_type = lock_type
    f.access = access
    f.mode = mode
    return f


def _range(E, tag, whole):
    if whole:
        return (None, None)
    a = E.int(tag + '_start', 1, MAXREC)
    b = E.int(tag + '_stop', 1, MAXREC)
    E.assume(a <= b)
    return (a, b)


def overlap(r, s):
    if r[0] is None or s[0] is None:
        return True
    return And(r[0] <= s[1], s[0] <= r[1])


def _state(E, shape):
    """shape: tuple of per-number lock kinds, e.g. (('r','w'), ('r',), ()) ; 'r' range, 'w' whole."""
    locks = diskfiles.Locks()
    files = {1: _file(b'DATA.DAT'), 2: _file(b'DATA.DAT'), 3: _file(b'OTHER.DAT')}
    held = {1: [], 2: [], 3: []}
    for num, kinds in zip((1, 2, 3), shape):
        for j, k in enumerate(kinds):
            r = _range(E, 'f%d_%d' % (num, j), k == 'w')
            set.add(files[num].lock_set, r)
            held[num].append(r)
    locks._locking_parameters = dict(files)
    return locks, files, held


def _disjoint_on_name(held):
    """Pairwise disjointness of everything held on DATA.DAT (#1 and #2)."""
    alls = held[1] + held[2]
    cs = []
    for i in range(len(alls)):
        for j in range(i + 1, len(alls)):
            cs.append(Not(overlap(alls[i], alls[j])))
    return And(*cs) if cs else True


_SHAPES = [
    ((), (), ()), (('r',), (), ()), ((), ('r',), ()), ((), (), ('r',)), (('w',), (), ()), ((), ('w',), ()),
    (('r',), ('r',), ('r',)), (('r', 'r'), ('r',), ()), (('r',), ('r', 'r'), ('w',)), ((), ('r', 'r'), ()),
]


def t_acquire(E, shape, whole):
    locks, files, held = _state(E, shape)
    E.assume(_disjoint_on_name(held))
    new = _range(E, 'new', whole)
    before = {n: list(files[n].lock_set) for n in files}
    r = E.call(locks.acquire_record_lock, 1, new[0], new[1])
    conflicts = [overlap(new, h) for h in held[1] + held[2]]
    conflict = Or(*conflicts) if conflicts else False
    if r.raised:
        E.cover('denied')
        E.prove(r.is_error(BASICError, error.PERMISSION_DENIED), 'only Permission denied')
        E.prove(conflict, 'denied only when the new range overlaps a lock held on the same file')
        E.prove(all(list(files[n].lock_set) == before[n] for n in files), 'nothing changes when denied')
    else:
        E.cover('granted')
        E.prove(Not(conflict), 'an overlapping range must be denied')
        E.prove(len(files[1].lock_set) == len(before[1]) + 1 and new in files[1].lock_set,
                'exactly the new lock is recorded for this file number')
        E.prove(list(files[2].lock_set) == before[2] and list(files[3].lock_set) == before[3],
                'locks of other numbers unchanged')
        held2 = {1: held[1] + [new], 2: held[2], 3: held[3]}
        E.prove(_disjoint_on_name(held2), 'locks held on one file never overlap')
    E.canary(Not(conflict), 'canary: never a conflict')


def t_release(E, shape, whole):
    locks, files, held = _state(E, shape)
    rel = _range(E, 'rel', whole)
    n_before = len(files[1].lock_set)
    r = E.call(locks.release_record_lock, 1, rel[0], rel[1])
    def same(a, b):
        if (a[0] is None) != (b[0] is None):
            return False
        if a[0] is None:
            return True
        return And(a[0] == b[0], a[1] == b[1])
    exact = Or(*[same(rel, h) for h in held[1]]) if held[1] else False
    if r.raised:
        E.cover('denied')
        E.prove(r.is_error(BASICError, error.PERMISSION_DENIED), 'only Permission denied')
        E.prove(Not(exact), 'UNLOCK of a range locked with exactly these bounds must succeed')
        E.prove(len(files[1].lock_set) == n_before, 'nothing released when denied')
    else:
        E.cover('released')
        E.prove(exact, 'UNLOCK succeeds only for a range previously locked with exactly the same bounds')
        E.prove(len(files[1].lock_set) == n_before - 1, 'exactly one lock released')
    E.prove(len(files[2].lock_set) == len(held[2]) and len(files[3].lock_set) == len(held[3]),
            'locks of other numbers unchanged')


def t_access(E, shape, access):
    locks, files, held = _state(E, shape)
    rec = E.int('rec', 1, MAXREC)
    r = E.call(locks.try_record_access, 1, rec, rec, access)
    inside_other = Or(*[overlap((rec, rec), h) for h in held[2]]) if held[2] else False
    if r.raised:
        E.cover('denied')
        E.prove(r.is_error(BASICError, error.PERMISSION_DENIED), 'only Permission denied')
        E.prove(inside_other, 'denied only inside a range locked through another file number')
    else:
        E.cover('granted')
        E.prove(Not(inside_other), 'a record inside a range locked through another number must be denied')


def t_open(E, existing_mode, new_mode, number=2):
    """number 0 is how SAVE / LOAD / MERGE / BLOAD / BSAVE / CHAIN open their file."""
    locks = diskfiles.Locks()
    if existing_mode is not None:
        locks._locking_parameters = {1: _file(b'DATA.DAT', mode=existing_mode)}
    r = E.call(locks.open_file, b'C:\\DIR\\data.dat', number, new_mode, b'', b'')
    must_fail = existing_mode is not None and (existing_mode in (b'O', b'A') or new_mode in (b'O', b'A'))
    if existing_mode in (b'O', b'A') and new_mode not in (b'O', b'A'):
        # recorded, open finding: as real GW-BASIC does (the repository's own LockFilesOutput model),
        # a file open for OUTPUT/APPEND can be opened again for INPUT/RANDOM
        E.known_finding('C26-reopen-after-output', True)
    if must_fail:
        E.prove(r.is_error(BASICError, error.FILE_ALREADY_OPEN),
                'a file open for OUTPUT/APPEND (or opened for it while open) cannot be opened again')
        E.prove(number not in locks._locking_parameters, 'not registered')
    elif number:
        E.prove(not r.raised and number in locks._locking_parameters, 'shared opening is registered')
    else:
        E.prove(not r.raised and 0 not in locks._locking_parameters, 'number-less opening is allowed and not registered')
    # after closing, it can be opened again in any mode
    E.call(locks.close_file, 1)
    E.call(locks.close_file, 2)
    r2 = E.call(locks.open_file, b'DATA.DAT', 5, new_mode, b'', b'')
    E.prove(not r2.raised, 'can be opened again once closed')


class _Device(object):
    _pyvc_trusted = True
    def __init__(self):
        self.opened = []
    def open(self, number, *a):
        self.opened.append(number)
        return 'new file'


class _FieldMem(object):
    _pyvc_trusted = True
    fields = {1: None, 2: None, 3: None}


def t_files_open(E, in_use):
    """Files.open: a file number that is in use is refused before the device (and with it the lock
    registry of that number) is touched; a free number is opened on the device and registered."""
    from pcbasic.basic.devices import files as files_mod
    f = object.__new__(files_mod.Files)
    f.max_files = 3
    f.files = {1: 'held file'} if in_use else {}
    f._memory = _FieldMem()
    dev = _Device()
    if E.mode == 'symbolic':
        E.interp.contracts[files_mod.Files._get_device_param] = lambda I, args, kw: (dev, b'DATA.DAT')
    else:
        f._get_device_param = lambda d, m: (dev, b'DATA.DAT')
    r = E.call(f.open, 1, b'data.dat', b'D', b'R')
    if in_use:
        E.prove(r.is_error(BASICError, error.FILE_ALREADY_OPEN), 'a file number in use: File already open')
        E.prove(dev.opened == [], 'refused before the device is asked to open anything (the locks held through that number stay)')
        E.prove(f.files == {1: 'held file'}, 'the table of open files is unchanged')
    else:
        E.prove(not r.raised and dev.opened == [1] and f.files.get(1) == 'new file', 'a free number is opened on the device and registered')


_MODES = [b'I', b'O', b'A', b'R']

TASKS = [
    Task('Locks.acquire_record_lock', t_acquire, covers=('denied', 'granted'),
         cases=[{'shape': s, 'whole': w} for s in _SHAPES for w in (False, True)]),
    Task('Locks.release_record_lock', t_release, covers=('denied', 'released'),
         cases=[{'shape': s, 'whole': w} for s in _SHAPES for w in (False, True)]),
    Task('Locks.try_record_access', t_access, covers=('denied', 'granted'),
         cases=[{'shape': s, 'access': a} for s in _SHAPES for a in (b'R', b'W', b'RW')]),
    Task('Files.open (file number in use)', t_files_open, cases=[{'in_use': u} for u in (True, False)]),
    Task('Locks.open_file', t_open,
         cases=[{'existing_mode': e, 'new_mode': n, 'number': k} for e in [None] + _MODES for n in _MODES for k in (2, 0)]),
]

ASSUMPTIONS = [
    'lock sets are given as sets of (start, stop) tuples with membership by value (SymSet stand-in for set, '
    'needed because Python sets hash symbolic members by identity)',
    'harness structure: <= 2 locks per file number, 3 file numbers; all range bounds symbolic',
    'the LOCK/ACCESS clause matrix of open_file is exercised only in the default (no clause) row',
]
NOT_COVERED = ['Files.lock_/unlock_/_get_lock_limits argument plumbing', 'LOCK READ/WRITE/SHARED clause matrix']
