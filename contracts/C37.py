"""
C37 - The keyboard buffer is a 15-key FIFO mirrored in BIOS memory.

Under contract (real source, inputs/keyboard.py): KeyboardBuffer.append / getc / peek /
length / empty / start / stop / _ring_index / ring_read / ring_write / ring_set_boundaries.

Abstract view: the waiting keystrokes are q = _buffer[_start:] (ring length 16, at most 15
waiting when the limit is enforced). The concrete representation is a growing Python list, so
the *structure* of a state is (P, k): P entries already consumed, k waiting. The harness
enumerates P in 16..47 (every ring alignment twice) and k in 0..16; the keystroke contents are
symbolic (one integer token per key, all distinct tokens allowed to coincide). For each state:
  append : k < 15 -> q' = q + [key]; k >= 15 with the limit on -> q unchanged (key dropped, tone)
  getc   : returns the head and q' = tail (b'' when empty); peek returns the head, q unchanged
  mirror : start = _start mod 16, stop = (start + k) mod 16, and ring slot (start + j) mod 16
           holds q[j] for every j < k - what PEEK(1050), PEEK(1052) and PEEK(1054..1085) show
  POKE 1050, PEEK(1052) (ring_set_boundaries(stop, stop)): both pointers read back the old
           tail, the buffer is empty, and it keeps working as a FIFO afterwards.
The structure bound (P < 48) is a harness bound: the code depends on P only through P mod 16
(inspection of _ring_index and the slicing in ring_set_boundaries), stated as an assumption.
"""

from .common import *
from pcbasic.basic.inputs import keyboard

PROPERTY = 'C37'

RING = 16


class _Audio(object):
    _pyvc_trusted = True
    def __init__(self):
        self.events = []
    def put(self, ev):
        self.events.append(ev)

class _Queues(object):
    _pyvc_trusted = True
    def __init__(self):
        self.audio = _Audio()


def _buf(E, P, k, check_full=True):
    """State with P consumed entries and k waiting keys with symbolic tokens."""
    q = _Queues()
    b = E.new(keyboard.KeyboardBuffer, q, RING, check_full)
    old = [(b'\0\0', 0)] * P
    keys = []
    for j in range(k):
        t = E.int('key%d' % j, 1, 255)
        keys.append((SBuf([t], 'bytes') if E.mode == 'symbolic' else bytes([t]), E.int('scan%d' % j, 0, 255)))
    b._buffer = old + keys
    b._start = P
    return b, q, keys


def _tok(entry):
    """Comparable view of a (char, scan) entry."""
    c, s = entry
    cs = to_cells(c)
    return (len(cs), cs[0] if cs else 0, s)

def _same(a, b):
    ta, tb = _tok(a), _tok(b)
    if ta[0] != tb[0]:
        return False
    return And(ta[1] == tb[1], ta[2] == tb[2])

def _queue(b):
    return list(b._buffer[b._start:])


def t_append(E, P, k, check_full):
    b, q, keys = _buf(E, P, k, check_full)
    nk = (SBuf([E.int('new', 1, 255)], 'bytes') if E.mode == 'symbolic' else bytes([E.int('new', 1, 255)]),
          E.int('newscan', 0, 255))
    r = E.call(b.append, nk[0], nk[1])
    E.prove(not r.raised, 'never raises')
    after = _queue(b)
    if check_full and k >= RING - 1:
        E.prove(len(after) == k and And(*[_same(x, y) for x, y in zip(after, keys)]),
                'buffer full: the keystroke is dropped, waiting keys unchanged')
        E.prove(len(q.audio.events) == 1, 'a tone is emitted for the dropped key')
    else:
        E.prove(len(after) == k + 1, 'one more key waiting')
        if len(after) == k + 1:
            E.prove(And(*[_same(x, y) for x, y in zip(after, keys + [nk])]), 'appended at the tail, order preserved')
        E.prove(q.audio.events == [], 'no tone')
    E.prove(b._start == P, 'head unchanged')
    # empty keystroke is ignored
    b2, q2, keys2 = _buf(E, P, min(k, 3), check_full)
    E.call(b2.append, b'', 0)
    E.prove(len(_queue(b2)) == min(k, 3), 'an empty keystroke is not stored')


def t_getc(E, P, k):
    b, q, keys = _buf(E, P, k)
    r0 = E.call(b.peek)
    r = E.call(b.getc)
    E.prove(not r.raised and not r0.raised, 'never raises')
    if k == 0:
        E.prove(r.value == b'' and r0.value == b'', 'empty buffer yields the empty string')
        E.prove(_queue(b) == [], 'still empty')
    else:
        E.prove(_same((r.value, keys[0][1]), keys[0]), 'getc returns the oldest waiting key')
        E.prove(_same((r0.value, keys[0][1]), keys[0]), 'peek shows the oldest waiting key')
        after = _queue(b)
        E.prove(len(after) == k - 1 and And(*[_same(x, y) for x, y in zip(after, keys[1:])]),
                'the rest keeps its order: none lost or repeated')


def t_mirror(E, P, k):
    b, q, keys = _buf(E, P, k)
    start = E.call(getattr, b, 'start').value
    stop = E.call(getattr, b, 'stop').value
    length = E.call(getattr, b, 'length').value
    empty = E.call(getattr, b, 'empty').value
    E.prove(start == P % RING, 'head pointer is the ring position of the oldest key')
    E.prove(length == min(k, RING), 'length is the number of waiting keys')
    E.prove(stop == (P + min(k, RING)) % RING, 'tail pointer is head + waiting keys (mod 16)')
    E.prove(empty == (k == 0), 'empty iff nothing waits')
    for j in range(min(k, RING - 1)):
        r = E.call(b.ring_read, (start + j) % RING)
        E.prove(not r.raised and _same(r.value, keys[j]), 'ring slot head+j holds waiting key j')


def t_clear_by_poke(E, P, k):
    """DEF SEG=0: POKE 1050, PEEK(1052) - head := tail - empties the buffer."""
    b, q, keys = _buf(E, P, k)
    stop = E.call(getattr, b, 'stop').value
    r = E.call(b.ring_set_boundaries, stop, stop)
    E.prove(not r.raised, 'never raises')
    if r.raised:
        return
    start2 = E.call(getattr, b, 'start').value
    stop2 = E.call(getattr, b, 'stop').value
    length = E.call(getattr, b, 'length').value
    empty = E.call(getattr, b, 'empty').value
    E.prove(start2 == stop and stop2 == stop, 'head and tail pointers both read back the old tail')
    E.prove(length == 0 and empty is True, 'the buffer is empty')
    g = E.call(b.getc)
    E.prove(not g.raised and g.value == b'', 'no keystroke is delivered afterwards')
    # and it keeps working as a FIFO
    E.call(b.append, b'x', 45)
    g2 = E.call(b.getc)
    E.prove(not g2.raised and g2.value == b'x', 'the next keystroke typed is delivered')


def t_set_boundaries(E, P, k, a, bnew):
    """POKE of head (1050) and tail (1052) pointers in general: all 256 pairs."""
    b, q, keys = _buf(E, P, k)
    # make the consumed part of the ring recognisable too
    for i in range(len(b._buffer) - RING, b._start):
        if i >= 0:
            b._buffer[i] = (bytes([65 + i % RING]), 100 + i % RING)
    before = [E.call(b.ring_read, i).value for i in range(RING)]
    r = E.call(b.ring_set_boundaries, a, bnew)
    E.prove(not r.raised, 'never raises')
    if r.raised:
        return
    start = E.call(getattr, b, 'start').value
    stop = E.call(getattr, b, 'stop').value
    length = E.call(getattr, b, 'length').value
    want = (bnew - a) % RING
    # pointers outside the ring (POKE 1050, v with v < 30 or v > 60) wrap around
    a, bnew = a % RING, bnew % RING
    E.prove(start == a, 'head pointer reads back the value poked (modulo the ring)')
    E.prove(stop == bnew, 'tail pointer reads back the value poked (modulo the ring)')
    E.prove(length == want, 'number of waiting keys is (tail - head) mod 16')
    after = _queue(b)
    E.prove(len(after) == want, 'exactly the keys between head and tail wait')
    E.prove(And(*[_same(after[j], before[(a + j) % RING]) for j in range(min(want, len(after)))]),
            'waiting key j is what ring slot head+j held')
    after_ring = [E.call(b.ring_read, i).value for i in range(RING)]
    E.prove(And(*[_same(x, y) for x, y in zip(after_ring, before)]), 'ring memory itself is unchanged')


class _Kbd(object):
    _pyvc_trusted = True
    def __init__(self, buf):
        self.buf = buf
        self.mod = 0
        self.keypad_ascii = b''


def t_bios_mirror(E, P, k, j):
    """PEEK in segment 0: 1050/1052 are the head/tail pointers (30 + 2*slot), 1054..1085 the 16 ring
    slots (character, scan code) - every slot, also slot 15, shows the key the ring holds there."""
    from pcbasic.basic import machine
    b, q, keys = _buf(E, P, k)
    m = object.__new__(machine.Memory)
    m.keyboard = _Kbd(b)
    start = E.call(getattr, b, 'start').value
    stop = E.call(getattr, b, 'stop').value
    lo = E.call(m._get_low_memory, 1050)
    hi = E.call(m._get_low_memory, 1051)
    E.prove(not lo.raised and bool(And(lo.value == 30 + 2 * start, hi.value == 0)), 'PEEK(1050) is 30 + 2 * head slot')
    lo = E.call(m._get_low_memory, 1052)
    E.prove(not lo.raised and bool(lo.value == 30 + 2 * stop), 'PEEK(1052) is 30 + 2 * tail slot')
    if j < min(k, RING - 1):
        slot = (P + j) % RING
        c = E.call(m._get_low_memory, 1054 + 2 * slot)
        sc = E.call(m._get_low_memory, 1055 + 2 * slot)
        E.prove(not c.raised and not sc.raised, 'never raises')
        if not c.raised and not sc.raised:
            E.prove(And(c.value == to_cells(keys[j][0])[0], sc.value == keys[j][1]),
                    'ring slot %d shows waiting key %d: character at the even, scan code at the odd address' % (slot, j))
    if j != 0:
        return
    # POKE of a slot changes exactly that slot
    slot = E.concretize(E.int('slot', 0, RING - 1))
    val = E.int('value', 1, 223)
    before = [E.call(b.ring_read, i).value for i in range(RING)]
    r = E.call(m._set_low_memory, 1054 + 2 * slot, val)
    E.prove(not r.raised, 'POKE never raises')
    after = [E.call(b.ring_read, i).value for i in range(RING)]
    for i in range(RING):
        if i == slot:
            E.prove(And(to_cells(after[i][0])[0] == val, after[i][1] == before[i][1]) if len(to_cells(after[i][0])) == 1 else False,
                    'the poked slot holds the new character, scan code unchanged')
        else:
            E.prove(_same(after[i], before[i]), 'other slots unchanged')
    rb = E.call(m._get_low_memory, 1054 + 2 * slot)
    E.prove(not rb.raised and bool(rb.value == val), 'PEEK returns the byte poked')


_PS = list(range(16, 48))

def t_key_down(E, mods, caps):
    """Keyboard._key_down: every key press reaches the buffer as exactly one keystroke with its scancode
    (none lost), whatever the modifiers - except a keypad digit pressed with Alt, which is collected
    for Alt+number entry and delivered when Alt is released (_key_up)."""
    from pcbasic.basic.inputs import keyboard as kb
    from pcbasic.basic.base import scancode
    class _Buf(object):
        _pyvc_trusted = True
        def __init__(self):
            self.items = []
        def append(self, c, scan):
            self.items.append((c, scan))
    class _CP(object):
        _pyvc_trusted = True
        def unicode_to_bytes(self, u):
            return u.encode('latin-1')
    k = object.__new__(kb.Keyboard)
    k.buf = _Buf()
    k._codepage = _CP()
    k.mod = kb.TOGGLE[scancode.CAPSLOCK] if caps else 0
    k._ignore_caps = False
    k.keypad_ascii = b''
    k.last_scancode = None
    scan = E.int('scan', 1, 127)
    E.assume(And(*[scan != t for t in kb.TOGGLE]))     # lock keys toggle their state and are delivered as well
    r = E.call(k._key_down, u'a', scan, list(mods))
    E.prove(not r.raised, 'never raises')
    E.prove(k.last_scancode == scan, 'the last scancode is recorded')
    keypad = Or(*[scan == d for d in kb.KEYPAD])
    alt = scancode.ALT in mods
    if alt and bool(keypad):
        E.cover('alt+keypad')
        E.prove(len(k.buf.items) == 0 and len(k.keypad_ascii) == 1, 'Alt + keypad digit is collected for Alt+number entry')
        r = E.call(k._key_up, scancode.ALT)
        E.prove(len(k.buf.items) == 1 and k.keypad_ascii == b'', 'and delivered as one keystroke when Alt is released')
    else:
        E.cover('key')
        E.prove(len(k.buf.items) == 1, 'the key press is delivered to the buffer: exactly one keystroke')
        if len(k.buf.items) == 1:
            c, sc = k.buf.items[0]
            E.prove(sc == scan, 'with its scancode')
            E.prove(c == (b'A' if caps else b'a'), 'and its character (Caps Lock applied)')


TASKS = [
    Task('KeyboardBuffer.append', t_append,
         cases=[{'P': P, 'k': k, 'check_full': True} for P in (16, 17, 23, 31, 32, 40, 47) for k in range(0, 16)] +
               [{'P': P, 'k': k, 'check_full': False} for P in (16, 29) for k in (0, 14, 15, 16, 20)]),
    Task('Keyboard._key_down (no key press lost)', t_key_down, covers=('key', 'alt+keypad'),
         cases=[{'mods': m, 'caps': c} for m in ((), (56,), (29,), (56, 29), (42,), (54, 56)) for c in (False, True)]),
    Task('KeyboardBuffer.getc/peek', t_getc, cases=[{'P': P, 'k': k} for P in (16, 21, 32, 47) for k in range(0, 16)]),
    Task('KeyboardBuffer ring mirror', t_mirror, cases=[{'P': P, 'k': k} for P in _PS for k in range(0, 16)]),
    Task('KeyboardBuffer.ring_set_boundaries (POKE 1050, PEEK(1052))', t_clear_by_poke,
         cases=[{'P': P, 'k': k} for P in _PS for k in range(0, 16)]),
    Task('Memory._get_low_memory/_set_low_memory (BIOS mirror)', t_bios_mirror,
         cases=[{'P': P, 'k': k, 'j': j} for P, k in ((16, 0), (16, 15), (17, 15), (20, 12), (31, 3), (33, 15), (47, 8))
                for j in sorted(set([0, 1, max(k - 1, 0), 14 - P % 16 if 0 <= 14 - P % 16 < k else 0, 15 - P % 16 if 0 <= 15 - P % 16 < k else 0]))]),
    Task('KeyboardBuffer.ring_set_boundaries (all head/tail pairs)', t_set_boundaries,
         cases=[{'P': P, 'k': k, 'a': a, 'bnew': bn} for P, k in ((16, 0), (21, 3), (35, 15), (47, 9))
                for a in range(16) for bn in range(16)]),
    Task('KeyboardBuffer.ring_set_boundaries (pointers outside the ring)', t_set_boundaries,
         cases=[{'P': P, 'k': k, 'a': a, 'bnew': bn} for P, k in ((16, 0), (21, 3), (47, 9))
                for a in (-15, -1, 16, 17, 112) for bn in (-15, -1, 0, 5, 16, 112)]),
]

ASSUMPTIONS = [
    'structure of the state (consumed entries P in 16..47, waiting keys k in 0..16) is enumerated; key contents are symbolic; '
    'the code depends on P only through P mod 16',
    'the audio queue is a recording stand-in',
]
NOT_COVERED = [
    'Keyboard._key_down -> codepage conversion -> append plumbing and INPUT consumption through the console',
]
