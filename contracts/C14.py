"""
C14 - RENUM renumbers lines and every reference to them consistently (core only).

Under contract (real source): Interpreter.renum_ (interpreter.py) and the numbering part of
Program.renum (program.py): construction of the old->new map, the acceptance conditions, the
rewrite of the line-number fields and the rebuilt line-number table.
  * accepted iff no remaining line would be overwritten and no new number exceeds 65529;
    lines from `old` onward get new, new+step, ... in their original order; others keep theirs
  * an active ON ERROR trap and every event trap follow their line: a trap line inside the
    renumbered range is mapped, one outside keeps its number; nothing but BASIC errors escapes
The program is a concrete set of line numbers (several shapes); new/old/step are symbolic.
NOT proved here: the token-stream scan that rewrites references inside the byte code and the
behavioural equivalence of the renumbered program (see NOT_COVERED).
"""

from .common import *
from pcbasic.basic import program as program_mod, interpreter as interp_mod
from pcbasic.basic.base import tokens as tk
from pcbasic.basic.base import codestream

PROPERTY = 'C14'


class _Code(object):
    """Code stream stand-in: no line-number references in the byte code (scan finds none)."""
    _pyvc_trusted = True
    def __init__(self):
        self.pos = 0
        self.writes = {}
    def seek(self, pos, whence=0):
        self.pos = pos if whence == 0 else self.pos + pos
    def tell(self):
        return self.pos
    def read(self, n=1):
        self.pos += n
        return b'\0' * n
    def write(self, b):
        self.writes[self.pos] = b
        self.pos += len(to_cells(b))
    def skip_to_read(self, rng):
        self.scans = getattr(self, 'scans', []) + [(self.pos, rng)]
        return b''


_SHAPES = {
    'five': {10: 1, 20: 11, 30: 21, 100: 31, 65000: 41, 65536: 51},
    'one': {7: 1, 65536: 9},
    'empty': {65536: 0},
    'dense': {1: 1, 2: 7, 3: 13, 65536: 19},
}


def _prog(shape):
    p = object.__new__(program_mod.Program)
    p.bytecode = _Code()
    p.line_numbers = dict(_SHAPES[shape])
    p.last_stored = 0
    p.protected = False
    return p


def t_program_renum(E, shape, defaults):
    p = _prog(shape)
    lines0 = dict(p.line_numbers)
    if defaults:
        new, start, step = None, None, None
        nv, sv, st = 10, 0, 10
    else:
        new = E.int('new', 0, 65535)
        start = E.int('old', 0, 65535)
        step = E.int('step', 1, 65535)
        nv, sv, st = new, start, step
    if E.mode == 'symbolic':
        # the rebuilt table is keyed by the (symbolic) new numbers; they are pairwise distinct in
        # every accepted request (new > every kept line, step >= 1) and inspected by value below
        E.interp.symbolic_dict_keys = True
    r = E.call(p.renum, Spy0(), new, start, step)
    real = sorted(k for k in lines0 if k != 65536)
    moved = [k for k in real if bool(k >= sv)]          # forks on the position of `old`
    kept = [k for k in real if k not in moved]
    overwrite = bool(nv <= max(kept)) if kept else False
    too_big = bool(nv + st * (len(moved) - 1) > 65529) if moved else False
    if r.raised:
        E.cover('rejected')
        E.prove(r.is_error(BASICError, error.IFC), 'only Illegal function call')
        E.prove(overwrite or too_big, 'rejected only when a kept line would be overwritten or a number exceeds 65529')
        if overwrite:
            E.prove(p.line_numbers == lines0 and p.bytecode.writes == {}, 'nothing changed when the request is refused up front')
        return
    E.cover('accepted')
    E.prove(not overwrite and not too_big, 'must be rejected')
    scans = getattr(p.bytecode, 'scans', [])
    E.prove(len(scans) >= 1 and scans[0][0] == 0 and tk.T_UINT in scans[0][1],
            'the scan for line-number references starts at the beginning of the program (every reference is examined)')
    m = r.value
    E.prove(sorted(m.keys()) == moved, 'exactly the lines from `old` onward are renumbered')
    for i, k in enumerate(moved):
        E.prove(m[k] == nv + i * st, 'consecutive numbers from `new` with the increment, in original order')
    # line number table: same positions, new numbers
    want = {}
    for k in kept:
        want[k] = lines0[k]
    want[65536] = lines0[65536]
    table = dict(p.line_numbers)
    E.prove(len(table) == len(lines0), 'no line lost or duplicated')
    for i, k in enumerate(moved):
        newk = nv + i * st
        found = [v for kk, v in table.items() if bool(kk == newk)]
        E.prove(found == [lines0[k]], 'renumbered line keeps its place in memory')
        w = p.bytecode.writes.get(lines0[k] + 3)
        E.prove(w is not None and bool(assemble_le(to_cells(w)) == newk), 'line number field rewritten in the byte code')
    for k in kept:
        E.prove(table.get(k) == lines0[k], 'earlier lines keep number and place')


class Spy0(object):
    _pyvc_trusted = True
    def write_line(self, s):
        pass


class _Handler(object):
    _pyvc_trusted = True
    def __init__(self, gosub):
        self.gosub = gosub
    def set_jump(self, n):
        self.gosub = n

class _Events(object):
    _pyvc_trusted = True
    def __init__(self, hs):
        self.all = hs

class _Program(object):
    _pyvc_trusted = True
    def __init__(self, mapping):
        self.mapping = mapping
        self.calls = []
    def explicit_lines(self, *lines):
        return lines
    def renum(self, console, new, old, step):
        self.calls.append((new, old, step))
        return self.mapping


def t_interpreter_renum(E, on_error, gosubs):
    a = E.int('n100', 0, 65529)
    b = E.int('n110', 0, 65529)
    mapping = {100: a, 110: b}
    it = object.__new__(interp_mod.Interpreter)
    it._program = _Program(mapping)
    it._console = Spy0()
    it.on_error = on_error
    hs = [_Handler(g) for g in gosubs]
    it._basic_events = _Events(hs)
    it.for_stack, it.while_stack = [1], [2]
    if E.mode == 'symbolic':
        E.interp.contracts[interp_mod.Interpreter._clear_stacks] = lambda I, args, kw: setattr(args[0], 'for_stack', [])
    else:
        it._clear_stacks = lambda: setattr(it, 'for_stack', [])
    step = E.int('step', -5, 100)
    r = E.call(it.renum_, iter([E.int('new', 0, 65535), E.int('old', 0, 65535), step]))
    if r.raised:
        E.prove(r.is_error(BASICError, error.IFC), 'only Illegal function call may be raised')
        E.prove(step < 1, 'only for an increment below 1')
        return
    E.prove(step >= 1, 'an increment below 1 is rejected')
    def follow(n):
        return mapping.get(n, n) if n else n
    E.prove(it.on_error == follow(on_error), 'an active ON ERROR trap follows its line (a line outside the range keeps its number)')
    E.prove(all(bool(h.gosub == follow(g)) if g else h.gosub == g for h, g in zip(hs, gosubs)),
            'every event trap follows its line')
    E.prove(it.for_stack == [], 'loop stacks reset')


_REF_LINES = [
    (b'10 GOTO 100', (100,)), (b'10 GOSUB 100:RETURN 200', (100, 200)), (b'10 IF A THEN 100 ELSE 200', (100, 200)),
    (b'10 ON X GOTO 100,200,300', (100, 200, 300)), (b'10 ON X GOSUB 100, 200', (100, 200)), (b'10 RESTORE 100', (100,)),
    (b'10 RUN 100', (100,)), (b'10 RESUME 100', (100,)), (b'10 ON ERROR GOTO 100', (100,)), (b'10 ON KEY(15) GOSUB 100', (100,)),
    (b'10 ON TIMER(5) GOSUB 100', (100,)), (b'10 IF ERL=100 THEN 200', (100, 200)), (b'10 IF ERL<>100 THEN 200', (100, 200)),
    (b'10 IF ERL<100 THEN 200', (100, 200)), (b'10 IF ERL>100 THEN 200', (100, 200)), (b'10 IF ERL<=100 THEN 200', (100, 200)),
    (b'10 IF ERL>=100 THEN 200', (100, 200)), (b'10 IF ERL = 100 GOTO 200', (100, 200)), (b'10 LIST 100-200', (100, 200)),
    (b'10 DELETE 100-200', (100, 200)), (b'10 EDIT 100', (100,)),
    # numbers that are not references
    (b'10 A=100', ()), (b'10 PRINT 100', ()), (b'10 IF A<100 THEN PRINT 5', ()), (b'10 FOR I=100 TO 200', ()),
    (b'10 IF A=100 THEN B=200', ()), (b'10 X=ERR+100', ()),
]


def t_all_handlers(E, num_fn_keys, tandy):
    """Interpreter.renum_ remaps the traps in BasicEvents.all: after reset() every handler that can hold a
    trap line - TIMER, every KEY slot (also the user-definable ones, which get their scancode later), PLAY,
    COM1/2, PEN, STRIG 0..3 - is in it, once."""
    from pcbasic.basic import basicevents
    class _Files(object):
        _pyvc_trusted = True
        def get_device(self, name):
            return None
    ev = object.__new__(basicevents.BasicEvents)
    ev._sound = ev._clock = None
    ev._files = _Files()
    ev._num_fn_keys = num_fn_keys
    ev._tandy_fn_keys = tandy
    r = E.call(ev.reset)
    E.prove(not r.raised, 'reset never raises')
    if r.raised:
        return
    ids = [id(h) for h in ev.all]
    E.prove(len(set(ids)) == len(ids), 'no handler twice')
    want = [ev.timer, ev.play, ev.pen] + list(ev.key) + list(ev.com) + list(ev.strig)
    E.prove(all(id(h) in ids for h in want) and len(ids) == len(want), 'every handler that can hold a trap line is in BasicEvents.all')
    E.prove(len(ev.key) >= 20, 'KEY slots 1..20 exist')


def t_reference_tokens(E, text, refs):
    """Tokeniser.tokenise_line marks exactly the line-number references of a line with the line-number
    token (0x0e + 16-bit number) - these are what Program.renum rewrites - and no other number."""
    from pcbasic.basic.converter import tokeniser as tokeniser_mod
    vals = values_env()
    tok = tokeniser_mod.Tokeniser(vals, tk.TokenKeywordDict('advanced'))
    r = E.call(tok.tokenise_line, text)
    E.prove(not r.raised, 'the line is tokenised')
    if r.raised:
        return
    code = bytes(r.value.getvalue())
    found = []
    i = 4     # after NUL, line offset placeholder (2 bytes) ... the line number itself is stored plainly
    ins = codestream.TokenisedStream()
    ins.write(code + b'\0')
    ins.seek(5)
    while True:
        c = ins.skip_to_read(tk.LINE_NUMBER + tk.END_LINE)
        if c not in tk.LINE_NUMBER:
            break
        found.append(int.from_bytes(ins.read(2), 'little'))
    E.prove(found == list(refs), 'the numbers stored as line-number references are exactly %r (found %r)' % (list(refs), found))


TASKS = [
    Task('Program.renum (numbering)', t_program_renum, covers=('rejected', 'accepted'),
         cases=[{'shape': s, 'defaults': d} for s in _SHAPES for d in (False, True)]),
    Task('Interpreter.renum_ (traps follow their lines)', t_interpreter_renum,
         cases=[{'on_error': e, 'gosubs': g} for e in (0, None, 50, 100, 110, 60000)
                for g in ((), (100,), (50, None, 110), (0, 999))]),
    Task('BasicEvents.reset (all handlers are listed for RENUM)', t_all_handlers,
         cases=[{'num_fn_keys': n, 'tandy': t} for n, t in ((10, False), (12, False), (12, True))]),
    Task('Tokeniser.tokenise_line (line-number references)', t_reference_tokens, cases=[{'text': t, 'refs': r} for t, r in _REF_LINES]),
]

ASSUMPTIONS = [
    'Program.renum: the program is one of 4 concrete line-number sets without references in the byte code '
    '(the code stream stand-in finds no line-number token); new/old/step are symbolic',
    'Interpreter.renum_: Program.renum and _clear_stacks replaced by stand-ins (map with symbolic new numbers)',
]
NOT_COVERED = [
    'the token-stream scan in Program.renum that rewrites GOTO/GOSUB/THEN/... references (skip_to_read/backskip_blank on a stream)',
    'behavioural equivalence of the renumbered program (whole-program)',
]
