"""
pyvc.engine - path exploration, verification-condition generation and discharge.

A *task* is a Python procedure task(E) written against the Engine API: it creates
symbolic inputs (the precondition), calls real repository functions through E.call (their
source is interpreted symbolically from the AST of the file in $VERIF_REPO), and states
postconditions with E.prove. The engine explores every feasible path of task (code under
verification and contract text alike) by re-execution with a decision trace; each
E.prove on each path is one verification condition  pc => cond  discharged by z3
(cvc5 as second opinion on 'unknown').

The same task text runs in 'native' mode: inputs come from a model (or a witness), E.call
invokes the real function natively, E.prove evaluates the condition - this is the replay of a
counterexample against the real code.
"""

import os
import sys
import time
import subprocess
import tempfile
import hashlib

from . import sym
from .sym import (SInt, SBool, SBuf, Unsupported, PathEnd, PathDone, EngineError, mk_int, mk_bool,
                  zint, zbool, z3)


class Outcome(object):
    """Result of a call: returned value or raised exception."""

    def __init__(self, value=None, exc=None):
        self.value = value
        self.exc = exc

    @property
    def raised(self):
        return self.exc is not None

    def is_error(self, cls, err=None):
        """Exception is an instance of cls (with BASIC error code err, if given)."""
        if self.exc is None or not isinstance(self.exc, cls):
            return False
        if err is not None:
            return getattr(self.exc, 'err', None) == err
        return True

    def __repr__(self):
        if self.exc is not None:
            return 'Outcome(raised %s%r)' % (type(self.exc).__name__, getattr(self.exc, 'args', ()))
        return 'Outcome(%r)' % (self.value,)


class Violation(Exception):
    pass


class _Decision(object):
    __slots__ = ('kind', 'taken', 'alt', 'done', 'cur', 'exhausted')
    def __init__(self, kind):
        self.kind = kind
        self.taken = None
        self.alt = False
        self.done = []
        self.cur = None
        self.exhausted = False


class Engine(object):
    """One exploration of one task."""

    MAX_FORK = 4096
    MAX_PATHS = 200000

    def __init__(self, mode='symbolic', timeout_ms=10000, inputs=None, interp=None,
                 known=None, max_seconds=None):
        self.mode = mode  # 'symbolic' | 'native' | 'concrete-interp'
        self.timeout_ms = timeout_ms
        self.inputs = inputs or {}
        self.interp = interp
        self.known = known or {}
        self.max_seconds = max_seconds
        self.nl_mode = 'exact'
        self.sampler = None
        self.prefer_bv = False
        self.bv_incremental_prove = False
        self.quick_ms = 1500
        self.branch_ms = 3000
        self.results = []       # obligation records
        self.covers = {}
        self.canaries = {}
        self.paths = 0
        self.infeasible_paths = 0
        self.undecided = []     # (label, reason)
        self.assumptions = set()
        self.known_hit = {}
        self.solver_time = 0.0
        self.solver_calls = 0
        self.trace = []
        self._nl = {}
        self.by_backend = {}
        self.samples = []
        if mode == 'symbolic':
            self.solver = z3.Solver()
            self._limit(self.solver, timeout_ms)
        self._reset_path()

    # ------------------------------------------------------------------
    # path bookkeeping

    def _reset_path(self):
        self.pos = 0
        self.pc = []
        self.path_obls = []
        self.input_vars = {}
        self._counter = {}
        self._nl = {}
        self._path_note = []
        self._dirty = True
        self._has_bitops = False
        self.var_bounds = {}
        self._nonneg = {}
        self._bvstate = None
        self._nl_defs = []
        self.uf_apps = []
        if self.mode == 'symbolic':
            self.solver.reset()
            self._limit(self.solver, self.timeout_ms)

    # Solver budgets are z3 resource limits (rlimit), not wall-clock timeouts: verdicts are
    # deterministic and do not flip when all cores are busy (about 3.5M units per second).
    RL_PER_MS = 3500

    def _limit(self, solver, ms):
        solver.set('rlimit', int(ms * self.RL_PER_MS))

    def _check(self, *assumptions):
        t = time.time()
        r = self.solver.check(*assumptions)
        dt = time.time() - t
        self.solver_time += dt
        self.solver_calls += 1
        if dt > 1.0 and os.environ.get('PYVC_SLOW'):
            sys.stderr.write('SLOW %.1fs %s pc=%d: %s\n' % (dt, r, len(self.pc), str(assumptions)[:300]))
        return r

    def _add(self, term, dirty=True):
        self.pc.append(term)
        self.solver.add(term)
        if dirty:
            self._dirty = True

    def explore(self, task, *args, **kwargs):
        """Run task over all feasible paths."""
        sym._ENGINE[0] = self
        t0 = time.time()
        try:
            if self.mode != 'symbolic':
                self._reset_path()
                self.paths = 1
                try:
                    task(self, *args, **kwargs)
                except PathEnd:
                    pass
                self._finish_path()
                return self
            while True:
                self._reset_path()
                self.paths += 1
                try:
                    task(self, *args, **kwargs)
                    self._finish_path()
                except PathDone:
                    self._finish_path()
                except PathEnd:
                    self.infeasible_paths += 1
                except Unsupported as e:
                    self.undecided.append(('path', 'unsupported: %s' % (e,)))
                    self._finish_path()
                if not self._backtrack():
                    break
                if self.paths >= self.MAX_PATHS:
                    self.undecided.append(('explore', 'path limit %d reached' % self.MAX_PATHS))
                    break
                if self.max_seconds and time.time() - t0 > self.max_seconds:
                    self.undecided.append(('explore', 'time limit %ss reached' % self.max_seconds))
                    break
        finally:
            sym._ENGINE[0] = None
        return self

    def _finish_path(self):
        """Commit the obligations of a completed path."""
        self.results.extend(self.path_obls)

    def _backtrack(self):
        tr = self.trace
        while tr:
            d = tr[-1]
            if d.kind == 'b':
                if d.alt:
                    d.taken = not d.taken
                    d.alt = False
                    return True
                tr.pop()
            else:
                if not d.exhausted:
                    d.done.append(d.cur)
                    d.cur = None
                    return True
                tr.pop()
        return False

    # ------------------------------------------------------------------
    # decisions

    def branch(self, cond):
        """Decide a symbolic condition on this path (forks the exploration)."""
        if isinstance(cond, bool):
            return cond
        if self.mode != 'symbolic':
            raise Unsupported('symbolic branch in %s mode' % self.mode)
        cond = z3.simplify(cond)
        if z3.is_true(cond):
            return True
        if z3.is_false(cond):
            return False
        if self.pos < len(self.trace):
            d = self.trace[self.pos]
            self.pos += 1
            if d.kind != 'b':
                raise EngineError('nondeterministic replay (expected value decision)')
            self._add(cond if d.taken else z3.Not(cond))
            return d.taken
        if self.prefer_bv:
            got = self._bv_branch(cond) if self._bvstate is not False else None
            if got is not None:
                can_t, can_f = got
                if not can_t and not can_f:
                    raise PathEnd('infeasible')
                d = _Decision('b')
                d.taken = can_t
                d.alt = can_t and can_f
                self.trace.append(d)
                self.pos += 1
                self._add(cond if d.taken else z3.Not(cond), dirty=False)
                self._dirty = False
                return d.taken
        self._limit(self.solver, min(self.timeout_ms, self.branch_ms))
        can_t = self._check(cond) != z3.unsat
        # if cond is infeasible its negation is implied (pc is feasible by construction;
        # an infeasible pc is caught by the vacuity guard in prove)
        can_f = True if not can_t else self._check(z3.Not(cond)) != z3.unsat
        self._limit(self.solver, self.timeout_ms)
        if not can_t and not can_f:
            raise PathEnd('infeasible')
        d = _Decision('b')
        d.taken = can_t
        d.alt = can_t and can_f
        self.trace.append(d)
        self.pos += 1
        self._add(cond if d.taken else z3.Not(cond), dirty=False)
        self._dirty = False
        return d.taken

    BV_WIDTH = 64

    def _bv_branch(self, cond):
        """Feasibility of cond / not cond with an incremental bit-vector solver (exact
        translation at a fixed width, checked against the interval analysis)."""
        from . import bv
        t0 = time.time()
        try:
            st = self._bvstate
            if st is None:
                tr = bv.Translator(self.var_bounds)
                tr.W = self.BV_WIDTH
                sv = z3.SolverFor('QF_BV')
                st = self._bvstate = {'tr': tr, 'solver': sv, 'n': 0}
            tr, sv = st['tr'], st['solver']
            while st['n'] < len(self.pc):
                c = z3.simplify(self.pc[st['n']])
                tr.scan_bool(c)
                if tr.width() > self.BV_WIDTH:
                    raise bv.NotTranslatable('width')
                sv.add(tr.tr_bool(c))
                st['n'] += 1
            tr.scan_bool(cond)
            if tr.width() > self.BV_WIDTH:
                raise bv.NotTranslatable('width')
            bc = tr.tr_bool(cond)
            sv.set('rlimit', int(self.branch_ms * self.RL_PER_MS))
            can_t = sv.check(bc) != z3.unsat
            can_f = True if not can_t else sv.check(z3.Not(bc)) != z3.unsat
            return can_t, can_f
        except (bv.NotTranslatable, z3.Z3Exception):
            self._bvstate = False
            return None
        finally:
            self.solver_time += time.time() - t0
            self.solver_calls += 1

    def _interval_decide(self, cond):
        """Decide an integer comparison from the declared variable bounds alone (no solver).

        Sound: the bounds used are asserted in the path condition. Deterministic, so replay
        of a decision trace takes the same shortcut.
        """
        from . import bv
        try:
            k = cond.decl().kind()
            neg = False
            if k == z3.Z3_OP_NOT:
                neg = True
                cond = cond.arg(0)
                k = cond.decl().kind()
            if k not in (z3.Z3_OP_LE, z3.Z3_OP_LT, z3.Z3_OP_GE, z3.Z3_OP_GT, z3.Z3_OP_EQ):
                return None
            a, b = cond.arg(0), cond.arg(1)
            if not z3.is_int(a):
                return None
            tr = bv.Translator(self.var_bounds)
            (alo, ahi), (blo, bhi) = tr.interval(a), tr.interval(b)
        except (bv.NotTranslatable, z3.Z3Exception, AttributeError):
            return None
        res = None
        if k == z3.Z3_OP_LE:
            res = True if ahi <= blo else (False if alo > bhi else None)
        elif k == z3.Z3_OP_LT:
            res = True if ahi < blo else (False if alo >= bhi else None)
        elif k == z3.Z3_OP_GE:
            res = True if alo >= bhi else (False if ahi < blo else None)
        elif k == z3.Z3_OP_GT:
            res = True if alo > bhi else (False if ahi <= blo else None)
        elif k == z3.Z3_OP_EQ:
            res = False if (ahi < blo or alo > bhi) else None
        if res is None:
            return None
        return (not res) if neg else res

    def known_nonneg(self, t):
        """Cheap syntactic proof that term t >= 0 (memoised per path); False = unknown."""
        memo = self._nonneg
        i = t.get_id()
        r = memo.get(i)
        if r is not None:
            return r
        r = False
        try:
            if z3.is_int_value(t):
                r = t.as_long() >= 0
            elif z3.is_app(t):
                k = t.decl().kind()
                if k == z3.Z3_OP_UNINTERPRETED and t.num_args() == 0:
                    b = self.var_bounds.get(t.decl().name())
                    r = bool(b and b[0] is not None and b[0] >= 0)
                elif k in (z3.Z3_OP_ADD, z3.Z3_OP_MUL):
                    r = all(self.known_nonneg(c) for c in t.children())
                elif k in (z3.Z3_OP_IDIV, z3.Z3_OP_DIV):
                    d = t.arg(1)
                    r = z3.is_int_value(d) and d.as_long() > 0 and self.known_nonneg(t.arg(0))
                elif k == z3.Z3_OP_MOD:
                    d = t.arg(1)
                    r = z3.is_int_value(d) and d.as_long() > 0
                elif k == z3.Z3_OP_ITE:
                    r = self.known_nonneg(t.arg(1)) and self.known_nonneg(t.arg(2))
        except z3.Z3Exception:
            r = False
        memo[i] = r
        return r

    def concretize(self, x, what='value', limit=None):
        """Return a concrete int for x, forking over every feasible value."""
        if isinstance(x, bool):
            return int(x)
        if isinstance(x, int):
            return x
        if isinstance(x, SBool):
            return int(self.branch(x.t))
        if self.mode != 'symbolic':
            raise Unsupported('concretize in %s mode' % self.mode)
        t = z3.simplify(x.t)
        if z3.is_int_value(t):
            return t.as_long()
        if self.pos < len(self.trace):
            d = self.trace[self.pos]
            if d.kind != 'v':
                raise EngineError('nondeterministic replay (expected branch decision)')
            if d.cur is None:
                # pick the next unexplored feasible value
                if limit is not None and len(d.done) >= limit:
                    raise Unsupported('more than %d values of a symbolic %s' % (limit, what))
                v = self._next_value(t, d.done)
                if v is None:
                    d.exhausted = True
                    raise PathEnd('values exhausted')
                d.cur = v
            self.pos += 1
            self._add(t == d.cur)
            return d.cur
        v = self._next_value(t, [])
        if v is None:
            raise PathEnd('infeasible')
        d = _Decision('v')
        d.cur = v
        self.trace.append(d)
        self.pos += 1
        self._add(t == v)
        return v

    def each_value(self, x):
        """Iterate over every feasible value of x on this path *without* forking the path.

        Inside the loop body the path condition is temporarily extended by x == v; the body
        should only state obligations (prove / canary).
        """
        if isinstance(x, bool):
            x = int(x)
        if isinstance(x, int):
            yield x
            return
        if self.mode != 'symbolic':
            yield int(x)
            return
        t = z3.simplify(zint(x))
        if z3.is_int_value(t):
            yield t.as_long()
            return
        vals = []
        while True:
            v = self._next_value(t, vals)
            if v is None:
                break
            vals.append(v)
        for v in sorted(vals):
            n = len(self.pc)
            self.solver.push()
            self._add(t == v)
            try:
                yield v
            finally:
                self.solver.pop()
                del self.pc[n:]
                self._dirty = True

    def _next_value_bv(self, t, done):
        """Value enumeration with the incremental bit-vector solver (prefer_bv mode)."""
        from . import bv
        if self._bvstate is False:
            return False
        t0 = time.time()
        try:
            if self._bv_branch(z3.BoolVal(True) if False else (t == t)) is None and self._bvstate is False:
                return False
            st = self._bvstate
            tr, sv = st['tr'], st['solver']
            while st['n'] < len(self.pc):
                c = z3.simplify(self.pc[st['n']])
                tr.scan_bool(c)
                sv.add(tr.tr_bool(c))
                st['n'] += 1
            tr.interval(t)
            if tr.width() > self.BV_WIDTH:
                raise bv.NotTranslatable('width')
            bt = tr.tr_int(t)
            sv.set('rlimit', int(self.timeout_ms * self.RL_PER_MS))
            r = sv.check(*[bt != z3.BitVecVal(v, self.BV_WIDTH) for v in done])
            if r == z3.unsat:
                return None
            if r != z3.sat:
                return False
            return sv.model().eval(bt, model_completion=True).as_signed_long()
        except (bv.NotTranslatable, z3.Z3Exception):
            return False
        finally:
            self.solver_time += time.time() - t0
            self.solver_calls += 1

    def _next_value(self, t, done):
        if len(done) >= self.MAX_FORK:
            raise Unsupported('more than %d values to fork over' % self.MAX_FORK)
        if self.prefer_bv:
            v = self._next_value_bv(t, done)
            if v is not False:
                return v
        self.solver.push()
        try:
            # prefer small values in order: ask for the minimum not yet done
            for v in done:
                self.solver.add(t != v)
            r = self._check()
            if r == z3.unsat:
                return None
            if r != z3.sat:
                # nonlinear path constraints can leave the existence of another value open: enumerate
                # over the linear part of the path condition instead (a superset of the feasible values;
                # an infeasible extra value only adds a path whose obligations hold vacuously)
                rs = z3.Solver()
                self._limit(rs, self.timeout_ms)
                for c in self.pc:
                    if not _nonlinear(c):
                        rs.add(c)
                for v in done:
                    rs.add(t != v)
                r2 = rs.check()
                if r2 == z3.unsat:
                    return None
                if r2 != z3.sat:
                    raise Unsupported('solver undecided while enumerating values')
                return rs.model().eval(t, model_completion=True).as_long()
            m = self.solver.model()
            v = m.eval(t, model_completion=True)
            return v.as_long()
        finally:
            self.solver.pop()

    # ------------------------------------------------------------------
    # inputs

    def _name(self, name):
        k = self._counter.get(name, 0)
        self._counter[name] = k + 1
        return name if k == 0 else '%s#%d' % (name, k)

    def int(self, name, lo=None, hi=None):
        """Symbolic integer input in [lo, hi]."""
        name = self._name(name)
        if self.mode != 'symbolic':
            if self.sampler is not None:
                v = self.sampler.draw_int(name, lo, hi)
            else:
                v = int(self.inputs[name])
            if (lo is not None and v < lo) or (hi is not None and v > hi):
                raise PathEnd('input outside precondition')
            self.input_vars[name] = v
            return v
        t = z3.Int(name)
        self.input_vars[name] = t
        self.var_bounds[name] = (lo, hi)
        if lo is not None:
            self._add(t >= lo)
        if hi is not None:
            self._add(t <= hi)
        return SInt(t)

    def bool(self, name):
        name = self._name(name)
        if self.mode != 'symbolic':
            if self.sampler is not None:
                v = bool(self.sampler.draw_int(name, 0, 1))
            else:
                v = bool(self.inputs[name])
            self.input_vars[name] = v
            return v
        t = z3.Bool(name)
        self.input_vars[name] = t
        return SBool(t)

    def bytes(self, name, n, kind='bytearray'):
        """Symbolic byte buffer of n bytes (native: bytearray)."""
        cells = [self.int('%s[%d]' % (name, i), 0, 255) for i in range(n)]
        if self.mode == 'native':
            return bytearray(cells) if kind != 'bytes' else bytes(cells)
        return SBuf(cells, kind)

    def pred(self, name, *args):
        """Uninterpreted predicate over integers (an arbitrary but fixed set/relation)."""
        if self.mode != 'symbolic':
            key = '%s(%s)' % (name, ','.join(str(int(a)) for a in args))
            if key not in self.input_vars:
                if self.sampler is not None:
                    v = bool(self.sampler.draw_int(key, 0, 1))
                else:
                    v = bool((self.inputs or {}).get(key, False))
                self.input_vars[key] = v
            return self.input_vars[key]
        ts = [a.t if isinstance(a, SInt) else z3.IntVal(int(a)) for a in args]
        f = z3.Function(name, *([z3.IntSort()] * len(ts) + [z3.BoolSort()]))
        app = f(*ts)
        self.uf_apps.append((name, ts, app))
        return SBool(app)

    def choice(self, name, options):
        """One of a finite list of concrete options (forks)."""
        i = self.int(name, 0, len(options) - 1)
        return options[self.concretize(i)]

    def fresh(self, name, lo=None, hi=None):
        """Symbolic integer that is not an input (havoc), optionally bounded."""
        if self.mode != 'symbolic':
            raise Unsupported('fresh value in %s mode' % self.mode)
        n = self._name('~' + name)
        t = z3.Int(n)
        self.var_bounds[n] = (lo, hi)
        if lo is not None:
            self._add(t >= lo)
        if hi is not None:
            self._add(t <= hi)
        return SInt(t)

    # ------------------------------------------------------------------
    # assume / prove

    def assume(self, cond, why=None):
        if why:
            self.assumptions.add(why)
        if isinstance(cond, (SInt,)):
            cond = cond != 0
        if isinstance(cond, SBool):
            if self.mode != 'symbolic':
                raise Unsupported('symbolic assume')
            self._add(cond.t)
            return
        if not cond:
            raise PathEnd('assumption false')

    def cover(self, label):
        self.covers[label] = self.covers.get(label, 0) + 1

    def canary(self, cond, label):
        """A deliberately wrong claim: must be refutable on some path (vacuity guard)."""
        if self.mode != 'symbolic':
            return
        cur = self.canaries.get(label, False)
        if cur:
            return
        if isinstance(cond, SInt):
            cond = cond != 0
        if not isinstance(cond, SBool):
            self.canaries[label] = cur or (not cond)
            return
        r = self._check(z3.Not(cond.t))
        self.canaries[label] = cur or (r == z3.sat)

    def note(self, text):
        self.assumptions.add(text)

    def prove(self, cond, label):
        """Obligation: cond holds on this path."""
        rec = {'label': label, 'path': self.paths}
        if isinstance(cond, SInt):
            cond = cond != 0
        if not isinstance(cond, SBool):
            rec['status'] = 'discharged' if cond else 'refuted'
            rec['backend'] = 'eval'
            if not cond:
                rec['model'] = self._inputs_concrete()
                rec['feasible_checked'] = False
            self._record(rec)
            return bool(cond)
        if self.mode != 'symbolic':
            raise Unsupported('symbolic condition in %s mode' % self.mode)
        neg = z3.Not(cond.t)
        t0 = time.time()
        model = None
        backend = 'z3'
        r = z3.unknown
        if self._has_bitops or self.prefer_bv:
            # bit operations between symbolic operands: exact bit-vector translation
            r, model = self._bv_check(neg)
            backend = 'z3-bv'
        if r == z3.unknown:
            # a short incremental attempt, then a fresh solver (full preprocessing)
            backend = 'z3'
            self._limit(self.solver, min(self.timeout_ms, self.quick_ms))
            r = self._check(neg)
            self._limit(self.solver, self.timeout_ms)
            if r == z3.sat:
                if self._has_bitops:
                    r = z3.unknown   # integer side over-approximates bit operations
                else:
                    model = self.solver.model()
            elif r != z3.unsat:
                r, model = self._fresh_check(neg)
                if r == z3.sat and self._has_bitops:
                    r, model = z3.unknown, None
            if r == z3.unknown and not self._has_bitops:
                r, model = self._bv_check(neg)
                backend = 'z3-bv'
        rec['time'] = time.time() - t0
        if r == z3.unsat:
            if self._dirty:
                # vacuity guard: the path condition itself must be satisfiable
                rr = self._check()
                if rr == z3.unsat:
                    raise PathEnd('path condition unsatisfiable')
                self._dirty = False
            rec['status'] = 'discharged'
            rec['backend'] = backend
        elif r == z3.sat:
            rec['status'] = 'refuted'
            rec['backend'] = backend
            rec['model'] = model if isinstance(model, dict) else self._model_inputs(model)
            if self._nl_defs:
                # a counter-model under the product abstraction (an over-approximation) is not a
                # refutation: decide again with the exact products
                st, exact = self._exact_model(neg)
                if st == 'sat':
                    rec['model'] = exact
                    rec['model_exact_products'] = True
                elif st == 'unsat':
                    rec['status'] = 'discharged'
                    rec['backend'] = 'z3-nla'
                    del rec['model']
                else:
                    rec['status'] = 'undecided'
                    rec['backend'] = 'z3-nla'
                    rec['reason'] = 'counter-model only under the product abstraction; exact products undecided'
                    del rec['model']
        else:
            r2, model = (('skipped (uninterpreted bit operations)', None) if self._has_bitops
                         else self._second_opinion(neg))
            if r2 == 'unsat':
                rec['status'] = 'discharged'
                rec['backend'] = 'cvc5'
            else:
                rec['status'] = 'undecided'
                rec['backend'] = 'z3+cvc5'
                rec['reason'] = 'z3: %s; bv: %s; cvc5: %s' % (
                    self.solver.reason_unknown(), getattr(self, '_bv_reason', None), r2)
        if len(self.samples) < 3 and rec['status'] == 'discharged' and rec['backend'] != 'eval':
            try:
                self.samples.append({'label': label, 'vc': 'pc(%d conjuncts) => %s' % (
                    len(self.pc), str(z3.simplify(cond.t))[:400])})
            except Exception:
                pass
        self._record(rec)
        return rec['status'] == 'discharged'

    def prove_aux(self, cond, label):
        """Auxiliary obligation (loop invariant, variant): part of the proof, not of the property.
        When it cannot be established the result is *undecided* - a proof that no longer goes
        through - never a violation by itself."""
        self._aux = True
        try:
            return self.prove(cond, label)
        finally:
            self._aux = False

    def _record(self, rec):
        if rec['status'] == 'refuted' and getattr(self, '_aux', False):
            rec['status'] = 'undecided'
            rec['reason'] = ('auxiliary proof obligation (loop invariant) not established; counter-model %r' % (rec.pop('model', None),))[:400]
        if rec['status'] == 'refuted' and self.mode == 'symbolic' and rec.get('backend') == 'eval':
            # make sure the path itself is feasible before believing a concrete False
            r = self._check()
            if r == z3.unsat:
                return
            if r == z3.sat:
                rec['model'] = self._model_inputs(self.solver.model())
        self.path_obls.append(rec)
        self.by_backend[rec.get('backend', '?')] = self.by_backend.get(rec.get('backend', '?'), 0) + 1

    def _inputs_concrete(self):
        return {k: (v if isinstance(v, (int, bool)) else None) for k, v in self.input_vars.items()}

    def _model_inputs(self, m):
        out = {}
        for k, t in self.input_vars.items():
            if isinstance(t, (int, bool)):
                out[k] = t
                continue
            v = m.eval(t, model_completion=True)
            if z3.is_int_value(v):
                out[k] = v.as_long()
            else:
                out[k] = z3.is_true(v)
        for name, ts, app in self.uf_apps:
            vals = [m.eval(t, model_completion=True) for t in ts]
            if all(z3.is_int_value(v) for v in vals):
                key = '%s(%s)' % (name, ','.join(str(v.as_long()) for v in vals))
                out[key] = z3.is_true(m.eval(app, model_completion=True))
        return out

    def _fresh_check(self, neg):
        s = z3.Solver()
        self._limit(s, self.timeout_ms)
        for c in self.pc:
            s.add(c)
        s.add(neg)
        t = time.time()
        r = s.check()
        self.solver_time += time.time() - t
        self.solver_calls += 1
        return r, (s.model() if r == z3.sat else None)

    def _bv_check(self, neg):
        """Exact bit-vector translation of pc & neg (needs bounded variables)."""
        from . import bv
        t = time.time()
        if self.prefer_bv and self.bv_incremental_prove and self._bvstate not in (None, False):
            # incremental solver shared with the branch decisions of this path
            try:
                st = self._bvstate
                tr, sv = st['tr'], st['solver']
                while st['n'] < len(self.pc):
                    c = z3.simplify(self.pc[st['n']])
                    tr.scan_bool(c)
                    sv.add(tr.tr_bool(c))
                    st['n'] += 1
                n = z3.simplify(neg)
                tr.scan_bool(n)
                if tr.width() > self.BV_WIDTH:
                    raise bv.NotTranslatable('width')
                bn = tr.tr_bool(n)
                sv.set('rlimit', int(self.timeout_ms * self.RL_PER_MS))
                r = sv.check(bn)
                self._bv_reason = '%s (incremental, width %d) in %.1fs' % (r, self.BV_WIDTH, time.time() - t)
                self.solver_time += time.time() - t
                self.solver_calls += 1
                if r == z3.unsat:
                    return z3.unsat, None
                if r == z3.sat:
                    m = sv.model()
                    out = {}
                    for k, v in self.input_vars.items():
                        if isinstance(v, (int, bool)):
                            out[k] = v
                        elif z3.is_bool(v):
                            out[k] = z3.is_true(m.eval(v, model_completion=True))
                        elif k in tr.vars:
                            out[k] = m.eval(tr.vars[k], model_completion=True).as_signed_long()
                        else:
                            out[k] = 0
                    return z3.sat, out
                return z3.unknown, None
            except (bv.NotTranslatable, z3.Z3Exception):
                pass
        try:
            terms = [z3.simplify(c) for c in self.pc] + [z3.simplify(neg)]
            ans, m, W = bv.check(terms, self.var_bounds, int(self.timeout_ms * self.RL_PER_MS))
        except bv.NotTranslatable as e:
            self._bv_reason = str(e)
            return z3.unknown, None
        except z3.Z3Exception as e:
            self._bv_reason = 'z3 exception %s' % (e,)
            return z3.unknown, None
        finally:
            self.solver_time += time.time() - t
            self.solver_calls += 1
        self._bv_reason = '%s at width %d in %.1fs' % (ans, W, time.time() - t)
        if ans == 'unsat':
            return z3.unsat, None
        if ans == 'sat':
            model, ints = m
            out = {}
            for k, v in self.input_vars.items():
                if isinstance(v, (int, bool)):
                    out[k] = v
                elif z3.is_bool(v):
                    out[k] = z3.is_true(model.eval(v, model_completion=True))
                else:
                    out[k] = ints.get(k, 0)
            return z3.sat, out
        return z3.unknown, None

    def _exact_model(self, neg):
        try:
            s = z3.Solver()
            self._limit(s, self.timeout_ms)
            for c in self.pc:
                s.add(c)
            s.add(neg)
            for p, ta, tb in self._nl_defs:
                s.add(p == ta * tb)
            r = s.check()
            if r == z3.sat:
                return 'sat', self._model_inputs(s.model())
            return ('unsat' if r == z3.unsat else 'unknown'), None
        except z3.Z3Exception:
            pass
        return 'unknown', None

    def _second_opinion(self, neg):
        """Ask cvc5 about pc & neg; returns ('unsat'|'sat'|'unknown'|..., None)."""
        try:
            s = z3.Solver()
            for c in self.pc:
                s.add(c)
            s.add(neg)
            text = '(set-logic ALL)\n' + s.to_smt2()
            with tempfile.NamedTemporaryFile('w', suffix='.smt2', delete=False) as f:
                f.write(text)
                fn = f.name
            try:
                out = subprocess.run(
                    ['/usr/bin/cvc5', '--tlimit=%d' % self.timeout_ms, fn],
                    capture_output=True, text=True, timeout=self.timeout_ms/1000.0 + 5)
                ans = out.stdout.strip().split('\n')[0] if out.stdout.strip() else 'error'
            finally:
                os.unlink(fn)
            return ans, None
        except Exception as e:  # pragma: no cover
            return 'error: %s' % (e,), None

    # ------------------------------------------------------------------
    # known findings

    def known_finding(self, fid, region):
        """Exclude the region of a recorded, still-open finding from the proof.

        Returns True if the finding is listed as open (then `region` is assumed false on
        the rest of the path and the witness is replayed natively by the driver).
        """
        kf = self.known.get(fid)
        if kf is None or kf.get('status') != 'open':
            return False
        self.known_hit[fid] = self.known_hit.get(fid, 0) + 1
        if self.mode == 'native':
            # replay of the witness itself: do not exclude anything
            return False
        self.assume(sym.Not(region))
        return True

    # ------------------------------------------------------------------
    # calls into the real code

    def call(self, fn, *args, **kwargs):
        """Call repository function fn; returns an Outcome (never raises code exceptions)."""
        try:
            if self.mode == 'native':
                return Outcome(value=fn(*args, **kwargs))
            return Outcome(value=self.interp.call(fn, list(args), dict(kwargs)))
        except EngineError:
            raise
        except RecursionError:
            raise Unsupported('recursion limit in interpreter')
        except Exception as e:
            return Outcome(exc=e)

    def new(self, cls, *args, **kwargs):
        """Instantiate a repository class (through its real __init__)."""
        out = self.call(cls, *args, **kwargs)
        if out.raised:
            raise Unsupported('constructor %s raised %r' % (cls.__name__, out.exc))
        return out.value

    # ------------------------------------------------------------------
    # arithmetic hooks used by sym

    def nl_mul(self, a, b):
        """Product of two symbolic integers.

        Kept as an uninterpreted product atom shared by every syntactically equal
        (up to sign/constant factor) product, constrained by sign rules and by interval
        bounds where the factors have syntactic bounds. Sound for validity: the atom
        over-approximates the product.
        """
        ta, tb = z3.simplify(zint(a)), z3.simplify(zint(b))
        ca, ta = _split_coeff(ta)
        cb, tb = _split_coeff(tb)
        if ta is None or tb is None:
            c = ca * cb
            rest = ta if ta is not None else tb
            return mk_int(rest * c) if rest is not None else c
        if self.nl_mode == 'exact':
            # z3's nonlinear integer arithmetic on the real product
            return mk_int(ta * tb * (ca * cb)) if ca * cb != 1 else mk_int(ta * tb)
        key = tuple(sorted((ta.sexpr(), tb.sexpr())))
        p = self._nl.get(key)
        if p is None:
            # factors that are provably equal (on this path) to those of an existing atom share it
            for q, ua, ub in self._nl_defs:
                if (self._check(z3.Not(z3.And(ta == ua, tb == ub))) == z3.unsat or
                        self._check(z3.Not(z3.And(ta == ub, tb == ua))) == z3.unsat):
                    self._nl[key] = p = q
                    break
        if p is None:
            p = z3.Int('~mul%d' % len(self._nl))
            self._nl[key] = p
            self._nl_defs.append((p, ta, tb))
            # sign and zero rules, monotonicity against the factors
            self._add(z3.Implies(z3.Or(ta == 0, tb == 0), p == 0))
            self._add(z3.Implies(z3.And(ta > 0, tb > 0), z3.And(p >= ta, p >= tb)))
            self._add(z3.Implies(z3.And(ta < 0, tb < 0), z3.And(p >= -ta, p >= -tb)))
            self._add(z3.Implies(z3.And(ta > 0, tb < 0), z3.And(p <= tb, p <= -ta)))
            self._add(z3.Implies(z3.And(ta < 0, tb > 0), z3.And(p <= ta, p <= -tb)))
            self._add(z3.Implies(ta == 1, p == tb))
            self._add(z3.Implies(tb == 1, p == ta))
            self.nl_bounds(ta, tb, p)
            self.assumptions.add(
                'products of two symbolic integers are abstracted by a shared atom with sign, '
                'unit and interval axioms (over-approximation, sound for validity)')
        return mk_int(p * (ca * cb))

    def nl_bounds(self, ta, tb, p):
        """Interval axioms for p = ta*tb from bounds the solver can prove cheaply."""
        ba, bb = self._bounds(ta), self._bounds(tb)
        if ba and bb:
            cands = [ba[0]*bb[0], ba[0]*bb[1], ba[1]*bb[0], ba[1]*bb[1]]
            self._add(p >= min(cands))
            self._add(p <= max(cands))

    _BOUND_CACHE_LIMITS = [1 << k for k in (1, 4, 8, 15, 16, 24, 32, 56, 64)]

    def _bounds(self, t):
        """Power-of-two bounds of term t implied by the path condition (a few solver queries)."""
        ks = (0, 1, 4, 8, 15, 16, 23, 24, 31, 32, 55, 56, 63, 64, 112, 128)
        lo = hi = None
        nonneg = self._check(t < 0) == z3.unsat
        if nonneg:
            lo = 0
            for k in reversed(ks):
                if self._check(t < (1 << k)) == z3.unsat:
                    lo = 1 << k
                    break
        for k in ks:
            b = 1 << k
            if hi is None and self._check(t >= b) == z3.unsat:
                hi = b - 1
            if lo is None and self._check(t < -b) == z3.unsat:
                lo = -b
        if lo is None or hi is None:
            return None
        return (lo, hi)

    def floordiv(self, a, b):
        q, _ = self._divmod(a, b)
        return q

    def mod(self, a, b):
        _, r = self._divmod(a, b)
        return r

    def _divmod(self, a, b):
        """Python floor division / modulo on mathematical integers."""
        if isinstance(b, SBool): b = SInt(zint(b))
        if isinstance(a, SBool): a = SInt(zint(a))
        if isinstance(b, int):
            if b == 0:
                raise ZeroDivisionError('integer division or modulo by zero')
            ta = zint(a)
            if b > 0:
                return mk_int(sym._div_const(ta, b)), mk_int(ta % b)
            # floor(a / b) for b < 0 is floor(-a / -b)
            q = (-ta) / (-b)
            return mk_int(q), mk_int(ta - q * b)
        # symbolic divisor: decide its sign, then characterise q, r by
        #   a = q*b + r,  0 <= r < b  (b > 0)   or   b < r <= 0  (b < 0)
        if self.branch(zint(b) == 0):
            raise ZeroDivisionError('integer division or modulo by zero')
        key = ('div', z3.simplify(zint(a)).sexpr(), z3.simplify(zint(b)).sexpr())
        qr = self._nl.get(key)
        if qr is None:
            k = len(self._nl)
            q = z3.Int('~q%d' % k)
            r = z3.Int('~r%d' % k)
            self._nl[key] = (q, r)
            qb = zint(self.nl_mul(SInt(q), b))
            ta, tb = zint(a), zint(b)
            try:
                from . import bv
                tr = bv.Translator(self.var_bounds)
                ia, ib = tr.interval(z3.simplify(ta)), tr.interval(z3.simplify(tb))
                ma, mb = max(abs(ia[0]), abs(ia[1])), max(abs(ib[0]), abs(ib[1]))
                self.var_bounds['~q%d' % k] = (-ma - 1, ma + 1)
                self.var_bounds['~r%d' % k] = (-mb, mb)
                self._add(z3.And(q >= -ma - 1, q <= ma + 1, r >= -mb, r <= mb))
            except Exception:
                pass
            self._add(ta == qb + r)
            self._add(z3.Implies(tb > 0, z3.And(r >= 0, r < tb)))
            self._add(z3.Implies(tb < 0, z3.And(r <= 0, r > tb)))
            # magnitude of the quotient
            self._add(z3.Implies(z3.And(ta >= 0, tb > 0), z3.And(q >= 0, q <= ta)))
            self._add(z3.Implies(z3.And(ta <= 0, tb < 0), z3.And(q >= 0, q <= -ta)))
            self._add(z3.Implies(z3.And(ta >= 0, tb < 0), z3.And(q <= 0, q >= -ta - 1)))
            self._add(z3.Implies(z3.And(ta <= 0, tb > 0), z3.And(q <= 0, q >= ta - 1)))
        else:
            q, r = qr
        return mk_int(q), mk_int(r)

    def bitop(self, op, a, b):
        """Bitwise operation on two symbolic non-negative integers.

        Kept as an application of band/bor/bxor with sound bound axioms on the integer
        side; decided exactly by the bit-vector back end (pyvc.bv).
        """
        from . import bv
        w = None
        nonneg = self._check(z3.Or(a.t < 0, b.t < 0)) == z3.unsat
        for cand in (8, 16, 24, 32, 64):
            lim = 1 << cand
            if self._check(z3.Or(a.t < -lim, a.t >= lim, b.t < -lim, b.t >= lim)) == z3.unsat:
                w = cand
                break
        if w is None:
            raise Unsupported('bitwise %s on symbolic integers without a proven width' % op)
        if op == 'and' and nonneg:
            # x & (2**k - 1) = x when 0 <= x < 2**k
            for x, c in ((a, b), (b, a)):
                if z3.is_int_value(c.t):
                    cv = c.t.as_long()
                    if cv >= 0 and (cv & (cv + 1)) == 0 and self._check(x.t > cv) == z3.unsat:
                        return x
        f = {'and': bv.BAND, 'or': bv.BOR, 'xor': bv.BXOR}[op]
        r = f(a.t, b.t)
        if not nonneg:
            # two's complement: result within the signed width of the operands
            self._add(z3.And(r >= -(1 << w), r < (1 << w)), dirty=False)
        elif op == 'and':
            self._add(z3.And(r >= 0, r <= a.t, r <= b.t), dirty=False)
        elif op == 'or':
            self._add(z3.And(r >= a.t, r >= b.t, r <= a.t + b.t, r < (1 << w)), dirty=False)
        else:
            self._add(z3.And(r >= 0, r <= a.t + b.t, r < (1 << w)), dirty=False)
        self._has_bitops = True
        return SInt(r)

    # ------------------------------------------------------------------
    # summary of this exploration

    def summary(self):
        n = len(self.results)
        dis = sum(1 for r in self.results if r['status'] == 'discharged')
        return {
            'obligations': n,
            'discharged': dis,
            'refuted': [r for r in self.results if r['status'] == 'refuted'],
            'undecided': [r for r in self.results if r['status'] == 'undecided'] ,
            'undecided_paths': self.undecided,
            'paths': self.paths,
            'infeasible_paths': self.infeasible_paths,
            'covers': self.covers,
            'canaries': self.canaries,
            'solver_time': self.solver_time,
            'solver_calls': self.solver_calls,
            'by_backend': self.by_backend,
            'assumptions': sorted(self.assumptions),
            'known_hit': self.known_hit,
            'samples': self.samples,
            'labels': _count_labels(self.results),
        }


def _nonlinear(term, _cache={}):
    """Does the term contain a product of two non-constant factors?"""
    todo = [term]
    seen = set()
    while todo:
        x = todo.pop()
        if x.get_id() in seen:
            continue
        seen.add(x.get_id())
        if z3.is_app(x):
            if x.decl().kind() == z3.Z3_OP_MUL and sum(1 for a in x.children() if not z3.is_int_value(a)) >= 2:
                return True
            todo.extend(x.children())
    return False


def _count_labels(results):
    out = {}
    for r in results:
        d = out.setdefault(r['label'], {'n': 0, 'discharged': 0})
        d['n'] += 1
        if r['status'] == 'discharged':
            d['discharged'] += 1
    return out


def _split_coeff(t):
    """Split a simplified Int term into (constant coefficient, atom or None)."""
    if z3.is_int_value(t):
        return t.as_long(), None
    if z3.is_app_of(t, z3.Z3_OP_UMINUS):
        c, r = _split_coeff(t.arg(0))
        return -c, r
    if z3.is_app_of(t, z3.Z3_OP_MUL) and t.num_args() == 2 and z3.is_int_value(t.arg(0)):
        c, r = _split_coeff(t.arg(1))
        return t.arg(0).as_long() * c, r
    return 1, t
