"""debug: run one task/case in-process and print details.  python -m pyvc.dbg C02 'task name' '{"op":"and_"}'"""
import sys, json, os, time, faulthandler, signal
faulthandler.register(signal.SIGUSR1, all_threads=False)
sys.path.insert(0, os.environ.get('VERIF_REPO','/repo'))
from pyvc import run
def main():
    prop, tname = sys.argv[1], sys.argv[2]
    from pyvc.api import dec_case
    case = dec_case(json.loads(sys.argv[3])) if len(sys.argv) > 3 else {}
    known,_ = run.load_known(prop)
    if os.environ.get('NOKNOWN'): known = {}
    r = run.run_job((prop, tname, case, int(os.environ.get('TMO','10000')), known, None))
    if r.get('error'):
        print(r['error']); return
    print('obl', r['obligations'], 'dis', r['discharged'], 'paths', r['paths'], 'infeasible', r['infeasible_paths'], 'wall', round(r['wall'],1), 'solver', round(r['solver_time'],1), r['by_backend'])
    for o in r['refuted'][:10]: print('REFUTED', o['label'], o.get('model'))
    for o in r['undecided'][:10]: print('UNDECIDED', o['label'], o.get('reason'))
    for u in r['undecided_paths'][:10]: print('UNDECIDED-PATH', u)
    print('covers', r['covers'], 'canaries', r['canaries'])
    for k,v in sorted(r['labels'].items()): print('  %-70s %d/%d' % (k, v['discharged'], v['n']))
main()
