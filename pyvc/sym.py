"""
pyvc.sym - symbolic values for the verifier.

Python ints are modelled as mathematical integers (z3 Int): no width, no overflow.
Every integer-valued quantity in the interpreter is either a Python int (concrete) or an
SInt (wrapping a z3 Int term); booleans are bool or SBool; byte buffers
(bytes/bytearray/memoryview of fixed length) are SBuf: a window on a shared list of cells.

The same helper functions (And, Or, Not, Implies, If, ...) work on plain Python values so
that contract text runs unchanged in concrete (replay) mode, where z3 may be absent.
"""

try:
    import z3
except ImportError:  # concrete replay under the repo's own interpreter
    z3 = None


class EngineError(BaseException):
    """Internal control flow of the verifier; never caught by interpreted code."""

class Unsupported(EngineError):
    """Construct or value outside the verified subset: the path is undecided."""

class PathEnd(EngineError):
    """Current path is abandoned (infeasible or pruned)."""

class PathDone(PathEnd):
    """Current path ends here by contract (e.g. an arbitrary loop iteration was checked);
    unlike PathEnd the obligations recorded on it are kept."""


# the engine currently exploring (set by engine.Engine)
_ENGINE = [None]

def engine():
    e = _ENGINE[0]
    if e is None:
        raise Unsupported('symbolic value used outside an engine run')
    return e


def is_sym(x):
    return isinstance(x, (SInt, SBool)) or (isinstance(x, SBuf) and x.is_symbolic())


def deep_sym(x, depth=0):
    """True if x contains a symbolic scalar anywhere (shallow containers only)."""
    if isinstance(x, (SInt, SBool)):
        return True
    if isinstance(x, SBuf):
        return True
    if depth < 3 and isinstance(x, (tuple, list, set, frozenset)):
        return any(deep_sym(y, depth+1) for y in x)
    if depth < 3 and isinstance(x, dict):
        return any(deep_sym(y, depth+1) for y in x.values()) or any(
            deep_sym(y, depth+1) for y in x.keys())
    return False


###############################################################################
# z3 helpers

def zint(x):
    """Python/sym integer -> z3 Int term."""
    if isinstance(x, SInt):
        return x.t
    if isinstance(x, SBool):
        return z3.If(x.t, z3.IntVal(1), z3.IntVal(0))
    if isinstance(x, (bool, int)):
        return z3.IntVal(int(x))
    raise Unsupported('not an integer: %r' % (type(x),))

def zbool(x):
    if isinstance(x, SBool):
        return x.t
    if isinstance(x, bool):
        return z3.BoolVal(x)
    if isinstance(x, SInt):
        return x.t != 0
    if isinstance(x, int):
        return z3.BoolVal(x != 0)
    raise Unsupported('not a boolean: %r' % (type(x),))

def mk_int(t):
    """z3 Int term -> int or SInt."""
    if z3.is_int_value(t):
        return t.as_long()
    return SInt(t)

def _mul_const(t, c):
    """t * c with constant folding through nested constant multiplications."""
    if c == 1:
        return t
    if c == 0:
        return z3.IntVal(0)
    if z3.is_app_of(t, z3.Z3_OP_MUL) and t.num_args() == 2:
        a, b = t.arg(0), t.arg(1)
        if z3.is_int_value(a):
            return _mul_const(b, a.as_long() * c)
        if z3.is_int_value(b):
            return _mul_const(a, b.as_long() * c)
    return t * c

def _div_const(t, d):
    """floor(t / d), d > 0, folding floor(floor(x/a)/b) = floor(x/(a*b))."""
    if d == 1:
        return t
    if z3.is_app_of(t, z3.Z3_OP_IDIV) and z3.is_int_value(t.arg(1)) and t.arg(1).as_long() > 0:
        return _div_const(t.arg(0), t.arg(1).as_long() * d)
    if z3.is_app_of(t, z3.Z3_OP_MUL) and t.num_args() == 2 and z3.is_int_value(t.arg(0)):
        # (c*x)/d with d | c or c | d (both exact for floor division by positive d)
        c = t.arg(0).as_long()
        if c > 0 and c % d == 0:
            return _mul_const(t.arg(1), c // d)
        if c > 0 and d % c == 0:
            return _div_const(t.arg(1), d // c)
    return t / d

def mk_bool(t):
    if z3.is_true(t):
        return True
    if z3.is_false(t):
        return False
    return SBool(t)

def simp_int(x):
    """Simplify; return int when the term folds to a numeral."""
    if isinstance(x, SInt):
        return mk_int(z3.simplify(x.t))
    return x


def _is_intlike(x):
    return isinstance(x, (int, SInt, SBool))


###############################################################################
# constant-mask bit operations on mathematical integers

def _runs(mask):
    """Decompose a non-negative mask into (low_bit, width) runs of ones."""
    runs = []
    i = 0
    while mask >> i:
        if (mask >> i) & 1:
            j = i
            while (mask >> j) & 1:
                j += 1
            runs.append((i, j - i))
            i = j
        else:
            i += 1
    return runs

def _and_const(t, mask):
    """t & mask for z3 Int t, concrete mask (two's complement semantics, exact)."""
    if mask == 0:
        return z3.IntVal(0)
    if mask < 0:
        # x & m == x - (x & ~m), ~m >= 0
        return t - _and_const(t, ~mask)
    runs = _runs(mask)
    if len(runs) == 1 and runs[0][0] == 0:
        return t % (1 << runs[0][1])
    terms = []
    for lo, w in runs:
        seg = (t / (1 << lo)) if lo else t
        terms.append((seg % (1 << w)) * (1 << lo) if lo else (seg % (1 << w)))
    return z3.Sum(terms) if len(terms) > 1 else terms[0]


class SInt(object):
    """Symbolic mathematical integer."""

    __slots__ = ('t',)

    def __init__(self, t):
        self.t = t

    def __repr__(self):
        return 'SInt(%s)' % (self.t,)

    __hash__ = object.__hash__

    # arithmetic
    def __add__(self, o):
        if not _is_intlike(o): return NotImplemented
        return mk_int(self.t + zint(o))
    def __radd__(self, o):
        if not _is_intlike(o): return NotImplemented
        return mk_int(zint(o) + self.t)
    def __sub__(self, o):
        if not _is_intlike(o): return NotImplemented
        return mk_int(self.t - zint(o))
    def __rsub__(self, o):
        if not _is_intlike(o): return NotImplemented
        return mk_int(zint(o) - self.t)
    def __neg__(self):
        return mk_int(-self.t)
    def __pos__(self):
        return self
    def __abs__(self):
        # decide the sign on this path (keeps terms free of nested If)
        if engine().known_nonneg(self.t) or engine().branch(self.t >= 0):
            return self
        return -self
    def __invert__(self):
        return mk_int(-self.t - 1)

    def __mul__(self, o):
        if isinstance(o, (SInt, SBool)):
            return engine().nl_mul(self, o)
        if isinstance(o, int):
            return mk_int(_mul_const(self.t, int(o)))
        if isinstance(o, bytes) and len(set(o)) == 1 and getattr(engine(), 'symbolic_regions', False):
            # b'\0' * n with symbolic n: a region of symbolic length with known fill
            return SRegion(self * len(o), kind='bytes', tag=('fill', o[0]))
        if isinstance(o, (bytes, bytearray, SBuf, list, tuple, str)):
            return o * engine().concretize(self)
        return NotImplemented
    __rmul__ = __mul__

    def __floordiv__(self, o):
        if not _is_intlike(o): return NotImplemented
        return engine().floordiv(self, o)
    def __rfloordiv__(self, o):
        if not _is_intlike(o): return NotImplemented
        return engine().floordiv(o, self)
    def __mod__(self, o):
        if not _is_intlike(o): return NotImplemented
        return engine().mod(self, o)
    def __rmod__(self, o):
        if not _is_intlike(o): return NotImplemented
        return engine().mod(o, self)
    def __divmod__(self, o):
        return (self // o, self % o)
    def __rdivmod__(self, o):
        return (o // self, o % self)
    def __truediv__(self, o):
        # float division of an integer by a power of two is exact when the integer is exactly
        # representable (|n| < 2**53): kept as an exact quotient that can only be truncated
        if isinstance(o, (int, float)) and not isinstance(o, bool) and o == int(o) and int(o) > 0 \
                and int(o) & (int(o) - 1) == 0 and int(o) <= (1 << 20):
            E = engine()
            lim = 1 << 53
            if E._check(z3.Or(self.t >= lim, self.t <= -lim)) != z3.unsat:
                raise Unsupported('true division of a symbolic integer not known to be below 2**53')
            return SQuot(self, int(o))
        raise Unsupported('true division on symbolic integer')
    def __rtruediv__(self, o):
        raise Unsupported('true division by symbolic integer')
    def __pow__(self, o):
        if isinstance(o, int) and 0 <= o <= 4:
            r = 1
            for _ in range(o):
                r = r * self
            return r
        raise Unsupported('power of symbolic integer')
    def __rpow__(self, o):
        if isinstance(o, int):
            return o ** engine().concretize(self)
        raise Unsupported('symbolic exponent')

    # shifts: the amount must be concrete (fork over its feasible values otherwise)
    def __lshift__(self, k):
        k = engine().concretize(k)
        if k < 0:
            raise ValueError('negative shift count')
        return mk_int(_mul_const(self.t, 1 << k))
    def __rlshift__(self, o):
        return o << engine().concretize(self)
    def __rshift__(self, k):
        k = engine().concretize(k)
        if k < 0:
            raise ValueError('negative shift count')
        if k == 0:
            return self
        return mk_int(_div_const(self.t, 1 << k))
    def __rrshift__(self, o):
        return o >> engine().concretize(self)

    # bit operations
    def __and__(self, o):
        if isinstance(o, SBool): o = SInt(zint(o))
        if isinstance(o, SInt):
            return engine().bitop('and', self, o)
        if isinstance(o, int):
            return mk_int(_and_const(self.t, int(o)))
        return NotImplemented
    __rand__ = __and__
    def __or__(self, o):
        if isinstance(o, SBool): o = SInt(zint(o))
        if isinstance(o, SInt):
            return engine().bitop('or', self, o)
        if isinstance(o, int):
            o = int(o)
            return mk_int(self.t + o - _and_const(self.t, o))
        return NotImplemented
    __ror__ = __or__
    def __xor__(self, o):
        if isinstance(o, SBool): o = SInt(zint(o))
        if isinstance(o, SInt):
            return engine().bitop('xor', self, o)
        if isinstance(o, int):
            o = int(o)
            return mk_int(self.t + o - 2 * _and_const(self.t, o))
        return NotImplemented
    __rxor__ = __xor__

    # comparisons
    def __lt__(self, o):
        if not _is_intlike(o): return NotImplemented
        return mk_bool(self.t < zint(o))
    def __le__(self, o):
        if not _is_intlike(o): return NotImplemented
        return mk_bool(self.t <= zint(o))
    def __gt__(self, o):
        if not _is_intlike(o): return NotImplemented
        return mk_bool(self.t > zint(o))
    def __ge__(self, o):
        if not _is_intlike(o): return NotImplemented
        return mk_bool(self.t >= zint(o))
    def __eq__(self, o):
        if not _is_intlike(o): return False
        return mk_bool(self.t == zint(o))
    def __ne__(self, o):
        if not _is_intlike(o): return True
        return mk_bool(self.t != zint(o))

    def __bool__(self):
        return engine().branch(self.t != 0)

    def __index__(self):
        return engine().concretize(self)

    def __int__(self):
        return engine().concretize(self)


class SByte(SInt):
    """A byte cell known to be byte `idx` of the unsigned integer `src` (< 256**size).

    Lets struct.unpack reassemble what struct.pack took apart without div/mod chains.
    Arithmetic on it yields plain SInt.
    """

    __slots__ = ('src', 'idx', 'size')

    def __init__(self, t, src, idx, size):
        SInt.__init__(self, t)
        self.src = src
        self.idx = idx
        self.size = size


def assemble_le(cs):
    """Little-endian integer of byte cells; runs of bytes taken from one packed value
    are put back together as (src div 256^i) mod 256^k (sound: src < 256^size was checked
    when it was packed)."""
    v = 0
    p = 0
    n = len(cs)
    while p < n:
        c = cs[p]
        if isinstance(c, SByte):
            k = 1
            while (p + k < n and isinstance(cs[p+k], SByte) and cs[p+k].src is c.src
                   and cs[p+k].idx == c.idx + k):
                k += 1
            if k > 1:
                t = c.src
                if c.idx:
                    t = t / (1 << (8*c.idx))
                if c.idx + k < c.size:
                    t = t % (1 << (8*k))
                v = v + mk_int(t) * (1 << (8*p))
                p += k
                continue
        v = v + c * (1 << (8*p))
        p += 1
    return v



class SBool(object):
    """Symbolic boolean."""

    __slots__ = ('t',)

    def __init__(self, t):
        self.t = t

    def __repr__(self):
        return 'SBool(%s)' % (self.t,)

    __hash__ = object.__hash__

    def __bool__(self):
        return engine().branch(self.t)

    def __eq__(self, o):
        if isinstance(o, (bool, SBool)):
            return mk_bool(self.t == zbool(o))
        if isinstance(o, (int, SInt)):
            return mk_bool(zint(self) == zint(o))
        return False
    def __ne__(self, o):
        if isinstance(o, (bool, SBool)):
            return mk_bool(self.t != zbool(o))
        if isinstance(o, (int, SInt)):
            return mk_bool(zint(self) != zint(o))
        return True

    def _i(self):
        return SInt(zint(self))
    def __add__(self, o): return self._i() + o
    def __radd__(self, o): return o + self._i()
    def __sub__(self, o): return self._i() - o
    def __rsub__(self, o): return o - self._i()
    def __mul__(self, o):
        if isinstance(o, int) and not isinstance(o, bool):
            return mk_int(z3.If(self.t, z3.IntVal(o), z3.IntVal(0)))
        return self._i() * o
    __rmul__ = __mul__
    def __neg__(self): return -self._i()
    def __lt__(self, o): return self._i() < o
    def __le__(self, o): return self._i() <= o
    def __gt__(self, o): return self._i() > o
    def __ge__(self, o): return self._i() >= o
    def __and__(self, o):
        if isinstance(o, (bool, SBool)):
            return mk_bool(z3.And(self.t, zbool(o)))
        return self._i() & o
    __rand__ = __and__
    def __or__(self, o):
        if isinstance(o, (bool, SBool)):
            return mk_bool(z3.Or(self.t, zbool(o)))
        return self._i() | o
    __ror__ = __or__
    def __xor__(self, o):
        if isinstance(o, (bool, SBool)):
            return mk_bool(z3.Xor(self.t, zbool(o)))
        return self._i() ^ o
    __rxor__ = __xor__
    def __index__(self):
        return int(bool(self))
    def __int__(self):
        return int(bool(self))


###############################################################################
# logic helpers usable on concrete and symbolic values (no forking)

def _anysym(xs):
    return any(isinstance(x, (SBool, SInt)) for x in xs)

def And(*xs):
    if len(xs) == 1 and isinstance(xs[0], (list, tuple)):
        xs = tuple(xs[0])
    if not _anysym(xs):
        return all(bool(x) for x in xs)
    if any((not isinstance(x, (SBool, SInt))) and not x for x in xs):
        return False
    return mk_bool(z3.And(*[zbool(x) for x in xs if isinstance(x, (SBool, SInt))]))

def Or(*xs):
    if len(xs) == 1 and isinstance(xs[0], (list, tuple)):
        xs = tuple(xs[0])
    if not _anysym(xs):
        return any(bool(x) for x in xs)
    if any((not isinstance(x, (SBool, SInt))) and x for x in xs):
        return True
    return mk_bool(z3.Or(*[zbool(x) for x in xs if isinstance(x, (SBool, SInt))]))

def Not(x):
    if isinstance(x, (SBool, SInt)):
        return mk_bool(z3.Not(zbool(x)))
    return not x

def Implies(a, b):
    return Or(Not(a), b)

def Iff(a, b):
    if _anysym((a, b)):
        return mk_bool(zbool(a) == zbool(b))
    return bool(a) == bool(b)

def If(c, a, b):
    """Non-forking conditional on integers/booleans."""
    if not isinstance(c, (SBool, SInt)):
        return a if c else b
    if isinstance(a, (bool, SBool)) and isinstance(b, (bool, SBool)):
        return mk_bool(z3.If(zbool(c), zbool(a), zbool(b)))
    return mk_int(z3.If(zbool(c), zint(a), zint(b)))

def Abs(x):
    """Non-forking absolute value."""
    if isinstance(x, SInt):
        return mk_int(z3.If(x.t >= 0, x.t, -x.t))
    if isinstance(x, SBool):
        return SInt(zint(x))
    return abs(x)

def Min(a, b):
    return If(a <= b, a, b)

def Max(a, b):
    return If(a >= b, a, b)

def Eq(a, b):
    """Non-forking structural equality of ints/bools/buffers/tuples."""
    if isinstance(a, (tuple, list)) and isinstance(b, (tuple, list)):
        if len(a) != len(b):
            return False
        return And(*[Eq(x, y) for x, y in zip(a, b)])
    r = (a == b)
    return r


###############################################################################
# byte buffers

def _check_byte(v):
    """Value written to a byte cell must be 0..255 (ValueError otherwise)."""
    if isinstance(v, SBool):
        v = SInt(zint(v))
    if isinstance(v, SInt):
        ok = engine().branch(z3.And(v.t >= 0, v.t <= 255))
        if not ok:
            raise ValueError('byte must be in range(0, 256)')
        return v
    if isinstance(v, int):
        if not 0 <= v <= 255:
            raise ValueError('byte must be in range(0, 256)')
        return int(v)
    raise TypeError('an integer is required')


class SBuf(object):
    """Fixed-length byte buffer: bytes / bytearray / memoryview with int or SInt cells.

    kind 'view' shares its store with the buffer it was made from (memoryview semantics);
    slicing a view gives another view; slicing bytes/bytearray copies.
    """

    __slots__ = ('store', 'off', 'n', 'kind')

    def __init__(self, cells, kind='bytearray', off=0, n=None, share=False):
        self.store = cells if share else list(cells)
        self.off = off
        self.n = len(self.store) - off if n is None else n
        self.kind = kind

    # -- construction helpers
    @staticmethod
    def of(x, kind=None):
        """Copying conversion from native bytes-like or SBuf."""
        if isinstance(x, SBuf):
            return SBuf(x.cells(), kind or x.kind)
        if isinstance(x, (bytes, bytearray, memoryview)):
            return SBuf(list(bytes(x)), kind or 'bytes')
        if isinstance(x, (list, tuple)):
            return SBuf([_check_byte(v) for v in x], kind or 'bytearray')
        raise Unsupported('cannot make buffer from %r' % (type(x),))

    def cells(self):
        return self.store[self.off:self.off+self.n]

    def is_symbolic(self):
        return any(isinstance(c, SInt) for c in self.cells())

    def native(self):
        """Concrete value as bytes (all cells must be concrete)."""
        cs = self.cells()
        if any(isinstance(c, SInt) for c in cs):
            raise Unsupported('symbolic buffer passed to native code')
        return bytes(cs)

    def __repr__(self):
        return 'SBuf<%s>(%r)' % (self.kind, self.cells())

    __hash__ = object.__hash__

    def __len__(self):
        return self.n

    def __iter__(self):
        return iter(self.cells())

    def __bool__(self):
        return self.n > 0

    def _index(self, i):
        if isinstance(i, SInt):
            i = engine().concretize(i)
        if isinstance(i, SBool):
            i = int(bool(i))
        if i < 0:
            i += self.n
        if not 0 <= i < self.n:
            raise IndexError('index out of range')
        return i

    def __getitem__(self, i):
        if isinstance(i, slice):
            start, stop, step = self._slice(i)
            if step != 1:
                return SBuf(self.cells()[start:stop:step], self.kind if self.kind != 'view' else 'bytes')
            if self.kind == 'view':
                return SBuf(self.store, 'view', self.off + start, max(0, stop - start), share=True)
            return SBuf(self.store[self.off+start:self.off+max(start, stop)], self.kind)
        return self.store[self.off + self._index(i)]

    def _slice(self, s):
        n = self.n
        def c(v, clamp=True):
            if isinstance(v, SBool):
                return engine().concretize(v)
            if isinstance(v, SInt):
                if clamp:
                    # bounds beyond +-len behave like +-len: fork only over the values that matter
                    v = Min(Max(v, -n), n)
                return engine().concretize(v)
            return v
        return slice(c(s.start), c(s.stop), c(s.step, False)).indices(n)

    def __setitem__(self, i, v):
        if self.kind == 'bytes':
            raise TypeError("'bytes' object does not support item assignment")
        if isinstance(i, slice):
            start, stop, step = self._slice(i)
            if step != 1:
                raise Unsupported('extended slice assignment on buffer')
            if isinstance(v, (bytes, bytearray, memoryview)):
                vals = list(bytes(v))
            elif isinstance(v, SBuf):
                vals = v.cells()
            elif isinstance(v, (list, tuple)):
                vals = [_check_byte(x) for x in v]
            else:
                raise TypeError('can assign only bytes, buffers, or iterables of ints')
            stop = max(start, stop)
            if len(vals) != stop - start:
                if self.kind == 'view':
                    raise ValueError('memoryview assignment: lvalue and rvalue have different structures')
                if self.off != 0 or self.n != len(self.store):
                    raise Unsupported('resizing a shared buffer')
                self.store[start:stop] = vals
                self.n = len(self.store)
                return
            self.store[self.off+start:self.off+stop] = vals
            return
        self.store[self.off + self._index(i)] = _check_byte(v)

    def _eqterm(self, o):
        if isinstance(o, (bytes, bytearray, memoryview)):
            oc = list(bytes(o))
        elif isinstance(o, SBuf):
            oc = o.cells()
        else:
            return None
        if len(oc) != self.n:
            return False
        return cells_equal(self.cells(), oc)

    def __eq__(self, o):
        r = self._eqterm(o)
        return False if r is None else r

    def __ne__(self, o):
        r = self._eqterm(o)
        return True if r is None else Not(r)

    def _cat(self, o):
        if isinstance(o, (bytes, bytearray, memoryview)):
            return list(bytes(o))
        if isinstance(o, SBuf):
            return o.cells()
        return None

    def __add__(self, o):
        oc = self._cat(o)
        if oc is None: return NotImplemented
        return SBuf(self.cells() + oc, 'bytes' if self.kind == 'view' else self.kind)

    def __radd__(self, o):
        oc = self._cat(o)
        if oc is None: return NotImplemented
        kind = 'bytearray' if isinstance(o, bytearray) else 'bytes'
        return SBuf(oc + self.cells(), kind)

    def __iadd__(self, o):
        oc = self._cat(o)
        if oc is None: return NotImplemented
        if self.kind == 'bytearray' and self.off == 0 and self.n == len(self.store):
            self.store.extend(oc)
            self.n = len(self.store)
            return self
        return self.__add__(o)

    def __mul__(self, k):
        k = engine().concretize(k) if isinstance(k, (SInt, SBool)) else k
        return SBuf(self.cells() * k, 'bytes' if self.kind == 'view' else self.kind)
    __rmul__ = __mul__

    def __contains__(self, x):
        if isinstance(x, (int, SInt)):
            return bool(Or(*[c == x for c in self.cells()])) if self.n else False
        raise Unsupported('substring test on symbolic buffer')

    # bytes-like API used by the repo
    def tobytes(self):
        return SBuf(self.cells(), 'bytes')

    def tolist(self):
        return self.cells()

    def __bytes__(self):
        raise Unsupported('bytes() of symbolic buffer in native code')

    def release(self):
        pass

    # -- bytes methods on symbolic content (length is concrete; content may be symbolic)

    def _mk(self, cells):
        return SBuf(cells, 'bytes' if self.kind == 'view' else self.kind)

    def upper(self):
        return self._mk([If(And(c >= 97, c <= 122), c - 32, c) for c in self.cells()])

    def lower(self):
        return self._mk([If(And(c >= 65, c <= 90), c + 32, c) for c in self.cells()])

    @staticmethod
    def _inset(c, chars):
        if chars is None:
            chars = b' \t\n\r\x0b\x0c'
        cs = to_cells(chars)
        return Or(*[c == k for k in cs]) if cs else False

    def lstrip(self, chars=None):
        cs = self.cells()
        i = 0
        while i < len(cs) and bool(self._inset(cs[i], chars)):
            i += 1
        return self._mk(cs[i:])

    def rstrip(self, chars=None):
        cs = self.cells()
        j = len(cs)
        while j > 0 and bool(self._inset(cs[j-1], chars)):
            j -= 1
        return self._mk(cs[:j])

    def strip(self, chars=None):
        return self.lstrip(chars).rstrip(chars)

    def startswith(self, prefix):
        pc = to_cells(prefix)
        if len(pc) > self.n:
            return False
        return And(*[a == b for a, b in zip(self.cells(), pc)]) if pc else True

    def endswith(self, suffix):
        pc = to_cells(suffix)
        if len(pc) > self.n:
            return False
        return And(*[a == b for a, b in zip(self.cells()[self.n-len(pc):], pc)]) if pc else True

    def ljust(self, width, fill=b' '):
        width = engine().concretize(width) if isinstance(width, (SInt, SBool)) else width
        f = to_cells(fill)[0]
        cs = self.cells()
        return self._mk(cs + [f] * max(0, width - len(cs)))

    def rjust(self, width, fill=b' '):
        width = engine().concretize(width) if isinstance(width, (SInt, SBool)) else width
        f = to_cells(fill)[0]
        cs = self.cells()
        return self._mk([f] * max(0, width - len(cs)) + cs)

    def find(self, sub, start=0, end=None):
        """Lowest index of sub (forks on the position)."""
        sc = to_cells(sub)
        cs = self.cells()
        start, end, _ = slice(start, end).indices(len(cs))
        for i in range(start, end - len(sc) + 1):
            hit = And(*[cs[i+j] == sc[j] for j in range(len(sc))]) if sc else True
            if bool(hit):
                return i
        return -1

    def append(self, v):
        if self.kind != 'bytearray' or self.off != 0 or self.n != len(self.store):
            raise Unsupported('append on a buffer that is not a whole bytearray')
        if isinstance(v, SBool):
            raise Unsupported('append of a symbolic boolean')
        if isinstance(v, SInt):
            if not bool(And(v >= 0, v <= 255)):
                raise ValueError('byte must be in range(0, 256)')
        elif not 0 <= v <= 255:
            raise ValueError('byte must be in range(0, 256)')
        self.store.append(v)
        self.n = len(self.store)

    def extend(self, o):
        self.__iadd__(o if isinstance(o, (bytes, bytearray, SBuf)) else SBuf(list(o), 'bytes'))

    def __getattr__(self, name):
        # any other bytes method: only on concrete content, delegated to CPython
        if name.startswith('__'):
            raise AttributeError(name)
        if name in ('insert', 'pop', 'remove', 'reverse', 'clear'):
            raise Unsupported('mutating bytearray method %r' % (name,))
        if self.is_symbolic():
            raise Unsupported('bytes method %r on symbolic buffer' % (name,))
        nat = self.native()
        if self.kind == 'bytearray':
            nat = bytearray(nat)
        return getattr(nat, name)

    def _lex(self, o, strict):
        """self < o (strict) or self <= o, byte-wise lexicographic, a proper prefix is smaller."""
        if not isinstance(o, (bytes, bytearray, SBuf)):
            return NotImplemented
        a, b = self.cells(), (o.cells() if isinstance(o, SBuf) else list(bytes(o)))
        res = (len(a) < len(b)) if strict else (len(a) <= len(b))
        for x, y in reversed(list(zip(a, b))):
            res = If(x < y, True, If(x > y, False, res))
        return res

    def __lt__(self, o):
        return self._lex(o, True)

    def __le__(self, o):
        return self._lex(o, False)

    def __gt__(self, o):
        r = self._lex(o, False)
        return r if r is NotImplemented else Not(r)

    def __ge__(self, o):
        r = self._lex(o, True)
        return r if r is NotImplemented else Not(r)


class SStream(object):
    """io.BytesIO over cells that may be symbolic (concrete length, position and structure)."""
    _pyvc_trusted = True

    def __init__(self, initial=b''):
        self.cells = list(initial.cells()) if isinstance(initial, SBuf) else list(initial)
        self.pos = 0
        self.closed = False

    def tell(self):
        return self.pos

    def seek(self, pos, whence=0):
        if isinstance(pos, (SInt, SBool)):
            pos = engine().concretize(pos, what='stream position')
        if whence == 1:
            pos += self.pos
        elif whence == 2:
            pos += len(self.cells)
        if pos < 0:
            raise ValueError('negative seek value %d' % pos)
        self.pos = pos
        return pos

    def _out(self, out):
        if all(isinstance(c, int) for c in out):
            return bytes(out)
        return SBuf(out, 'bytes')

    def read(self, n=-1):
        if isinstance(n, (SInt, SBool)):
            n = engine().concretize(n, what='read size')
        if n is None or n < 0:
            n = len(self.cells)
        out = self.cells[self.pos:self.pos + n]
        self.pos = min(len(self.cells), self.pos + len(out)) if out else self.pos
        return self._out(out)

    def write(self, b):
        cs = to_cells(b)
        if self.pos > len(self.cells):
            self.cells.extend([0] * (self.pos - len(self.cells)))
        self.cells[self.pos:self.pos + len(cs)] = cs
        self.pos += len(cs)
        return len(cs)

    def truncate(self, size=None):
        if size is None:
            size = self.pos
        del self.cells[size:]
        return size

    def getvalue(self):
        return self._out(list(self.cells))

    def close(self):
        self.closed = True

    def flush(self):
        pass


class SQuot(object):
    """Exact quotient n / 2**k of a symbolic integer (result of a float division); only truncation,
    floor and comparison with zero are supported."""

    def __init__(self, num, den):
        self.num, self.den = num, den

    def __trunc__(self):
        n, d = self.num, self.den
        return If(n >= 0, n // d, -((-n) // d))

    def __floor__(self):
        return self.num // self.den

    def __neg__(self):
        return SQuot(-self.num, self.den)

    def __repr__(self):
        return 'SQuot(%r / %d)' % (self.num, self.den)


class SRegion(object):
    """A byte buffer of *symbolic length* whose content is not modelled.

    Used for allocations such as bytearray(n) with symbolic n (array buffers): only lengths
    and slice bounds are tracked. Slicing follows Python's clamping rules for step 1 and
    non-negative bounds; `off`/`n` of the result are terms relative to the root buffer.
    """

    def __init__(self, n, off=0, root=None, kind='bytearray', tag=None):
        self.n = n
        self.off = off
        self.root = root if root is not None else self
        self.kind = kind
        self.tag = tag         # what the content is, where known (e.g. ('zeros',), ('field',))
        self.writes = []       # (off, n) regions written, on the root
        self.items = []        # ('get'|'set', index on the root, value) single-item accesses, in order

    def __mul__(self, k):
        return SRegion(self.n * k, kind='bytes', tag=self.tag)
    __rmul__ = __mul__

    def ljust(self, width, fill=b' '):
        """Padded copy: the original content followed by max(0, width-n) fill bytes."""
        return SRegion(Max(self.n, width), kind='bytes', tag=('ljust', self, width, bytes(fill)))

    def __len__(self):
        return engine().concretize(self.n)

    def length(self):
        return self.n

    def _item_index(self, i):
        if isinstance(i, SBool):
            i = i + 0
        if not isinstance(i, (int, SInt)) or isinstance(i, bool):
            raise TypeError('indices must be integers')
        if bool(i < 0):
            i = i + self.n
        if bool(Or(i < 0, i >= self.n)):
            raise IndexError('index out of range')
        return self.off + i

    def __getitem__(self, i):
        if not isinstance(i, slice):
            # single item: content is not modelled, so the value is an unconstrained byte;
            # the access is logged on the root (contracts relate logged reads to their use)
            j = self._item_index(i)
            v = engine().fresh('region.item', 0, 255)
            self.root.items.append(('get', j, v))
            return v
        if i.step not in (None, 1):
            raise Unsupported('only contiguous slices of a symbolic-length buffer')
        n = self.n
        start = 0 if i.start is None else i.start
        stop = n if i.stop is None else i.stop
        neg = Or(start < 0, stop < 0)
        if bool(neg):
            raise Unsupported('negative slice bound on a symbolic-length buffer')
        start = Min(start, n)
        stop = Max(Min(stop, n), start)
        return SRegion(stop - start, self.off + start, self.root, 'view' if self.kind == 'view' else self.kind)

    def __setitem__(self, i, v):
        if not isinstance(i, slice):
            if self.kind == 'bytes':
                raise TypeError("'bytes' object does not support item assignment")
            j = self._item_index(i)
            if isinstance(v, SBool):
                v = v + 0
            if not isinstance(v, (int, SInt)) or isinstance(v, bool) and False:
                raise TypeError('an integer is required')
            if bool(Or(v < 0, v > 255)):
                raise ValueError('byte must be in range(0, 256)')
            self.root.items.append(('set', j, v))
            return
        tgt = self[i]
        ln = len(v) if not isinstance(v, SRegion) else v.n
        if self.kind == 'view' and not bool(tgt.n == ln):
            raise ValueError('memoryview assignment: lvalue and rvalue have different structures')
        self.root.writes.append((tgt.off, tgt.n))

    def __bool__(self):
        return bool(self.n > 0)


def cells_equal(ca, cb):
    """Equality of two equally long byte-cell lists (non-forking).

    Where cells carry provenance (bytes of one packed integer) whole little-endian groups
    are compared as integers: for byte cells that is equivalent to cell-wise equality.
    """
    if len(ca) != len(cb):
        return False
    if not ca:
        return True
    if any(isinstance(c, SByte) for c in ca) or any(isinstance(c, SByte) for c in cb):
        out = []
        for i in range(0, len(ca), 8):
            out.append(assemble_le(ca[i:i+8]) == assemble_le(cb[i:i+8]))
        return And(*out)
    return And(*[a == b for a, b in zip(ca, cb)])


def buf_equal(a, b):
    """Non-forking equality of two byte strings (native or SBuf)."""
    if isinstance(a, SBuf):
        return a == b
    if isinstance(b, SBuf):
        return b == a
    return bytes(a) == bytes(b)


def to_cells(x):
    """Cells of any bytes-like."""
    if isinstance(x, SBuf):
        return x.cells()
    return list(bytes(x))
