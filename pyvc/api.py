"""
pyvc.api - what contract files use: task registry and re-exports.

A contract file /verif/contracts/Cxx.py defines
    PROPERTY = 'Cxx'
    TASKS = [Task(...), ...]
    ASSUMPTIONS = [...]      # unverified surroundings, trusted externals
    NOT_COVERED = [...]
Each Task is a harness-style contract: the precondition is how the symbolic inputs are
constrained, the postcondition is the set of E.prove calls; E.call runs the real function
from its source in $VERIF_REPO.
"""

import os
import sys

from .sym import (SInt, SBool, SBuf, SRegion, And, Or, Not, Implies, Iff, If, Eq, Abs, Min, Max,
                  Unsupported, PathEnd, PathDone, buf_equal, to_cells, assemble_le, cells_equal)
from .engine import Outcome


class Task(object):

    def __init__(self, name, fn, cases=None, tier='quick', covers=(), canaries=(),
                 timeout_ms=None, functions=(), bounded=False, max_seconds=None,
                 samples=(2000, 40000), scope=''):
        self.name = name
        self.fn = fn
        self.cases = cases if cases is not None else [{}]
        self.tier = tier            # 'quick': run in both tiers; 'thorough': thorough only
        self.covers = tuple(covers)
        self.canaries = tuple(canaries)
        self.timeout_ms = timeout_ms
        self.functions = tuple(functions)   # functions whose contract this task states
        self.bounded = bounded
        self.max_seconds = max_seconds
        self.samples = samples      # bounded tasks: number of sampled inputs (quick, thorough)
        self.scope = scope          # bounded tasks: stated bound


def repo_root():
    return os.environ.get('VERIF_REPO', '/repo')


def case_id(case):
    if not case:
        return ''
    return ','.join('%s=%s' % (k, case[k]) for k in sorted(case))


def enc_case(x):
    """JSON-safe encoding of case parameters (bytes, tuples)."""
    if isinstance(x, bytes):
        return {'__bytes__': x.decode('latin-1')}
    if isinstance(x, tuple):
        return {'__tuple__': [enc_case(y) for y in x]}
    if isinstance(x, list):
        return [enc_case(y) for y in x]
    if isinstance(x, dict):
        return {k: enc_case(v) for k, v in x.items()}
    return x


def dec_case(x):
    if isinstance(x, dict):
        if '__bytes__' in x:
            return x['__bytes__'].encode('latin-1')
        if '__tuple__' in x:
            return tuple(dec_case(y) for y in x['__tuple__'])
        return {k: dec_case(v) for k, v in x.items()}
    if isinstance(x, list):
        return [dec_case(y) for y in x]
    return x
