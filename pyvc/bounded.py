"""
pyvc.bounded - bounded stand-in: run a task natively on sampled inputs (never counted as proved).

usage: python -m pyvc.bounded <property> <task> <case-json> <n> <seed>
Prints 'BOUNDED-RESULT {json}'.
"""

import sys
import os
import json
import random
import importlib


class Sampler(object):
    """Boundary-dense random inputs."""

    def __init__(self, seed):
        self.rnd = random.Random(seed)

    def draw_int(self, name, lo, hi):
        lo = -(1 << 64) if lo is None else lo
        hi = (1 << 64) if hi is None else hi
        r = self.rnd.random()
        if r < 0.15:
            return self.rnd.choice([lo, hi, min(hi, lo + 1), max(lo, hi - 1)])
        if r < 0.30 and lo <= 0 <= hi:
            return self.rnd.choice([v for v in (0, 1, -1, 127, 128, 255) if lo <= v <= hi] or [lo])
        if r < 0.45:
            # powers of two and neighbours
            k = self.rnd.randrange(0, max(1, hi.bit_length()))
            v = (1 << k) + self.rnd.choice([-1, 0, 1])
            if lo <= v <= hi:
                return v
        return self.rnd.randint(lo, hi)


def main():
    prop, tname, case, n, seed = sys.argv[1], sys.argv[2], json.loads(sys.argv[3]), int(sys.argv[4]), int(sys.argv[5])
    here = os.path.dirname(os.path.dirname(os.path.abspath(__file__)))
    repo = os.environ.get('VERIF_REPO', '/repo')
    for p in (here, repo):
        if p not in sys.path:
            sys.path.insert(0, p)
    from pyvc.engine import Engine
    mod = importlib.import_module('contracts.%s' % prop)
    task = [t for t in mod.TASKS if t.name == tname][0]
    from pyvc.api import dec_case
    case = dec_case(case)
    sampler = Sampler(seed)
    res = {'evaluations': 0, 'obligations_evaluated': 0, 'failures': [], 'distinct': 0, 'samples': [], 'error': None}
    seen = set()
    try:
        for i in range(n):
            E = Engine(mode='native')
            E.sampler = sampler
            E.explore(task.fn, **case)
            if not E.results:
                continue
            res['evaluations'] += 1
            key = tuple(sorted(E.input_vars.items()))
            if key not in seen:
                seen.add(key)
            res['obligations_evaluated'] += len(E.results)
            if len(res['samples']) < 3:
                res['samples'].append(dict(E.input_vars))
            for r in E.results:
                if r['status'] != 'discharged':
                    if len(res['failures']) < 5:
                        res['failures'].append({'label': r['label'], 'inputs': dict(E.input_vars)})
        res['distinct'] = len(seen)
    except BaseException as e:
        import traceback
        res['error'] = '%s: %s | %s' % (type(e).__name__, e, traceback.format_exc()[-1500:])
    print('BOUNDED-RESULT ' + json.dumps(res, default=str))


if __name__ == '__main__':
    main()
