"""
pyvc.interp - symbolic interpreter for the repository's Python source.

Functions are never copied or rewritten: for a function object defined in a file under
$VERIF_REPO the interpreter parses that file with `ast` (cached per run) and executes the
FunctionDef node found at the function's line. Values are native Python objects, except
that integers/booleans/byte buffers may be symbolic (pyvc.sym). Repository classes are
instantiated as real instances (so isinstance, the MRO and class constants are the real
ones) whose attributes may hold symbolic values; their methods are always interpreted,
never run natively.

Python semantics assumed by this encoding (also listed in evidence):
 * int is a mathematical integer; bool/int coercions as in CPython
 * evaluation order left-to-right, short-circuit and/or, chained comparisons
 * exceptions propagate as in CPython; try/except/else/finally, with (contextmanager)
 * generators are run as native generators over the interpreted body (no send())
"""

import ast
import os
import sys
import types
import inspect
import hashlib
import builtins as _builtins
import functools
import operator

from . import sym
from .sym import (SInt, SBool, SBuf, Unsupported, PathEnd, PathDone, EngineError, is_sym, deep_sym, And, engine,
                  mk_bool, mk_int, zint, zbool, z3)


class _Return(EngineError):
    def __init__(self, value):
        self.value = value

class _Break(EngineError):
    pass

class _Continue(EngineError):
    pass

class _Reraise(EngineError):
    """A bare `raise` inside an except block."""


class IFunc(object):
    """Function created by interpreted code (nested def or lambda)."""

    def __init__(self, interp, node, defaults, kw_defaults, scopes, globs, name, module):
        self.interp = interp
        self.node = node
        self.defaults = defaults
        self.kw_defaults = kw_defaults
        self.scopes = scopes
        self.globs = globs
        self.__name__ = name
        self.__module__ = module

    def __call__(self, *args, **kwargs):
        return self.interp.call(self, list(args), kwargs)

    def __get__(self, obj, objtype=None):
        if obj is None:
            return self
        return types.MethodType(self, obj)


def _assigned_names(stmts):
    out = set()
    for b in stmts:
        for n in ast.walk(b):
            if isinstance(n, ast.Name) and isinstance(n.ctx, ast.Store):
                out.add(n.id)
    return out


class Frame(object):
    __slots__ = ('locals', 'scopes', 'globs', 'globals_decl', 'nonlocal_decl', 'fname', 'module')

    def __init__(self, locs, scopes, globs, fname, module):
        self.locals = locs
        self.scopes = scopes      # enclosing local dicts, innermost first
        self.globs = globs
        self.globals_decl = set()
        self.nonlocal_decl = set()
        self.fname = fname
        self.module = module


_BINOPS = {
    ast.Add: operator.add, ast.Sub: operator.sub, ast.Mult: operator.mul,
    ast.FloorDiv: operator.floordiv, ast.Mod: operator.mod, ast.Div: operator.truediv,
    ast.Pow: operator.pow, ast.LShift: operator.lshift, ast.RShift: operator.rshift,
    ast.BitAnd: operator.and_, ast.BitOr: operator.or_, ast.BitXor: operator.xor,
    ast.MatMult: operator.matmul,
}

_CMPOPS = {
    ast.Eq: operator.eq, ast.NotEq: operator.ne, ast.Lt: operator.lt, ast.LtE: operator.le,
    ast.Gt: operator.gt, ast.GtE: operator.ge,
}


import contextlib as _contextlib

def _cm_probe():
    yield

_CM_HELPER_CODE = _contextlib.contextmanager(_cm_probe).__code__


class _ICtx(object):
    """Context manager over an interpreted generator (contextlib.contextmanager semantics)."""
    _pyvc_trusted = True

    def __init__(self, gen):
        self.gen = gen

    def __enter__(self):
        try:
            return next(self.gen)
        except StopIteration:
            raise RuntimeError("generator didn't yield")

    def __exit__(self, typ, value, tb):
        if typ is None:
            try:
                next(self.gen)
            except StopIteration:
                return False
            raise RuntimeError("generator didn't stop")
        if value is None:
            value = typ()
        try:
            self.gen.throw(value)
        except StopIteration as e:
            return e is not value
        except BaseException as e:
            if e is value:
                return False
            raise
        raise RuntimeError("generator didn't stop after throw()")


class Interp(object):
    """AST interpreter bound to one repository root."""

    def __init__(self, repo_root, repo_packages=('pcbasic',)):
        self.repo_root = os.path.realpath(repo_root)
        self.repo_packages = repo_packages
        self._files = {}       # path -> (tree, {lineno: [nodes]})
        self._pathcache = {}
        self._realcache = {}
        self._nodecache = {}
        self.summaries = {}    # native callable (id) -> handler(interp, args, kwargs)
        self.contracts = {}    # underlying function object -> handler(interp, args, kwargs)
        # loop contracts: function name -> dict(invariant=f(locals), variant=f(locals),
        #   iteration=f(before, after, yields), exit=f(locals)); the while loops of that function
        #   are then checked by invariant (establish / havoc / one arbitrary iteration / exit)
        self.loop_contracts = {}
        self.used_loop_contracts = set()
        self.used = {}         # qualified name -> source hash (functions interpreted)
        self.used_contracts = set()
        self.used_summaries = set()
        self.native_calls = set()
        self.depth = 0
        self.max_depth = 120
        self.max_loop = 5000
        self.merge_ifs = False   # opt-in state merging of simple if statements
        self.symbolic_dict_keys = False
        self.no_interp = set()  # function objects to run natively although in repo
        from . import summaries
        summaries.install(self)

    # ------------------------------------------------------------------
    # source lookup

    def _load(self, path):
        ent = self._files.get(path)
        if ent is None:
            with open(path, 'rb') as f:
                src = f.read()
            tree = ast.parse(src, path)
            idx = {}
            for node in ast.walk(tree):
                if isinstance(node, (ast.FunctionDef, ast.Lambda, ast.AsyncFunctionDef)):
                    idx.setdefault(node.lineno, []).append(node)
                    if getattr(node, 'decorator_list', None):
                        idx.setdefault(node.decorator_list[0].lineno, []).append(node)
            ent = (tree, idx, src.decode('utf-8', 'replace').split('\n'))
            self._files[path] = ent
        return ent

    def is_repo_path(self, path):
        r = self._pathcache.get(path)
        if r is None:
            try:
                r = os.path.realpath(path).startswith(self.repo_root + os.sep)
            except Exception:
                r = False
            self._pathcache[path] = r
        return r

    def _real(self, path):
        r = self._realcache.get(path)
        if r is None:
            r = self._realcache[path] = os.path.realpath(path)
        return r

    def is_repo_function(self, fn):
        code = getattr(fn, '__code__', None)
        if code is None:
            return False
        mod = getattr(fn, '__module__', '') or ''
        if not any(mod == p or mod.startswith(p + '.') for p in self.repo_packages):
            return False
        return self.is_repo_path(code.co_filename)

    def is_repo_class(self, cls):
        mod = getattr(cls, '__module__', '') or ''
        return any(mod == p or mod.startswith(p + '.') for p in self.repo_packages)

    def node_of(self, fn):
        code = fn.__code__
        got = self._nodecache.get(code)
        if got is not None:
            return got
        got = self._node_of(fn)
        self._nodecache[code] = got
        return got

    def _node_of(self, fn):
        code = fn.__code__
        path = self._real(code.co_filename)
        tree, idx, lines = self._load(path)
        cands = idx.get(code.co_firstlineno, [])
        name = code.co_name
        best = None
        for n in cands:
            nname = getattr(n, 'name', '<lambda>')
            if nname == name:
                if best is None:
                    best = n
                else:
                    # several lambdas on one line: match by argument names
                    args = [a.arg for a in n.args.args]
                    if tuple(args) == code.co_varnames[:code.co_argcount]:
                        best = n
        if best is None:
            raise Unsupported('no source found for %s (%s:%d)' % (name, path, code.co_firstlineno))
        qual = '%s:%s' % (os.path.relpath(path, self.repo_root), getattr(fn, '__qualname__', name))
        if qual not in self.used:
            end = getattr(best, 'end_lineno', best.lineno)
            start = best.lineno
            if getattr(best, 'decorator_list', None):
                start = best.decorator_list[0].lineno
            text = '\n'.join(lines[start-1:end])
            self.used[qual] = hashlib.sha256(text.encode('utf-8')).hexdigest()[:16]
        return best

    # ------------------------------------------------------------------
    # calls

    def call(self, f, args, kwargs=None):
        kwargs = kwargs or {}
        # by-contract replacement
        under = f
        selfarg = None
        if isinstance(f, types.MethodType):
            under = f.__func__
            selfarg = f.__self__
        h = self.contracts.get(under)
        if h is not None:
            self.used_contracts.add(getattr(under, '__qualname__', repr(under)))
            a = ([selfarg] if selfarg is not None else []) + list(args)
            return h(self, a, kwargs)
        if isinstance(f, IFunc):
            return self._run(f.node, f.defaults, f.kw_defaults, f.scopes, f.globs,
                             f.__name__, f.__module__, args, kwargs)
        # @contextmanager on a repository generator function: interpret the generator
        w = getattr(under, '__wrapped__', None)
        if (w is not None and getattr(under, '__code__', None) is _CM_HELPER_CODE
                and isinstance(w, types.FunctionType) and self.is_repo_function(w) and w not in self.no_interp):
            a = ([selfarg] if selfarg is not None else []) + list(args)
            return _ICtx(self.call(w, a, kwargs))
        if isinstance(f, types.MethodType):
            if isinstance(under, IFunc) or self.is_repo_function(under):
                return self.call(under, [selfarg] + list(args), kwargs)
            return self._native(f, args, kwargs)
        try:
            h = self.summaries.get(f)
        except TypeError:
            h = None
        if h is not None:
            self.used_summaries.add(getattr(f, '__qualname__', getattr(f, '__name__', repr(f))))
            return h(self, args, kwargs)
        if isinstance(f, types.FunctionType):
            if self.is_repo_function(f) and f not in self.no_interp:
                return self._call_pyfunc(f, args, kwargs)
            return self._native(f, args, kwargs)
        if isinstance(f, type):
            if self.is_repo_class(f):
                return self._instantiate(f, args, kwargs)
            return self._native(f, args, kwargs)
        if isinstance(f, functools.partial):
            return self.call(f.func, list(f.args) + list(args), dict(f.keywords, **kwargs))
        # callable instances of repository classes
        cls = type(f)
        if self.is_repo_class(cls) and hasattr(cls, '__call__'):
            return self.call(cls.__call__, [f] + list(args), kwargs)
        return self._native(f, args, kwargs)

    def _native(self, f, args, kwargs):
        """Call a builtin / standard-library / sym-class callable natively."""
        owner = getattr(f, '__self__', None)
        if isinstance(owner, dict) and args and getattr(f, '__name__', '') in ('get', 'pop', 'setdefault', '__contains__', '__getitem__', '__delitem__'):
            # dictionary methods with a symbolic key (or symbolic keys in the dictionary): by value
            from . import summaries
            args = [summaries._canon_key(self, owner, args[0])] + list(args[1:])
        if isinstance(owner, (bytes, bytearray)) and getattr(f, '__name__', '') == 'join' and len(args) == 1:
            items = list(self.iterate(args[0])) if not isinstance(args[0], (list, tuple)) else list(args[0])
            if any(isinstance(x, SBuf) for x in items):
                # separator.join(items) over cells
                cells = []
                for k, x in enumerate(items):
                    if k:
                        cells += list(owner)
                    cells += x.cells() if isinstance(x, SBuf) else list(bytes(x))
                return SBuf(cells, 'bytes')
            args = [items]
        trusted = (isinstance(owner, (SInt, SBool, SBuf)) or isinstance(f, type) and issubclass(f, BaseException)
                   or getattr(type(owner), '_pyvc_trusted', False) or getattr(f, '_pyvc_trusted', False))
        try:
            return f(*args, **kwargs)
        except EngineError:
            raise
        except RecursionError:
            raise
        except Exception as e:
            # a buffer of concrete content is passed as the bytes it denotes
            if not trusted and isinstance(e, TypeError) and any(isinstance(a, SBuf) and not a.is_symbolic() for a in args):
                a2 = [(a.native() if a.kind != 'bytearray' else bytearray(a.native()))
                      if isinstance(a, SBuf) and not a.is_symbolic() else a for a in args]
                if not any(isinstance(a, SBuf) and a.kind != 'bytes' for a in args):
                    return self._native(f, a2, kwargs)
            if not trusted and (any(deep_sym(a) for a in args) or any(deep_sym(a) for a in kwargs.values())):
                raise Unsupported('native call %s with symbolic arguments failed: %r' % (
                    getattr(f, '__qualname__', getattr(f, '__name__', f)), e))
            raise

    def _call_pyfunc(self, f, args, kwargs):
        node = self.node_of(f)
        code = f.__code__
        scopes = []
        if f.__closure__:
            cells = {}
            for name, cell in zip(code.co_freevars, f.__closure__):
                try:
                    cells[name] = cell.cell_contents
                except ValueError:
                    pass
            scopes = [cells]
        defaults = list(f.__defaults__ or ())
        kwd = dict(f.__kwdefaults__ or {})
        return self._run(node, defaults, kwd, scopes, f.__globals__, f.__name__,
                         f.__module__, args, kwargs)

    def _instantiate(self, cls, args, kwargs):
        new = cls.__new__
        if new is object.__new__:
            obj = object.__new__(cls)
        elif issubclass(cls, BaseException):
            obj = cls.__new__(cls, *args)
        else:
            newf = getattr(new, '__func__', new)
            if isinstance(newf, types.FunctionType) and self.is_repo_function(newf):
                obj = self.call(newf, [cls] + list(args), kwargs)
            else:
                try:
                    obj = cls.__new__(cls)
                except TypeError:
                    obj = cls.__new__(cls, *args, **kwargs)
        if not isinstance(obj, cls):
            return obj
        init = cls.__init__
        if isinstance(init, types.FunctionType) and self.is_repo_function(init):
            self.call(init, [obj] + list(args), kwargs)
        elif issubclass(cls, BaseException):
            obj.args = tuple(args)
        elif init is not object.__init__:
            init(obj, *args, **kwargs)
        return obj

    def _bind(self, node, defaults, kw_defaults, args, kwargs, fname):
        a = node.args
        locs = {}
        pos = list(getattr(a, 'posonlyargs', [])) + list(a.args)
        names = [x.arg for x in pos]
        n = len(names)
        args = list(args)
        if len(args) > n:
            if a.vararg is None:
                raise TypeError('%s() takes %d positional arguments but %d were given' % (
                    fname, n, len(args)))
            locs[a.vararg.arg] = tuple(args[n:])
            args = args[:n]
        elif a.vararg is not None:
            locs[a.vararg.arg] = ()
        for name, v in zip(names, args):
            locs[name] = v
        kwargs = dict(kwargs)
        nd = len(defaults)
        for i, name in enumerate(names):
            if name in locs:
                if name in kwargs:
                    raise TypeError('%s() got multiple values for argument %r' % (fname, name))
                continue
            if name in kwargs:
                locs[name] = kwargs.pop(name)
            elif i >= n - nd:
                locs[name] = defaults[i - (n - nd)]
            else:
                raise TypeError('%s() missing required positional argument: %r' % (fname, name))
        for x in a.kwonlyargs:
            if x.arg in kwargs:
                locs[x.arg] = kwargs.pop(x.arg)
            elif x.arg in kw_defaults:
                locs[x.arg] = kw_defaults[x.arg]
            else:
                raise TypeError('%s() missing keyword-only argument %r' % (fname, x.arg))
        if a.kwarg is not None:
            locs[a.kwarg.arg] = kwargs
        elif kwargs:
            raise TypeError('%s() got an unexpected keyword argument %r' % (
                fname, sorted(kwargs)[0]))
        return locs

    def _run(self, node, defaults, kw_defaults, scopes, globs, fname, module, args, kwargs):
        locs = self._bind(node, defaults, kw_defaults, args, kwargs, fname)
        frame = Frame(locs, scopes, globs, fname, module)
        if isinstance(node, ast.Lambda):
            return self._guard_depth(lambda: self.eval(node.body, frame))
        if _is_generator(node):
            return self._gen(node, frame)
        def body():
            try:
                self.exec_block(node.body, frame)
            except _Return as r:
                return r.value
            return None
        return self._guard_depth(body)

    def _guard_depth(self, thunk):
        self.depth += 1
        if self.depth > self.max_depth:
            self.depth -= 1
            raise Unsupported('interpreter call depth exceeded')
        try:
            return thunk()
        finally:
            self.depth -= 1

    # ------------------------------------------------------------------
    # generators: the interpreted body runs inside a native generator

    def _gen(self, node, frame):
        def gen():
            try:
                yield from self.gexec_block(node.body, frame)
            except _Return as r:
                return r.value
        return gen()

    def gexec_block(self, stmts, frame):
        for s in stmts:
            if _contains_yield(s):
                yield from self.gexec(s, frame)
            else:
                self.exec_stmt(s, frame)

    def gexec(self, s, frame):
        """Execute a statement that contains a yield (generator mode)."""
        if isinstance(s, ast.Expr) and isinstance(s.value, (ast.Yield, ast.YieldFrom)):
            yield from self._gyield(s.value, frame)
        elif isinstance(s, ast.Assign) and isinstance(s.value, (ast.Yield, ast.YieldFrom)):
            v = yield from self._gyield(s.value, frame)
            for t in s.targets:
                self.assign(t, v, frame)
        elif isinstance(s, ast.Return) and isinstance(s.value, (ast.Yield, ast.YieldFrom)):
            v = yield from self._gyield(s.value, frame)
            raise _Return(v)
        elif isinstance(s, ast.If):
            if self.truth(self.eval(s.test, frame)):
                yield from self.gexec_block(s.body, frame)
            else:
                yield from self.gexec_block(s.orelse, frame)
        elif isinstance(s, ast.While) and frame.fname in self.loop_contracts and engine().mode == 'symbolic':
            yield from self._gwhile_contract(s, frame, self.loop_contracts[frame.fname])
        elif isinstance(s, ast.While):
            broke = False
            while self.truth(self.eval(s.test, frame)):
                try:
                    yield from self.gexec_block(s.body, frame)
                except _Break:
                    broke = True
                    break
                except _Continue:
                    continue
            if not broke:
                yield from self.gexec_block(s.orelse, frame)
        elif isinstance(s, ast.For):
            broke = False
            for item in self.iterate(self.eval(s.iter, frame)):
                self.assign(s.target, item, frame)
                try:
                    yield from self.gexec_block(s.body, frame)
                except _Break:
                    broke = True
                    break
                except _Continue:
                    continue
            if not broke:
                yield from self.gexec_block(s.orelse, frame)
        elif isinstance(s, ast.Try):
            try:
                try:
                    yield from self.gexec_block(s.body, frame)
                except EngineError:
                    raise
                except GeneratorExit:
                    raise
                except BaseException as e:
                    h = self._match_handler(s, e, frame)
                    if h is None:
                        raise
                    if h.name:
                        frame.locals[h.name] = e
                    try:
                        yield from self.gexec_block(h.body, frame)
                    except _Reraise:
                        raise e
                else:
                    yield from self.gexec_block(s.orelse, frame)
            finally:
                # a finalbody containing yield is not supported
                self.exec_block(s.finalbody, frame)
        elif isinstance(s, ast.With):
            yield from self._gwith(s, 0, frame)
        else:
            raise Unsupported('yield inside %s' % type(s).__name__)

    def _gwhile_contract(self, s, frame, lc):
        """A while loop checked against its contract instead of being unrolled:
        the invariant holds on entry; from an arbitrary state satisfying it (every variable the
        body assigns is havocked) one iteration preserves it and decreases the variant; after
        the loop the invariant and the negated condition hold. Sound for every number of
        iterations; the iteration path ends after its obligations (PathDone)."""
        E = engine()
        L = frame.locals
        tag = 'loop in %s' % frame.fname
        if s.orelse or any(isinstance(n, (ast.Break, ast.Continue, ast.Return)) for b in s.body for n in ast.walk(b)):
            raise Unsupported('loop contract on a loop with break/continue/return/else')
        self.used_loop_contracts.add(frame.fname)
        E.prove_aux(lc['invariant'](L), tag + ': invariant holds on entry')
        for v in sorted(_assigned_names(s.body)):
            if v in L:
                if isinstance(L[v], bool) or not isinstance(L[v], (int, SInt)):
                    raise Unsupported('loop contract: variable %s is not an integer' % v)
                L[v] = E.fresh('%s.%s' % (frame.fname, v))
        E.assume(lc['invariant'](L))
        if self.truth(self.eval(s.test, frame)):
            before = dict(L)
            ys = []
            for y in self.gexec_block(s.body, frame):
                ys.append(y)
                yield y
            E.prove_aux(lc['invariant'](L), tag + ': invariant preserved by an arbitrary iteration')
            if lc.get('variant') is not None:
                v0, v1 = lc['variant'](before), lc['variant'](L)
                E.prove_aux(And(v0 >= 0, v1 < v0), tag + ': variant is non-negative and decreases (termination)')
            if lc.get('iteration') is not None:
                lc['iteration'](before, L, ys)
            raise PathDone('arbitrary iteration of ' + tag + ' checked')
        if lc.get('exit') is not None:
            lc['exit'](L)

    def _gwith(self, s, i, frame):
        if i == len(s.items):
            yield from self.gexec_block(s.body, frame)
            return
        item = s.items[i]
        mgr = self.eval(item.context_expr, frame)
        val = self._enter(mgr)
        if item.optional_vars is not None:
            self.assign(item.optional_vars, val, frame)
        try:
            yield from self._gwith(s, i + 1, frame)
        except EngineError:
            raise
        except GeneratorExit:
            raise
        except BaseException as e:
            if not self._exit(mgr, e):
                raise
        else:
            self._exit(mgr, None)

    def _gyield(self, node, frame):
        if isinstance(node, ast.YieldFrom):
            it = self.eval(node.value, frame)
            r = yield from self.iterate(it)
            return r
        v = self.eval(node.value, frame) if node.value is not None else None
        r = yield v
        return r

    # ------------------------------------------------------------------
    # statements

    def exec_block(self, stmts, frame):
        for s in stmts:
            self.exec_stmt(s, frame)

    def exec_stmt(self, s, frame):
        m = getattr(self, 'x_' + type(s).__name__, None)
        if m is None:
            raise Unsupported('statement %s' % type(s).__name__)
        return m(s, frame)

    def x_Expr(self, s, frame):
        if isinstance(s.value, (ast.Yield, ast.YieldFrom)):
            raise Unsupported('yield outside generator mode')
        self.eval(s.value, frame)

    def x_Pass(self, s, frame):
        pass

    def x_Return(self, s, frame):
        raise _Return(self.eval(s.value, frame) if s.value is not None else None)

    def x_Break(self, s, frame):
        raise _Break()

    def x_Continue(self, s, frame):
        raise _Continue()

    def x_Global(self, s, frame):
        frame.globals_decl.update(s.names)

    def x_Nonlocal(self, s, frame):
        frame.nonlocal_decl.update(s.names)

    def x_Assign(self, s, frame):
        v = self.eval(s.value, frame)
        for t in s.targets:
            self.assign(t, v, frame)

    def x_AnnAssign(self, s, frame):
        if s.value is not None:
            self.assign(s.target, self.eval(s.value, frame), frame)

    def x_AugAssign(self, s, frame):
        t = s.target
        if isinstance(t, ast.Name):
            cur = self.load_name(t.id, frame)
            self.store_name(t.id, self.binop(s.op, cur, self.eval(s.value, frame), True), frame)
        elif isinstance(t, ast.Attribute):
            obj = self.eval(t.value, frame)
            cur = self.getattr(obj, t.attr)
            self.setattr(obj, t.attr, self.binop(s.op, cur, self.eval(s.value, frame), True))
        elif isinstance(t, ast.Subscript):
            obj = self.eval(t.value, frame)
            idx = self.eval_index(t.slice, frame)
            cur = self.getitem(obj, idx)
            self.setitem(obj, idx, self.binop(s.op, cur, self.eval(s.value, frame), True))
        else:
            raise Unsupported('augmented assignment target')

    def x_Delete(self, s, frame):
        for t in s.targets:
            if isinstance(t, ast.Name):
                del frame.locals[t.id]
            elif isinstance(t, ast.Subscript):
                obj = self.eval(t.value, frame)
                idx = self.eval_index(t.slice, frame)
                self.delitem(obj, idx)
            elif isinstance(t, ast.Attribute):
                delattr(self.eval(t.value, frame), t.attr)
            else:
                raise Unsupported('del target')

    def x_If(self, s, frame):
        c = self.eval(s.test, frame)
        if self.merge_ifs and isinstance(c, (SBool, SInt)) and _mergeable(s):
            if self._merged_if(s, c, frame):
                return
        if self.truth(c):
            self.exec_block(s.body, frame)
        else:
            self.exec_block(s.orelse, frame)

    def _merged_if(self, s, c, frame):
        """State merging for `if c: <assignments to local ints> [else: ...]`.

        Both arms are evaluated on copies of the local scope and the integer/boolean
        results combined with if-then-else terms, so the path does not fork. Only arms made
        of assignments of call-free expressions to plain names qualify (_mergeable); any
        exception or non-integer result falls back to ordinary forking.
        """
        if isinstance(c, SInt):
            c = c != 0
            if not isinstance(c, SBool):
                return False
        saved = frame.locals
        arms = []
        try:
            for body in (s.body, s.orelse):
                frame.locals = dict(saved)
                E = sym.engine()
                pos, ntrace = E.pos, len(E.trace)
                self.exec_block(body, frame)
                if E.pos != pos or len(E.trace) != ntrace:
                    return False        # an arm forked: do not merge
                arms.append(frame.locals)
        except EngineError:
            raise
        except Exception:
            return False
        finally:
            frame.locals = saved
        lt, le = arms
        merged = {}
        for name in set(lt) | set(le):
            if name not in lt or name not in le:
                return False
            a, b = lt[name], le[name]
            if a is b:
                continue
            if isinstance(a, (int, SInt, SBool)) and isinstance(b, (int, SInt, SBool)):
                merged[name] = sym.If(c, a, b)
            else:
                return False
        saved.update(merged)
        return True

    def x_While(self, s, frame):
        if frame.fname in self.loop_contracts and engine().mode == 'symbolic':
            for _ in self._gwhile_contract(s, frame, self.loop_contracts[frame.fname]):
                raise Unsupported('yield inside a loop under contract in a plain function')
            return
        n = 0
        while self.truth(self.eval(s.test, frame)):
            n += 1
            if n > self.max_loop:
                raise Unsupported('loop at line %d not exhausted after %d iterations' % (s.lineno, n))
            try:
                self.exec_block(s.body, frame)
            except _Break:
                return
            except _Continue:
                continue
        self.exec_block(s.orelse, frame)

    def loop_hook(self, s, frame):
        """Hook for loop contracts (invariants); None = unroll."""
        return None

    def _for_range_contract(self, s, frame, lc):
        """`for v in range(a, b, step)` checked against a loop contract (see _gwhile_contract):
        ghost index i with v = a + step*i; invariant(locals, i) on entry (i = 0), preserved by an
        arbitrary iteration (i -> i+1), assumed with i = n on exit. The step must be concrete on
        the path; the bounds may be symbolic."""
        E = engine()
        L = frame.locals
        tag = 'loop in %s' % frame.fname
        if s.orelse or any(isinstance(n, (ast.Break, ast.Return)) for b in s.body for n in ast.walk(b)):
            raise Unsupported('loop contract on a loop with break/return/else')
        if any(isinstance(n, (ast.For, ast.While)) and any(isinstance(c, ast.Continue) for c in ast.walk(n))
               for b in s.body for n in ast.walk(b)):
            raise Unsupported('loop contract on a loop with a nested loop that uses continue')
        if not isinstance(s.target, ast.Name):
            raise Unsupported('loop contract: loop target is not a simple name')
        args = [self.eval(a, frame) for a in s.iter.args]
        if len(args) == 1:
            a, b, step = 0, args[0], 1
        elif len(args) == 2:
            (a, b), step = args, 1
        else:
            a, b, step = args
        if isinstance(step, (SInt, SBool)):
            step = E.concretize(step, what='range step')
        if step == 0:
            raise ValueError('range() arg 3 must not be zero')
        span = (b - a) if step > 0 else (a - b)
        k = abs(step)
        n = sym.Max((span + k - 1) // k if k != 1 else span, 0)
        self.used_loop_contracts.add(frame.fname)
        var = s.target.id
        E.prove_aux(lc['invariant'](L, 0), tag + ': invariant holds on entry')
        for v in sorted(_assigned_names(s.body) - {var}):
            if v in L:
                if isinstance(L[v], bool) or not isinstance(L[v], (int, SInt)):
                    raise Unsupported('loop contract: variable %s is not an integer' % v)
                L[v] = E.fresh('%s.%s' % (frame.fname, v))
        i = E.fresh('%s.#iteration' % frame.fname, 0, None)
        if bool(i < n):
            # an arbitrary iteration
            E.assume(lc['invariant'](L, i))
            L[var] = a + step * i
            before = dict(L)
            try:
                self.exec_block(s.body, frame)
            except _Continue:
                # `continue` of this loop: the iteration ends here
                pass
            E.prove_aux(lc['invariant'](L, i + 1), tag + ': invariant preserved by an arbitrary iteration')
            if lc.get('iteration') is not None:
                lc['iteration'](before, L, i)
            raise PathDone('arbitrary iteration of ' + tag + ' checked')
        # exit: all n iterations done
        E.assume(i == n)
        E.assume(lc['invariant'](L, n))
        if bool(n > 0):
            L[var] = a + step * (n - 1)
        if lc.get('exit') is not None:
            lc['exit'](L, n)

    def x_For(self, s, frame):
        if (frame.fname in self.loop_contracts and engine().mode == 'symbolic' and isinstance(s.iter, ast.Call)
                and isinstance(s.iter.func, ast.Name) and s.iter.func.id in ('range', 'xrange') and not s.iter.keywords):
            return self._for_range_contract(s, frame, self.loop_contracts[frame.fname])
        it = self.eval(s.iter, frame)
        for item in self.iterate(it):
            self.assign(s.target, item, frame)
            try:
                self.exec_block(s.body, frame)
            except _Break:
                return
            except _Continue:
                continue
        self.exec_block(s.orelse, frame)

    def x_Assert(self, s, frame):
        if not self.truth(self.eval(s.test, frame)):
            raise AssertionError(self.eval(s.msg, frame) if s.msg is not None else None)

    def x_Raise(self, s, frame):
        if s.exc is None:
            raise _Reraise()  # resolved by the enclosing except block
        e = self.eval(s.exc, frame)
        if isinstance(e, type):
            e = self.call(e, [], {})
        if not isinstance(e, BaseException):
            raise TypeError('exceptions must derive from BaseException')
        if s.cause is not None:
            cause = self.eval(s.cause, frame)
            raise e from cause
        raise e

    def _match_handler(self, s, e, frame):
        for h in s.handlers:
            if h.type is None:
                return h
            t = self.eval(h.type, frame)
            if isinstance(e, t):
                return h
        return None

    def x_Try(self, s, frame):
        try:
            try:
                self.exec_block(s.body, frame)
            except EngineError:
                raise
            except BaseException as e:
                h = self._match_handler(s, e, frame)
                if h is None:
                    raise
                if h.name:
                    frame.locals[h.name] = e
                self._exec_handler(h, e, frame)
            else:
                self.exec_block(s.orelse, frame)
        finally:
            if s.finalbody:
                self._exec_final(s.finalbody, frame)

    def _exec_final(self, body, frame):
        # a finally block must not run while the engine is abandoning the path
        et = sys.exc_info()[0]
        if et is not None and issubclass(et, (PathEnd, Unsupported)):
            return
        self.exec_block(body, frame)

    def _exec_handler(self, h, e, frame):
        """Run an except body; a bare `raise` re-raises e."""
        try:
            self.exec_block(h.body, frame)
        except _Reraise:
            raise e

    def x_With(self, s, frame):
        self._with(s, 0, frame)

    def _with(self, s, i, frame):
        if i == len(s.items):
            self.exec_block(s.body, frame)
            return
        item = s.items[i]
        mgr = self.eval(item.context_expr, frame)
        val = self._enter(mgr)
        if item.optional_vars is not None:
            self.assign(item.optional_vars, val, frame)
        try:
            self._with(s, i + 1, frame)
        except (PathEnd, Unsupported):
            raise
        except (_Return, _Break, _Continue):
            self._exit(mgr, None)
            raise
        except EngineError:
            raise
        except BaseException as e:
            if not self._exit(mgr, e):
                raise
        else:
            self._exit(mgr, None)

    def _enter(self, mgr):
        return self.call(self.getattr(mgr, '__enter__'), [], {})

    def _exit(self, mgr, e):
        ex = self.getattr(mgr, '__exit__')
        if e is None:
            return self.call(ex, [None, None, None], {})
        return self.truth(self.call(ex, [type(e), e, e.__traceback__], {}))

    def x_FunctionDef(self, s, frame):
        f = self.make_func(s, frame, s.name)
        for d in reversed(s.decorator_list):
            f = self.call(self.eval(d, frame), [f], {})
        frame.locals[s.name] = f

    def x_Import(self, s, frame):
        import importlib
        for a in s.names:
            m = importlib.import_module(a.name)
            if a.asname:
                frame.locals[a.asname] = m
            else:
                frame.locals[a.name.split('.')[0]] = importlib.import_module(a.name.split('.')[0])

    def x_ImportFrom(self, s, frame):
        import importlib
        pkg = frame.globs.get('__package__')
        name = ('.' * s.level) + (s.module or '')
        m = importlib.import_module(name, pkg)
        for a in s.names:
            try:
                v = getattr(m, a.name)
            except AttributeError:
                v = importlib.import_module(name + '.' + a.name if s.module else name + a.name, pkg)
            frame.locals[a.asname or a.name] = v

    def make_func(self, node, frame, name):
        a = node.args
        defaults = [self.eval(d, frame) for d in a.defaults]
        kwd = {}
        for x, d in zip(a.kwonlyargs, a.kw_defaults):
            if d is not None:
                kwd[x.arg] = self.eval(d, frame)
        return IFunc(self, node, defaults, kwd, [frame.locals] + frame.scopes, frame.globs,
                     name, frame.module)

    # ------------------------------------------------------------------
    # names, attributes, items

    def load_name(self, name, frame):
        if name in frame.locals and name not in frame.globals_decl:
            return frame.locals[name]
        if name not in frame.globals_decl:
            for sc in frame.scopes:
                if name in sc:
                    return sc[name]
        if name in frame.globs:
            return frame.globs[name]
        try:
            return getattr(_builtins, name)
        except AttributeError:
            raise NameError("name %r is not defined" % (name,))

    def store_name(self, name, v, frame):
        if name in frame.globals_decl:
            frame.globs[name] = v
        elif name in frame.nonlocal_decl:
            for sc in frame.scopes:
                if name in sc:
                    sc[name] = v
                    return
            raise NameError(name)
        else:
            frame.locals[name] = v

    def assign(self, t, v, frame):
        if isinstance(t, ast.Name):
            self.store_name(t.id, v, frame)
        elif isinstance(t, (ast.Tuple, ast.List)):
            items = list(self.iterate(v))
            star = [i for i, e in enumerate(t.elts) if isinstance(e, ast.Starred)]
            if star:
                i = star[0]
                after = len(t.elts) - i - 1
                if len(items) < len(t.elts) - 1:
                    raise ValueError('not enough values to unpack')
                for e, x in zip(t.elts[:i], items[:i]):
                    self.assign(e, x, frame)
                self.assign(t.elts[i].value, items[i:len(items)-after], frame)
                for e, x in zip(t.elts[i+1:], items[len(items)-after:]):
                    self.assign(e, x, frame)
            else:
                if len(items) > len(t.elts):
                    raise ValueError('too many values to unpack (expected %d)' % len(t.elts))
                if len(items) < len(t.elts):
                    raise ValueError('not enough values to unpack (expected %d, got %d)' % (
                        len(t.elts), len(items)))
                for e, x in zip(t.elts, items):
                    self.assign(e, x, frame)
        elif isinstance(t, ast.Attribute):
            self.setattr(self.eval(t.value, frame), t.attr, v)
        elif isinstance(t, ast.Subscript):
            obj = self.eval(t.value, frame)
            self.setitem(obj, self.eval_index(t.slice, frame), v)
        elif isinstance(t, ast.Starred):
            self.assign(t.value, v, frame)
        else:
            raise Unsupported('assignment target %s' % type(t).__name__)

    def getattr(self, obj, name):
        cls = type(obj)
        if isinstance(obj, (SInt, SBool, SBuf, IFunc)):
            h = self.sym_attr(obj, name)
            if h is not None:
                return h
            return getattr(obj, name)
        if self.is_repo_class(cls):
            # data descriptors / properties / methods defined in the repository
            for k in cls.__mro__:
                d = k.__dict__
                if name in d:
                    a = d[name]
                    if isinstance(a, property):
                        if name in getattr(obj, '__dict__', {}) and a.fset is None and False:
                            break
                        return self.call(a.fget, [obj], {})
                    if isinstance(a, (types.FunctionType, IFunc)):
                        if name in getattr(obj, '__dict__', {}):
                            break
                        return types.MethodType(a, obj)
                    break
            try:
                return getattr(obj, name)
            except AttributeError:
                ga = getattr(cls, '__getattr__', None)
                if ga is not None and self.is_repo_function(ga):
                    return self.call(ga, [obj, name], {})
                raise
        return getattr(obj, name)

    def sym_attr(self, obj, name):
        from . import summaries
        return summaries.sym_attr(self, obj, name)

    def setattr(self, obj, name, v):
        cls = type(obj)
        if self.is_repo_class(cls):
            for k in cls.__mro__:
                a = k.__dict__.get(name)
                if isinstance(a, property):
                    if a.fset is None:
                        raise AttributeError("can't set attribute %r" % name)
                    self.call(a.fset, [obj, v], {})
                    return
                if a is not None:
                    break
            sa = cls.__dict__.get('__setattr__')
            if sa is not None and self.is_repo_function(sa):
                self.call(sa, [obj, name, v], {})
                return
        setattr(obj, name, v)

    def eval_index(self, node, frame):
        if isinstance(node, ast.Slice):
            return slice(
                self.eval(node.lower, frame) if node.lower is not None else None,
                self.eval(node.upper, frame) if node.upper is not None else None,
                self.eval(node.step, frame) if node.step is not None else None)
        if isinstance(node, ast.Tuple):
            return tuple(self.eval_index(e, frame) for e in node.elts)
        return self.eval(node, frame)

    def _dunder(self, obj, name):
        cls = type(obj)
        if self.is_repo_class(cls):
            for k in cls.__mro__:
                a = k.__dict__.get(name)
                if a is not None:
                    if isinstance(a, (types.FunctionType, IFunc)):
                        return a
                    return None
        return None

    def getitem(self, obj, idx):
        d = self._dunder(obj, '__getitem__')
        if d is not None:
            return self.call(d, [obj, idx], {})
        from . import summaries
        return summaries.getitem(self, obj, idx)

    def setitem(self, obj, idx, v):
        d = self._dunder(obj, '__setitem__')
        if d is not None:
            self.call(d, [obj, idx, v], {})
            return
        from . import summaries
        summaries.setitem(self, obj, idx, v)

    def delitem(self, obj, idx):
        d = self._dunder(obj, '__delitem__')
        if d is not None:
            self.call(d, [obj, idx], {})
            return
        from . import summaries
        summaries.delitem(self, obj, idx)

    def iterate(self, it):
        d = self._dunder(it, '__iter__')
        if d is not None:
            return self.iterate(self.call(d, [it], {}))
        from . import summaries
        return summaries.iterate(self, it)

    def truth(self, v):
        if isinstance(v, bool):
            return v
        if isinstance(v, (SBool, SInt)):
            return bool(v)
        if v is None:
            return False
        d = self._dunder(v, '__bool__')
        if d is not None:
            return self.truth(self.call(d, [v], {}))
        d = self._dunder(v, '__len__')
        if d is not None:
            return self.truth(self.call(d, [v], {}) != 0)
        return bool(v)

    # ------------------------------------------------------------------
    # expressions

    def eval(self, n, frame):
        m = getattr(self, 'e_' + type(n).__name__, None)
        if m is None:
            raise Unsupported('expression %s' % type(n).__name__)
        return m(n, frame)

    def e_Constant(self, n, frame):
        return n.value

    def e_Name(self, n, frame):
        return self.load_name(n.id, frame)

    def e_Attribute(self, n, frame):
        return self.getattr(self.eval(n.value, frame), n.attr)

    def e_Subscript(self, n, frame):
        obj = self.eval(n.value, frame)
        return self.getitem(obj, self.eval_index(n.slice, frame))

    def e_Slice(self, n, frame):
        return self.eval_index(n, frame)

    def e_Tuple(self, n, frame):
        return tuple(self._elts(n.elts, frame))

    def e_List(self, n, frame):
        return list(self._elts(n.elts, frame))

    def e_Set(self, n, frame):
        return set(self._elts(n.elts, frame))

    def _elts(self, elts, frame):
        out = []
        for e in elts:
            if isinstance(e, ast.Starred):
                out.extend(self.iterate(self.eval(e.value, frame)))
            else:
                out.append(self.eval(e, frame))
        return out

    def e_Dict(self, n, frame):
        d = {}
        for k, v in zip(n.keys, n.values):
            if k is None:
                d.update(self.eval(v, frame))
            else:
                d[self.hashable(self.eval(k, frame))] = self.eval(v, frame)
        return d

    def hashable(self, k):
        """Keys of native dicts/sets must be concrete."""
        if isinstance(k, (SInt, SBool)):
            if self.symbolic_dict_keys:
                # opt-in: keep the symbolic key object (identity-hashed); sound only where the
                # keys are provably distinct and the dictionary is inspected by value afterwards
                return k
            return sym.engine().concretize(k, what='dictionary key', limit=64)
        if isinstance(k, SBuf):
            if k.is_symbolic():
                raise Unsupported('symbolic buffer as dictionary key')
            return k.native()
        if isinstance(k, tuple):
            return tuple(self.hashable(x) for x in k)
        return k

    def e_BinOp(self, n, frame):
        l = self.eval(n.left, frame)
        r = self.eval(n.right, frame)
        return self.binop(n.op, l, r, False)

    def binop(self, op, l, r, inplace):
        from . import summaries
        return summaries.binop(self, type(op), l, r, inplace)

    def e_UnaryOp(self, n, frame):
        v = self.eval(n.operand, frame)
        if isinstance(n.op, ast.Not):
            if isinstance(v, (SBool, SInt)):
                return sym.Not(v)
            return not self.truth(v)
        if isinstance(n.op, ast.USub):
            return -v
        if isinstance(n.op, ast.UAdd):
            return +v
        if isinstance(n.op, ast.Invert):
            if isinstance(v, SBool):
                v = SInt(zint(v))
            return ~v
        raise Unsupported('unary op')

    def e_BoolOp(self, n, frame):
        # short-circuit: the value of `a and b` is a if a is falsy else b
        is_and = isinstance(n.op, ast.And)
        v = None
        for i, e in enumerate(n.values):
            v = self.eval(e, frame)
            if i == len(n.values) - 1:
                return v
            t = self.truth(v)
            if is_and and not t:
                return v
            if (not is_and) and t:
                return v
        return v

    def e_Compare(self, n, frame):
        left = self.eval(n.left, frame)
        result = True
        for i, (op, c) in enumerate(zip(n.ops, n.comparators)):
            right = self.eval(c, frame)
            result = self.compare(op, left, right)
            if i < len(n.ops) - 1:
                if not self.truth(result):
                    return result
            left = right
        return result

    def compare(self, op, l, r):
        from . import summaries
        return summaries.compare(self, type(op), l, r)

    def e_IfExp(self, n, frame):
        if self.truth(self.eval(n.test, frame)):
            return self.eval(n.body, frame)
        return self.eval(n.orelse, frame)

    def e_Lambda(self, n, frame):
        return self.make_func(n, frame, '<lambda>')

    def e_Call(self, n, frame):
        # super() needs the frame
        if isinstance(n.func, ast.Name) and n.func.id == 'super' and not n.args:
            selfv = frame.locals.get('self')
            cls = self._defining_class(frame, selfv)
            return super(cls, selfv)
        f = self.eval(n.func, frame)
        args = self._elts(n.args, frame)
        kwargs = {}
        for k in n.keywords:
            if k.arg is None:
                kwargs.update(self.eval(k.value, frame))
            else:
                kwargs[k.arg] = self.eval(k.value, frame)
        if f is _builtins.locals:
            return frame.locals
        return self.call(f, args, kwargs)

    def _defining_class(self, frame, selfv):
        for k in type(selfv).__mro__:
            a = k.__dict__.get(frame.fname)
            if isinstance(a, types.FunctionType) and a.__globals__ is frame.globs:
                return k
        raise Unsupported('super() without determinable class')

    def e_JoinedStr(self, n, frame):
        parts = []
        for v in n.values:
            if isinstance(v, ast.Constant):
                parts.append(str(v.value))
            else:
                x = self.eval(v.value, frame)
                parts.append('<sym>' if deep_sym(x) else format(x))
        return ''.join(parts)

    def e_FormattedValue(self, n, frame):
        x = self.eval(n.value, frame)
        return '<sym>' if deep_sym(x) else format(x)

    def e_Starred(self, n, frame):
        raise Unsupported('starred expression')

    def e_NamedExpr(self, n, frame):
        v = self.eval(n.value, frame)
        self.assign(n.target, v, frame)
        return v

    # comprehensions (eager)
    def _comp(self, gens, frame, emit):
        scope = Frame({}, [frame.locals] + frame.scopes, frame.globs, frame.fname, frame.module)
        def rec(i):
            if i == len(gens):
                emit(scope)
                return
            g = gens[i]
            it = self.eval(g.iter, scope if i else frame)
            for item in self.iterate(it):
                self.assign(g.target, item, scope)
                if all(self.truth(self.eval(c, scope)) for c in g.ifs):
                    rec(i + 1)
        rec(0)

    def e_ListComp(self, n, frame):
        out = []
        self._comp(n.generators, frame, lambda sc: out.append(self.eval(n.elt, sc)))
        return out

    def e_GeneratorExp(self, n, frame):
        out = []
        self._comp(n.generators, frame, lambda sc: out.append(self.eval(n.elt, sc)))
        return iter(out)

    def e_SetComp(self, n, frame):
        out = set()
        self._comp(n.generators, frame, lambda sc: out.add(self.hashable(self.eval(n.elt, sc))))
        return out

    def e_DictComp(self, n, frame):
        out = {}
        def emit(sc):
            k = self.hashable(self.eval(n.key, sc))
            out[k] = self.eval(n.value, sc)
        self._comp(n.generators, frame, emit)
        return out

    def e_Yield(self, n, frame):
        raise Unsupported('yield in expression position')

    e_YieldFrom = e_Yield


_PURE = (ast.BinOp, ast.UnaryOp, ast.Compare, ast.BoolOp, ast.IfExp, ast.Name, ast.Constant,
         ast.Load, ast.Store, ast.operator, ast.unaryop, ast.cmpop, ast.boolop, ast.Attribute)

def _mergeable(s):
    for body in (s.body, s.orelse):
        for st in body:
            if isinstance(st, ast.Pass):
                continue
            if isinstance(st, ast.Assign):
                if not all(isinstance(t, ast.Name) for t in st.targets):
                    return False
                val = st.value
            elif isinstance(st, ast.AugAssign):
                if not isinstance(st.target, ast.Name):
                    return False
                val = st.value
            else:
                return False
            for n in ast.walk(val):
                if not isinstance(n, _PURE):
                    return False
                if isinstance(n, ast.Attribute) and not (isinstance(n.value, ast.Name) and n.value.id == 'self'):
                    return False
    return True


def _contains_yield(node):
    for n in _walk_no_nested(node):
        if isinstance(n, (ast.Yield, ast.YieldFrom)):
            return True
    return False

def _walk_no_nested(node):
    todo = [node]
    first = True
    while todo:
        n = todo.pop()
        if not first and isinstance(n, (ast.FunctionDef, ast.Lambda, ast.ClassDef)):
            continue
        first = False
        yield n
        todo.extend(ast.iter_child_nodes(n))

def _is_generator(node):
    for s in node.body:
        if _contains_yield(s):
            return True
    return False
