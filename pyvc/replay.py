"""
pyvc.replay - run one task natively on concrete inputs against the real code.

usage: python -m pyvc.replay <file.json | ->   (file: {property, task, case, inputs})
Prints 'REPLAY-RESULT {json}' with the labels of the obligations that failed natively.
"""

import sys
import os
import json
import importlib


def main():
    arg = sys.argv[1]
    payload = json.load(sys.stdin) if arg == '-' else json.load(open(arg))
    here = os.path.dirname(os.path.dirname(os.path.abspath(__file__)))
    repo = os.environ.get('VERIF_REPO', payload.get('repo') or '/repo')
    os.environ['VERIF_REPO'] = repo
    for p in (here, repo):
        if p not in sys.path:
            sys.path.insert(0, p)
    from pyvc.engine import Engine
    mod = importlib.import_module('contracts.%s' % payload['property'])
    task = [t for t in mod.TASKS if t.name == payload['task']][0]
    E = Engine(mode='native', inputs=payload.get('inputs') or {})
    res = {'failed': [], 'passed': [], 'error': None}
    try:
        from pyvc.api import dec_case
        E.explore(task.fn, **(dec_case(payload.get('case') or {})))
        for r in E.results:
            (res['passed'] if r['status'] == 'discharged' else res['failed']).append(r['label'])
    except BaseException as e:
        import traceback
        res['error'] = '%s: %s | %s' % (type(e).__name__, e, traceback.format_exc()[-1200:])
    print('REPLAY-RESULT ' + json.dumps(res))
    if arg != '-':
        print('obligation %s:%s on inputs %s -> %s' % (
            payload['task'], payload.get('obligation'), payload.get('inputs'),
            'FAILS on the real code' if res['failed'] else 'holds on the real code'))
    return 0


if __name__ == '__main__':
    sys.exit(main())
