"""
pyvc.summaries - trusted summaries of builtins and library functions on symbolic values.

Each summary states what CPython does for the argument shapes the repository uses,
including the *may-raise* condition (struct.error outside the format's range, IndexError,
KeyError, ValueError ...). They are part of the trusted base and are cross-checked against
CPython by `pyvc selftest` (concrete-interp vs native runs of the same tasks).
"""

import ast
import struct
import operator
import builtins
import types

from . import sym
from .sym import (SInt, SBool, SBuf, SByte, SRegion, Unsupported, EngineError, is_sym, deep_sym, mk_int, mk_bool,
                  zint, zbool, z3, And, Or, Not, Max)


_STRUCT_CODES = {
    'b': (1, True), 'B': (1, False), 'h': (2, True), 'H': (2, False),
    'l': (4, True), 'L': (4, False), 'i': (4, True), 'I': (4, False),
    'q': (8, True), 'Q': (8, False),
}

def _parse_fmt(fmt):
    if isinstance(fmt, bytes):
        fmt = fmt.decode('ascii')
    order = '<'
    if fmt and fmt[0] in '<>=!@':
        order = fmt[0]
        fmt = fmt[1:]
    if order in '=@':
        order = '<'
    if order == '!':
        order = '>'
    items = []
    num = ''
    for ch in fmt:
        if ch.isdigit():
            num += ch
            continue
        if ch == ' ':
            continue
        if ch not in _STRUCT_CODES:
            raise Unsupported('struct format %r' % fmt)
        for _ in range(int(num) if num else 1):
            items.append(_STRUCT_CODES[ch])
        num = ''
    return order, items


def _unpack_cells(order, items, cells):
    out = []
    pos = 0
    for size, signed in items:
        cs = cells[pos:pos+size]
        pos += size
        if order == '>':
            cs = list(reversed(cs))
        v = _assemble(cs)
        if signed:
            lim = 1 << (8*size - 1)
            if isinstance(v, SInt):
                v = mk_int(z3.If(v.t >= lim, v.t - 2*lim, v.t))
            elif v >= lim:
                v -= 2*lim
        out.append(v)
    return tuple(out)


_assemble = sym.assemble_le


def _pack_cells(order, items, vals):
    if len(vals) != len(items):
        raise struct.error('pack expected %d items for packing (got %d)' % (len(items), len(vals)))
    cells = []
    for (size, signed), v in zip(items, vals):
        if isinstance(v, SBool):
            v = SInt(zint(v))
        if not isinstance(v, (int, SInt)):
            raise struct.error('required argument is not an integer')
        lo, hi = (-(1 << (8*size-1)), (1 << (8*size-1)) - 1) if signed else (0, (1 << (8*size)) - 1)
        inrange = And(v >= lo, v <= hi)
        if not bool(inrange):
            raise struct.error('argument out of range')
        if signed:
            if isinstance(v, SInt):
                v = mk_int(z3.If(v.t < 0, v.t + (1 << (8*size)), v.t))
            elif v < 0:
                v += 1 << (8*size)
        cs = []
        for i in range(size):
            if isinstance(v, SInt):
                t = v.t / (1 << (8*i)) if i else v.t
                t = (t % 256) if i < size - 1 else t
                cs.append(SByte(t, v.t, i, size) if size > 1 else mk_int(t))
            else:
                cs.append((v >> (8*i)) & 0xff)
        if order == '>':
            cs.reverse()
        cells.extend(cs)
    return cells


def _bufcells(b):
    if isinstance(b, SBuf):
        return b.cells()
    return list(bytes(b))


def s_unpack(I, args, kw):
    fmt, buf = args
    if not isinstance(buf, SBuf) or not buf.is_symbolic():
        return struct.unpack(fmt, buf.native() if isinstance(buf, SBuf) else buf)
    order, items = _parse_fmt(fmt)
    cells = _bufcells(buf)
    need = sum(s for s, _ in items)
    if len(cells) != need:
        raise struct.error('unpack requires a buffer of %d bytes' % need)
    return _unpack_cells(order, items, cells)

def s_unpack_from(I, args, kw):
    fmt, buf = args[0], args[1]
    off = args[2] if len(args) > 2 else kw.get('offset', 0)
    off = sym.engine().concretize(off) if isinstance(off, SInt) else off
    order, items = _parse_fmt(fmt)
    cells = _bufcells(buf)
    need = sum(s for s, _ in items)
    if off < 0:
        off += len(cells)
    if off < 0 or len(cells) - off < need:
        raise struct.error('unpack_from requires a buffer of at least %d bytes' % (need + off))
    return _unpack_cells(order, items, cells[off:off+need])

def s_pack(I, args, kw):
    fmt = args[0]
    if not any(isinstance(v, (SInt, SBool)) or (isinstance(v, SBuf) and v.is_symbolic()) for v in args[1:]):
        return struct.pack(fmt, *[v.native() if isinstance(v, SBuf) else v for v in args[1:]])
    order, items = _parse_fmt(fmt)
    return SBuf(_pack_cells(order, items, list(args[1:])), 'bytes')

def s_pack_into(I, args, kw):
    fmt, buf, off = args[0], args[1], args[2]
    off = sym.engine().concretize(off) if isinstance(off, SInt) else off
    order, items = _parse_fmt(fmt)
    cells = _pack_cells(order, items, list(args[3:]))
    if not isinstance(buf, SBuf):
        struct.pack_into(fmt, buf, off, *[sym.engine().concretize(v) for v in args[3:]])
        return None
    if off < 0:
        off += len(buf)
    if off < 0 or off + len(cells) > len(buf):
        raise struct.error('pack_into requires a buffer of at least %d bytes' % (off + len(cells)))
    buf[off:off+len(cells)] = SBuf(cells, 'bytes')
    return None


def s_int2byte(I, args, kw):
    (v,) = args
    if isinstance(v, (SInt, SBool)):
        return SBuf(_pack_cells('>', [(1, False)], [v]), 'bytes')
    return struct.Struct('>B').pack(v)


def s_bytearray(I, args, kw):
    if not args:
        return SBuf([], 'bytearray')
    x = args[0]
    if isinstance(x, SRegion):
        return SRegion(x.n, kind='bytearray', tag=('copy', x))
    if isinstance(x, SInt):
        # symbolic size: content not modelled
        if bool(x < 0):
            raise ValueError('negative count')
        return SRegion(x)
    if isinstance(x, SBool):
        x = sym.engine().concretize(x)
    if isinstance(x, int):
        if x < 0:
            raise ValueError('negative count')
        return SBuf([0]*x, 'bytearray')
    if isinstance(x, (SBuf, bytes, bytearray, memoryview)):
        return SBuf.of(x, 'bytearray')
    if isinstance(x, str):
        return SBuf.of(bytearray(x, *args[1:]), 'bytearray')
    return SBuf.of(list(I.iterate(x)), 'bytearray')

def s_bytes(I, args, kw):
    if not args:
        return b''
    x = args[0]
    if isinstance(x, SRegion):
        return SRegion(x.n, kind='bytes', tag=('copy', x))
    if isinstance(x, bytes):
        return x
    if isinstance(x, (bytearray, memoryview)):
        return bytes(x)
    if isinstance(x, SBuf):
        if not x.is_symbolic():
            return x.native()
        return SBuf(x.cells(), 'bytes')
    if isinstance(x, (SInt, SBool)):
        x = sym.engine().concretize(x)
    if isinstance(x, int):
        return bytes(x)
    if isinstance(x, str):
        return bytes(x, *args[1:], **kw)
    cells = list(I.iterate(x))
    if any(isinstance(c, (SInt, SBool)) for c in cells):
        return SBuf.of(cells, 'bytes')
    return bytes(cells)

def s_memoryview(I, args, kw):
    (x,) = args
    if isinstance(x, SRegion):
        return SRegion(x.n, x.off, x.root, 'view')
    if isinstance(x, SBuf):
        return SBuf(x.store, 'view', x.off, x.n, share=True)
    if isinstance(x, (bytes,)):
        return SBuf(list(x), 'view')
    if isinstance(x, (bytearray, memoryview)):
        # native mutable buffer: aliasing would be lost
        raise Unsupported('memoryview of native mutable buffer')
    raise TypeError('memoryview: a bytes-like object is required')


_KIND_TYPES = {'bytes': bytes, 'bytearray': bytearray, 'view': memoryview}

def sym_type(x):
    if isinstance(x, SInt):
        return int
    if isinstance(x, SBool):
        return bool
    if isinstance(x, SBuf):
        return _KIND_TYPES[x.kind]
    return type(x)

def s_isinstance(I, args, kw):
    obj, cls = args
    if isinstance(obj, (SInt, SBool, SBuf)):
        t = sym_type(obj)
        if isinstance(cls, tuple):
            return any(isinstance(c, type) and issubclass(t, c) for c in cls)
        return issubclass(t, cls)
    return isinstance(obj, cls)

def s_type(I, args, kw):
    if len(args) == 1:
        return sym_type(args[0])
    return type(*args, **kw)

def s_int(I, args, kw):
    if not args:
        return 0
    x = args[0]
    if isinstance(x, SInt):
        return x
    if isinstance(x, SBool):
        return SInt(zint(x))
    if isinstance(x, SBuf):
        if x.is_symbolic():
            base = args[1] if len(args) > 1 else kw.get('base', 10)
            return parse_int(x, base)
        return int(x.native(), *args[1:], **kw)
    return int(x, *args[1:], **kw)


def parse_int(buf, base):
    """int(bytes, base) for symbolic bytes.

    Modelled only where every byte is a digit of the base (the general CPython grammar -
    whitespace, sign, underscores, 0x prefixes - is outside the subset): a byte that can be a
    non-digit makes the path undecided rather than guessing.
    """
    cs = buf.cells()
    if not cs:
        raise ValueError('invalid literal for int()')
    v = 0
    for c in cs:
        if isinstance(c, SInt):
            isdec = And(c >= 48, c <= min(57, 47 + base))
            isup = And(c >= 65, c <= 54 + base) if base > 10 else False
            islo = And(c >= 97, c <= 86 + base) if base > 10 else False
            if not bool(Or(isdec, isup, islo)):
                raise Unsupported('int() of a symbolic byte that may not be a digit')
            d = sym.If(isdec, c - 48, sym.If(isup, c - 55, c - 87))
        else:
            ch = bytes([c])
            if ch in b'_+- \t\n\r\x0b\x0c':
                raise Unsupported('int() grammar beyond plain digits')
            d = int(ch, base)   # ValueError for non-digits, as CPython
        v = v * base + d
    return v

def s_bool(I, args, kw):
    if not args:
        return False
    x = args[0]
    if isinstance(x, SBool):
        return x
    if isinstance(x, SInt):
        return x != 0
    return I.truth(x)

def s_ord(I, args, kw):
    (x,) = args
    if isinstance(x, SBuf):
        if len(x) != 1:
            raise TypeError('ord() expected a character, but string of length %d found' % len(x))
        return x[0]
    return ord(x)

def s_len(I, args, kw):
    (x,) = args
    if isinstance(x, SRegion):
        return x.n
    d = I._dunder(x, '__len__')
    if d is not None:
        return I.call(d, [x], {})
    return len(x)

def s_abs(I, args, kw):
    return abs(args[0])

def s_hash(I, args, kw):
    return hash(I.hashable(args[0]))

def s_map(I, args, kw):
    f = args[0]
    its = [list(I.iterate(a)) for a in args[1:]]
    return iter([I.call(f, list(xs), {}) for xs in zip(*its)])

def s_filter(I, args, kw):
    f, it = args
    if f is None:
        return iter([x for x in I.iterate(it) if I.truth(x)])
    return iter([x for x in I.iterate(it) if I.truth(I.call(f, [x], {}))])

def s_sorted(I, args, kw):
    items = list(I.iterate(args[0]))
    key = kw.get('key')
    rev = kw.get('reverse', False)
    if key is not None:
        keyed = [(I.call(key, [x], {}), i, x) for i, x in enumerate(items)]
        keyed.sort(key=lambda t: _Ord(t[0]), reverse=bool(rev))
        return [x for _, _, x in keyed]
    return sorted(items, key=_Ord, reverse=bool(rev))

class _Ord(object):
    """Sort key wrapper using (possibly forking) symbolic comparison."""
    def __init__(self, v):
        self.v = v
    def __lt__(self, o):
        return bool(_lt(self.v, o.v))

def _lt(a, b):
    if isinstance(a, tuple) and isinstance(b, tuple):
        for x, y in zip(a, b):
            if bool(x == y):
                continue
            return _lt(x, y)
        return len(a) < len(b)
    return a < b

def s_list(I, args, kw):
    if not args:
        return []
    return list(I.iterate(args[0]))

def s_tuple(I, args, kw):
    if not args:
        return ()
    return tuple(I.iterate(args[0]))

def s_set(I, args, kw):
    if not args:
        return set()
    return set(I.hashable(x) for x in I.iterate(args[0]))

def s_frozenset(I, args, kw):
    if not args:
        return frozenset()
    return frozenset(I.hashable(x) for x in I.iterate(args[0]))

def s_dict(I, args, kw):
    d = {}
    if args:
        src = args[0]
        if isinstance(src, dict):
            d.update(src)
        else:
            for k, v in I.iterate(src):
                d[I.hashable(k)] = v
    d.update(kw)
    return d

def s_iter(I, args, kw):
    if len(args) == 1:
        return iter(I.iterate(args[0]))
    return iter(*args)

def s_next(I, args, kw):
    it = args[0]
    d = I._dunder(it, '__next__')
    if d is not None:
        try:
            return I.call(d, [it], {})
        except StopIteration:
            if len(args) > 1:
                return args[1]
            raise
    return next(*args)

def s_any(I, args, kw):
    for x in I.iterate(args[0]):
        if I.truth(x):
            return True
    return False

def s_all(I, args, kw):
    for x in I.iterate(args[0]):
        if not I.truth(x):
            return False
    return True

def s_sum(I, args, kw):
    tot = args[1] if len(args) > 1 else 0
    for x in I.iterate(args[0]):
        tot = tot + x
    return tot

def s_min(I, args, kw):
    return _minmax(I, args, kw, operator.lt)

def s_max(I, args, kw):
    return _minmax(I, args, kw, operator.gt)

def _minmax(I, args, kw, better):
    key = kw.get('key')
    items = list(I.iterate(args[0])) if len(args) == 1 else list(args)
    if not items:
        if 'default' in kw:
            return kw['default']
        raise ValueError('min()/max() arg is an empty sequence')
    best = items[0]
    bk = I.call(key, [best], {}) if key else best
    for x in items[1:]:
        xk = I.call(key, [x], {}) if key else x
        if I.truth(better(xk, bk)):
            best, bk = x, xk
    return best

def s_getattr(I, args, kw):
    try:
        return I.getattr(args[0], args[1])
    except AttributeError:
        if len(args) > 2:
            return args[2]
        raise

def s_setattr(I, args, kw):
    I.setattr(args[0], args[1], args[2])

def s_hasattr(I, args, kw):
    try:
        I.getattr(args[0], args[1])
        return True
    except AttributeError:
        return False

def s_divmod(I, args, kw):
    a, b = args
    return (a // b, a % b)

def s_round(I, args, kw):
    x = args[0]
    if isinstance(x, (SInt, int)) and len(args) == 1:
        return x
    if deep_sym(x):
        raise Unsupported('round of symbolic value')
    return round(*args)

def s_super(I, args, kw):
    return super(*args)

def s_enumerate(I, args, kw):
    return enumerate(list(I.iterate(args[0])), *args[1:], **kw)

def s_zip(I, args, kw):
    # lazy, like the builtin: one item is pulled from each argument in turn and the first
    # exhausted argument stops the zip (a shared iterator must not be drained)
    its = [iter(I.iterate(a)) for a in args]
    def gen():
        if not its:
            return
        while True:
            row = []
            for it in its:
                try:
                    row.append(next(it))
                except StopIteration:
                    return
            yield tuple(row)
    return gen()

def s_reversed(I, args, kw):
    x = args[0]
    d = I._dunder(x, '__reversed__')
    if d is not None:
        return I.call(d, [x], {})
    if isinstance(x, (list, tuple, range, bytes, bytearray, str, dict)):
        return reversed(x)
    return reversed(list(I.iterate(x)))

def s_print(I, args, kw):
    return None

def s_repr(I, args, kw):
    x = args[0]
    if deep_sym(x) or I.is_repo_class(type(x)):
        return '<%s>' % type(x).__name__
    return repr(x)

def s_str(I, args, kw):
    if not args:
        return ''
    x = args[0]
    if deep_sym(x):
        return '<sym>'
    if I.is_repo_class(type(x)):
        d = I._dunder(x, '__str__')
        if d is not None:
            return I.call(d, [x], {})
        return '<%s>' % type(x).__name__
    return str(*args, **kw)

def s_id(I, args, kw):
    return id(args[0])

def s_callable(I, args, kw):
    return callable(args[0])


def s_range(I, args, kw):
    """range with symbolic bounds: the *count* is made concrete (forking), the elements stay symbolic."""
    if not any(isinstance(a, (SInt, SBool)) for a in args):
        return range(*args)
    if len(args) == 1:
        start, stop, step = 0, args[0], 1
    elif len(args) == 2:
        (start, stop), step = args, 1
    else:
        start, stop, step = args
    E = sym.engine()
    if isinstance(step, (SInt, SBool)):
        step = E.concretize(step, what='range step')
    if step != 1:
        start = E.concretize(start, what='range start') if isinstance(start, (SInt, SBool)) else start
        stop = E.concretize(stop, what='range stop') if isinstance(stop, (SInt, SBool)) else stop
        return range(start, stop, step)
    d = stop - start
    if isinstance(d, SInt):
        t = z3.simplify(d.t)
        n = t.as_long() if z3.is_int_value(t) else E.concretize(Max(d, 0), what='range length', limit=256)
    else:
        n = d
    return [start + i for i in range(max(0, n))]


def s_bytesio(I, args, kw):
    import io
    init = args[0] if args else b''
    if sym.engine().mode == 'symbolic' and (getattr(I, 'symbolic_bytesio', False)
                                            or (isinstance(init, SBuf) and init.is_symbolic())):
        return sym.SStream(init)
    if isinstance(init, SBuf):
        init = init.native()
    return io.BytesIO(init)


def install(I):
    S = I.summaries
    import io as _io
    S[_io.BytesIO] = s_bytesio
    S[range] = s_range
    S[struct.unpack] = s_unpack
    S[struct.unpack_from] = s_unpack_from
    S[struct.pack] = s_pack
    S[struct.pack_into] = s_pack_into
    S[bytearray] = s_bytearray
    S[bytes] = s_bytes
    S[memoryview] = s_memoryview
    S[isinstance] = s_isinstance
    S[type] = s_type
    S[int] = s_int
    S[bool] = s_bool
    S[ord] = s_ord
    S[len] = s_len
    S[abs] = s_abs
    S[hash] = s_hash
    S[map] = s_map
    S[filter] = s_filter
    S[sorted] = s_sorted
    S[list] = s_list
    S[tuple] = s_tuple
    S[set] = s_set
    S[frozenset] = s_frozenset
    S[dict] = s_dict
    S[iter] = s_iter
    S[next] = s_next
    S[any] = s_any
    S[all] = s_all
    S[sum] = s_sum
    S[min] = s_min
    S[max] = s_max
    S[getattr] = s_getattr
    S[setattr] = s_setattr
    S[hasattr] = s_hasattr
    S[divmod] = s_divmod
    S[round] = s_round
    S[enumerate] = s_enumerate
    S[zip] = s_zip
    S[reversed] = s_reversed
    S[print] = s_print
    S[repr] = s_repr
    S[str] = s_str
    S[id] = s_id
    S[callable] = s_callable
    try:
        from pcbasic.compat import int2byte
        S[int2byte] = s_int2byte
    except Exception:  # pragma: no cover
        pass
    import logging
    for f in (logging.debug, logging.info, logging.warning, logging.error, logging.critical):
        S[f] = s_print


###############################################################################
# operators

_DUNDER = {
    ast.Add: ('__add__', '__radd__', '__iadd__'), ast.Sub: ('__sub__', '__rsub__', '__isub__'),
    ast.Mult: ('__mul__', '__rmul__', '__imul__'), ast.FloorDiv: ('__floordiv__', '__rfloordiv__', '__ifloordiv__'),
    ast.Mod: ('__mod__', '__rmod__', '__imod__'), ast.Div: ('__truediv__', '__rtruediv__', '__itruediv__'),
    ast.Pow: ('__pow__', '__rpow__', '__ipow__'),
    ast.LShift: ('__lshift__', '__rlshift__', '__ilshift__'), ast.RShift: ('__rshift__', '__rrshift__', '__irshift__'),
    ast.BitAnd: ('__and__', '__rand__', '__iand__'), ast.BitOr: ('__or__', '__ror__', '__ior__'),
    ast.BitXor: ('__xor__', '__rxor__', '__ixor__'),
    ast.MatMult: ('__matmul__', '__rmatmul__', '__imatmul__'),
}

_OPS = {
    ast.Add: operator.add, ast.Sub: operator.sub, ast.Mult: operator.mul,
    ast.FloorDiv: operator.floordiv, ast.Mod: operator.mod, ast.Div: operator.truediv,
    ast.Pow: operator.pow, ast.LShift: operator.lshift, ast.RShift: operator.rshift,
    ast.BitAnd: operator.and_, ast.BitOr: operator.or_, ast.BitXor: operator.xor,
    ast.MatMult: operator.matmul,
}
_IOPS = {
    ast.Add: operator.iadd, ast.Sub: operator.isub, ast.Mult: operator.imul,
    ast.FloorDiv: operator.ifloordiv, ast.Mod: operator.imod, ast.Div: operator.itruediv,
    ast.Pow: operator.ipow, ast.LShift: operator.ilshift, ast.RShift: operator.irshift,
    ast.BitAnd: operator.iand, ast.BitOr: operator.ior, ast.BitXor: operator.ixor,
    ast.MatMult: operator.imatmul,
}


def binop(I, op, l, r, inplace):
    # operators defined by repository classes are interpreted
    names = _DUNDER[op]
    if inplace:
        d = I._dunder(l, names[2])
        if d is not None:
            res = I.call(d, [l, r], {})
            if res is not NotImplemented:
                return res
    d = I._dunder(l, names[0])
    if d is not None:
        res = I.call(d, [l, r], {})
        if res is not NotImplemented:
            return res
    d = I._dunder(r, names[1])
    if d is not None:
        res = I.call(d, [r, l], {})
        if res is not NotImplemented:
            return res
    # %-formatting
    if op is ast.Mod and isinstance(l, (bytes, str)):
        if deep_sym(r):
            return format_sym(l, r)
        return l % r
    if op is ast.Div and isinstance(l, SInt) and not isinstance(r, (SInt, SBool)):
        return l.__truediv__(r)
    if op is ast.Div and (isinstance(l, (SInt, SBool)) or isinstance(r, (SInt, SBool))):
        raise Unsupported('true division with symbolic operand')
    if isinstance(l, float) and isinstance(r, (SInt, SBool)) or isinstance(r, float) and isinstance(l, (SInt, SBool)):
        raise Unsupported('float arithmetic with symbolic operand')
    f = (_IOPS if inplace else _OPS)[op]
    try:
        return f(l, r)
    except TypeError as e:
        if deep_sym(l) or deep_sym(r):
            raise Unsupported('operator %s on %s, %s: %s' % (
                op.__name__, type(l).__name__, type(r).__name__, e))
        raise


def format_sym(fmt, arg):
    """`fmt % arg` with symbolic arguments: literal text and %d %s %X %x %o %% directives."""
    if isinstance(fmt, str):
        return '<formatted>'
    args = list(arg) if isinstance(arg, tuple) else [arg]
    out = SBuf([], 'bytes')
    i = 0
    n = len(fmt)
    while i < n:
        c = fmt[i:i+1]
        if c != b'%':
            out = out + c
            i += 1
            continue
        d = fmt[i+1:i+2]
        i += 2
        if d == b'%':
            out = out + b'%'
            continue
        if d not in (b'd', b's', b'X', b'x', b'o') or not args:
            raise Unsupported('bytes %%-format with symbolic arguments: %r' % (fmt,))
        a = args.pop(0)
        if d == b's':
            if not isinstance(a, (bytes, bytearray, SBuf)):
                raise Unsupported('%%s of a non-bytes value')
            out = out + a
        elif isinstance(a, (SInt, SBool)):
            out = out + int_to_digits(a, {b'd': 10, b'X': 16, b'x': 16, b'o': 8}[d], upper=(d != b'x'))
        else:
            out = out + ((b'%' + d) % a)
    if args:
        raise TypeError('not all arguments converted during bytes formatting')
    return out


def int_to_digits(v, base, upper=True):
    """Digits of a symbolic integer in the given base (forks on the number of digits)."""
    E = sym.engine()
    neg = bool(v < 0)
    a = -v if neg else v
    # number of digits: fork on magnitude
    ndig = 1
    p = base
    while bool(a >= p):
        ndig += 1
        p *= base
        if ndig > 40:
            raise Unsupported('integer too wide for digit conversion')
    cells = []
    for i in reversed(range(ndig)):
        d = (a // (base ** i)) % base
        if isinstance(d, SInt):
            if base <= 10:
                c = d + 48
            else:
                c = sym.If(d < 10, d + 48, d + (55 if upper else 87))
        else:
            c = ord(('0123456789ABCDEF' if upper else '0123456789abcdef')[d])
        cells.append(c)
    if neg:
        cells.insert(0, 45)
    return SBuf(cells, 'bytes')


def compare(I, op, l, r):
    if op is ast.Is:
        return l is r
    if op is ast.IsNot:
        return l is not r
    if op in (ast.In, ast.NotIn):
        res = contains(I, r, l)
        return res if op is ast.In else (Not(res) if isinstance(res, (SBool,)) else not res)
    name = {ast.Eq: '__eq__', ast.NotEq: '__ne__', ast.Lt: '__lt__', ast.LtE: '__le__',
            ast.Gt: '__gt__', ast.GtE: '__ge__'}[op]
    d = I._dunder(l, name)
    if d is not None:
        res = I.call(d, [l, r], {})
        if res is not NotImplemented:
            return res
    if op is ast.NotEq:
        d = I._dunder(l, '__eq__')
        if d is not None:
            res = I.call(d, [l, r], {})
            if res is not NotImplemented:
                return Not(res) if isinstance(res, SBool) else (not I.truth(res))
    f = {ast.Eq: operator.eq, ast.NotEq: operator.ne, ast.Lt: operator.lt, ast.LtE: operator.le,
         ast.Gt: operator.gt, ast.GtE: operator.ge}[op]
    if op in (ast.Eq, ast.NotEq) and (isinstance(l, (tuple, list)) and isinstance(r, (tuple, list))
                                       and type(l) == type(r) and (deep_sym(l) or deep_sym(r))):
        if len(l) != len(r):
            return op is ast.NotEq
        res = And(*[compare(I, ast.Eq, a, b) for a, b in zip(l, r)])
        return res if op is ast.Eq else Not(res)
    return f(l, r)


def contains(I, container, x):
    d = I._dunder(container, '__contains__')
    if d is not None:
        return I.truth(I.call(d, [container, x], {}))
    if isinstance(x, (SInt, SBool)):
        if isinstance(container, (tuple, list, set, frozenset, range)):
            return Or(*[x == c for c in container if isinstance(c, (int, SInt, SBool))]) if len(container) else False
        if isinstance(container, dict):
            return Or(*[x == c for c in container.keys() if isinstance(c, (int, SInt, SBool))]) if container else False
        if isinstance(container, (bytes, bytearray)):
            return Or(*[x == c for c in set(container)]) if container else False
        if isinstance(container, SBuf):
            return Or(*[x == c for c in container.cells()]) if len(container) else False
    if isinstance(x, SBuf):
        if isinstance(container, (bytes, bytearray, SBuf)):
            if len(x) == 1:
                cs = container.cells() if isinstance(container, SBuf) else list(set(container))
                return Or(*[x[0] == c for c in cs]) if cs else False
            if len(x) == 0:
                return True
            if not x.is_symbolic() and not isinstance(container, SBuf):
                return x.native() in container
            raise Unsupported('substring test with symbolic buffers')
        if isinstance(container, (tuple, list, set, frozenset)):
            return Or(*[x == c for c in container if isinstance(c, (bytes, bytearray, SBuf))]) if len(container) else False
        if isinstance(container, dict):
            if not x.is_symbolic():
                return x.native() in container
            return Or(*[x == c for c in container.keys() if isinstance(c, (bytes, bytearray))]) if container else False
    if isinstance(container, SBuf):
        if isinstance(x, int):
            return Or(*[x == c for c in container.cells()]) if len(container) else False
        if isinstance(x, (bytes, bytearray)):
            if not container.is_symbolic():
                return bytes(x) in container.native()
            if len(x) == 1:
                return Or(*[x[0] == c for c in container.cells()]) if len(container) else False
            raise Unsupported('substring test with symbolic buffers')
    if isinstance(container, (tuple, list)) and any(deep_sym(c) for c in container):
        return Or(*[compare(I, ast.Eq, x, c) for c in container])
    if isinstance(container, dict) and isinstance(x, int) and not isinstance(x, bool) \
            and any(isinstance(c, (SInt, SBool)) for c in container.keys()):
        return Or(*[x == c for c in container.keys() if isinstance(c, (int, SInt, SBool))])
    return x in container


def getitem(I, obj, idx):
    if isinstance(obj, dict) and isinstance(idx, (SInt, SBool, SBuf, tuple)):
        return dict_lookup(I, obj, idx)
    if isinstance(obj, (list, tuple)) and isinstance(idx, slice):
        idx = _conc_slice(idx)
    return obj[idx]


def _conc_slice(s):
    E = sym.engine
    def c(v):
        if isinstance(v, (SInt, SBool)):
            return E().concretize(v)
        return v
    return slice(c(s.start), c(s.stop), c(s.step))


def dict_lookup(I, d, key):
    """d[key] with a (possibly) symbolic key: decide which concrete key it equals."""
    if isinstance(key, SBuf) and not key.is_symbolic():
        return d[key.native()]
    if isinstance(key, tuple) and not deep_sym(key):
        return d[key]
    for k in list(d.keys()):
        if isinstance(key, tuple) != isinstance(k, tuple):
            continue
        eq = compare(I, ast.Eq, key, k) if isinstance(key, tuple) else (key == k)
        if I.truth(eq):
            return d[k]
    raise KeyError(key)


def _canon_key(I, d, idx):
    """The key object of d that idx equals on this path (deciding the equality, forking if open),
    or the hashable form of idx itself: keeps dictionaries with symbolic integer keys by-value."""
    if isinstance(idx, (SInt, SBool)) or (isinstance(idx, int) and any(isinstance(k, (SInt, SBool)) for k in d.keys())):
        for k in list(d.keys()):
            if isinstance(k, (int, SInt, SBool)) and not (isinstance(k, int) and isinstance(idx, int)):
                if I.truth(idx == k):
                    return k
            elif isinstance(k, int) and isinstance(idx, int) and k == idx:
                return k
    return I.hashable(idx)


def setitem(I, obj, idx, v):
    if isinstance(obj, dict):
        obj[_canon_key(I, obj, idx)] = v
        return
    if isinstance(obj, (bytearray, memoryview)) and deep_sym(v):
        raise Unsupported('symbolic value stored into native buffer')
    if isinstance(obj, (list,)) and isinstance(idx, slice):
        idx = _conc_slice(idx)
    obj[idx] = v


def delitem(I, obj, idx):
    if isinstance(obj, dict):
        del obj[_canon_key(I, obj, idx)]
        return
    if isinstance(idx, slice):
        idx = _conc_slice(idx)
    del obj[idx]


def iterate(I, it):
    if isinstance(it, SBuf):
        return iter(it.cells())
    d = I._dunder(it, '__next__')
    if d is not None:
        def gen():
            while True:
                try:
                    yield I.call(d, [it], {})
                except StopIteration:
                    return
        return gen()
    return iter(it)


def sym_attr(I, obj, name):
    return None
