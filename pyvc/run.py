"""
pyvc.run - driver: `python -m pyvc.run <property> [--tier quick|thorough]`

Exit codes: 0 every obligation generated from the current tree discharged (known findings
reported as KNOWN-FINDING); 1 a refuted obligation (VIOLATION line, replay file);
2 undecided (solver unknown / construct outside the subset), no VIOLATION line;
3 checker error (crash, canary that did not fire, zero obligations).
"""

import os
import sys
import json
import time
import importlib
import traceback
import subprocess
import multiprocessing

VERIF = os.path.dirname(os.path.dirname(os.path.abspath(__file__)))
NATIVE_PY = '/venv/bin/python'


def repo_root():
    return os.environ.get('VERIF_REPO', '/repo')


def load_contract(prop):
    return importlib.import_module('contracts.%s' % prop)


def load_known(prop):
    path = os.path.join(VERIF, 'known_findings.jsonl')
    out = {}
    fixed = []
    if os.path.exists(path):
        for line in open(path):
            line = line.strip()
            if not line or line.startswith('#'):
                continue
            rec = json.loads(line)
            if rec.get('property') != prop:
                continue
            if rec.get('status') == 'open':
                out[rec['id']] = rec
            else:
                fixed.append(rec)
    return out, fixed


def _find_task(mod, name):
    for t in mod.TASKS:
        if t.name == name:
            return t
    raise KeyError(name)


def run_job(job):
    """Worker: explore one (task, case)."""
    prop, tname, case, timeout_ms, known, max_seconds = job
    t0 = time.time()
    try:
        from pyvc.engine import Engine
        from pyvc.interp import Interp
        mod = load_contract(prop)
        task = _find_task(mod, tname)
        I = Interp(repo_root())
        if hasattr(mod, 'setup_interp'):
            mod.setup_interp(I)
        E = Engine(mode='symbolic', timeout_ms=task.timeout_ms or timeout_ms, interp=I,
                   known=known, max_seconds=task.max_seconds or max_seconds)
        E.explore(task.fn, **case)
        s = E.summary()
        s['task'] = tname
        s['case'] = case
        s['functions'] = dict(I.used)
        s['by_contract'] = sorted(I.used_contracts)
        s['loop_contracts'] = sorted(I.used_loop_contracts)
        s['summaries_used'] = sorted(I.used_summaries)
        s['wall'] = time.time() - t0
        s['error'] = None
        return s
    except BaseException as e:  # checker crash in this job
        return {'task': tname, 'case': case, 'error': '%s: %s\n%s' % (
            type(e).__name__, e, traceback.format_exc()[-3000:]), 'wall': time.time() - t0}


def run_bounded(job):
    """Worker: bounded stand-in (native sampling) for one (task, case, seed chunk)."""
    prop, tname, case, n, seed = job
    env = dict(os.environ)
    env['PYTHONPATH'] = '%s:%s' % (repo_root(), VERIF)
    env['VERIF_REPO'] = repo_root()
    t0 = time.time()
    try:
        out = subprocess.run([NATIVE_PY, '-m', 'pyvc.bounded', prop, tname, json.dumps(__import__('pyvc.api').api.enc_case(case)), str(n), str(seed)],
                             capture_output=True, text=True, env=env, timeout=3000, cwd=VERIF)
        for line in reversed(out.stdout.strip().split('\n')):
            if line.startswith('BOUNDED-RESULT '):
                r = json.loads(line[len('BOUNDED-RESULT '):])
                r.update(task=tname, case=case, wall=time.time() - t0)
                return r
        return {'task': tname, 'case': case, 'error': 'no result: %s' % out.stderr[-1500:], 'wall': time.time() - t0}
    except Exception as e:
        return {'task': tname, 'case': case, 'error': repr(e), 'wall': time.time() - t0}


def native_replay(prop, tname, case, inputs, known_ids=()):
    """Run the task natively (real code, concrete inputs); returns dict or None."""
    from pyvc.api import enc_case
    payload = {'property': prop, 'task': tname, 'case': enc_case(case), 'inputs': inputs}
    env = dict(os.environ)
    env['PYTHONPATH'] = '%s:%s' % (repo_root(), VERIF)
    env['VERIF_REPO'] = repo_root()
    try:
        out = subprocess.run([NATIVE_PY, '-m', 'pyvc.replay', '-'], input=json.dumps(payload),
                             capture_output=True, text=True, env=env, timeout=600, cwd=VERIF)
    except subprocess.TimeoutExpired:
        return {'error': 'replay timed out'}
    for line in reversed(out.stdout.strip().split('\n')):
        if line.startswith('REPLAY-RESULT '):
            return json.loads(line[len('REPLAY-RESULT '):])
    return {'error': 'replay produced no result: %s %s' % (out.stdout[-500:], out.stderr[-1500:])}


def main(argv=None):
    import argparse
    ap = argparse.ArgumentParser()
    ap.add_argument('property')
    ap.add_argument('--tier', default=os.environ.get('VERIF_TIER', 'quick'))
    ap.add_argument('--jobs', type=int, default=int(os.environ.get('VERIF_JOBS', '16')))
    ap.add_argument('--only', default=None, help='run only tasks whose name contains this')
    ap.add_argument('--no-evidence', action='store_true')
    ap.add_argument('--verbose', '-v', action='store_true')
    args = ap.parse_args(argv)
    prop = args.property
    tier = args.tier if args.tier in ('quick', 'thorough') else 'quick'
    seed = int(os.environ.get('VERIF_SEED', '0') or 0)
    t0 = time.time()
    sys.path.insert(0, repo_root())
    sys.path.insert(0, VERIF)
    try:
        mod = load_contract(prop)
    except Exception:
        traceback.print_exc()
        print('CHECKER-ERROR property=%s cannot load contract' % prop)
        return 3
    timeout_ms = 10000 if tier == 'quick' else 60000
    known, fixed = load_known(prop)

    # --- known findings: replay witnesses first; a finding that no longer fails is not excluded
    known_lines = []
    stale = []
    for fid, rec in sorted(known.items()):
        res = native_replay(prop, rec['task'], rec.get('case', {}), rec['witness'])
        if res and not res.get('error') and res.get('failed'):
            known_lines.append('KNOWN-FINDING: property=%s %s [%s]' % (prop, rec['what'], fid))
        else:
            stale.append(fid)
    for fid in stale:
        print('NOTE: known finding %s no longer reproduces natively; its region is not excluded' % fid)
        del known[fid]

    jobs = []
    bjobs = []
    for t in mod.TASKS:
        if t.tier == 'thorough' and tier != 'thorough':
            continue
        if args.only and args.only not in t.name:
            continue
        for case in t.cases:
            if t.bounded:
                n = t.samples[0] if tier == 'quick' else t.samples[1]
                parts = 4 if tier == 'quick' else 16
                for k in range(parts):
                    bjobs.append((prop, t.name, case, max(1, n // parts), seed * 1000 + k))
            else:
                jobs.append((prop, t.name, case, timeout_ms, known, 1500 if tier == 'quick' else 7200))
    if not jobs and not bjobs:
        print('CHECKER-ERROR property=%s no tasks' % prop)
        return 3
    ctx = multiprocessing.get_context('fork')
    results, bresults = [], []
    with ctx.Pool(min(args.jobs, max(1, len(jobs) + len(bjobs)))) as pool:
        ar = pool.map_async(run_job, jobs, chunksize=1) if jobs else None
        br = pool.map_async(run_bounded, bjobs, chunksize=1) if bjobs else None
        results = ar.get() if ar else []
        bresults = br.get() if br else []

    # --- aggregate
    errors = [r for r in results if r.get('error')]
    ok = [r for r in results if not r.get('error')]
    obligations = sum(r['obligations'] for r in ok)
    discharged = sum(r['discharged'] for r in ok)
    refuted = [(r, o) for r in ok for o in r['refuted']]
    undecided = [(r, o) for r in ok for o in r['undecided']]
    undecided_paths = [(r, u) for r in ok for u in r['undecided_paths']]
    functions = {}
    for r in ok:
        functions.update(r['functions'])
    by_backend = {}
    for r in ok:
        for k, v in r['by_backend'].items():
            by_backend[k] = by_backend.get(k, 0) + v
    labels = {}
    for r in ok:
        for k, v in r['labels'].items():
            key = '%s:%s' % (r['task'], k)
            d = labels.setdefault(key, {'n': 0, 'discharged': 0})
            d['n'] += v['n']
            d['discharged'] += v['discharged']
    assumptions = set(getattr(mod, 'ASSUMPTIONS', []))
    for r in ok:
        assumptions.update(r['assumptions'])
    # covers and canaries
    problems = []
    for t in mod.TASKS:
        rs = [r for r in ok if r['task'] == t.name]
        if not rs:
            continue
        for c in t.covers:
            if not any(r['covers'].get(c) for r in rs):
                problems.append('cover %s:%s never reached' % (t.name, c))
        fired = {}
        for r in rs:
            for k, v in r['canaries'].items():
                fired[k] = fired.get(k, False) or v
        for k, v in fired.items():
            if not v:
                problems.append('canary %s:%s did not fire (vacuous contract?)' % (t.name, k))
        for c in t.canaries:
            if c not in fired:
                problems.append('canary %s:%s never evaluated' % (t.name, c))
        if sum(r['obligations'] for r in rs) == 0 and not any(r['undecided_paths'] for r in rs):
            problems.append('task %s generated zero obligations' % t.name)

    # --- refutations: replay natively
    violations = []
    rdir = os.path.join(VERIF, 'replays', prop)
    seen = set()
    for r, o in refuted:
        key = (r['task'], o['label'])
        if key in seen:
            continue
        seen.add(key)
        os.makedirs(rdir, exist_ok=True)
        import hashlib, re
        stem = '%s__%s' % (r['task'], o['label'])
        stem = re.sub(r'[^A-Za-z0-9_.,()=<>+-]', '_', stem)
        if len(stem) > 140:
            stem = stem[:120] + '_' + hashlib.sha1(stem.encode()).hexdigest()[:12]
        fn = os.path.join(rdir, stem + '.json')
        res = native_replay(prop, r['task'], r['case'], o.get('model') or {})
        confirmed = bool(res and not res.get('error') and res.get('failed'))
        from pyvc.api import enc_case
        rec = {'property': prop, 'task': r['task'], 'case': enc_case(r['case']), 'obligation': o['label'],
               'inputs': o.get('model'), 'native_replay': res, 'confirmed_on_real_code': confirmed,
               'solver': o.get('backend'), 'repo': repo_root(),
               'how_to_replay': 'cd /verif && ./check --replay %s' % fn}
        with open(fn, 'w') as f:
            json.dump(rec, f, indent=1, default=str)
        violations.append((fn, confirmed, r['task'], o['label'], o.get('model')))

    # --- bounded stand-ins (never counted as proved)
    bounded_parts = []
    for t in mod.TASKS:
        rs = [r for r in bresults if r['task'] == t.name]
        if not rs:
            continue
        part = {'task': t.name, 'bounded': True, 'scope': t.scope,
                'evaluations': sum(r.get('evaluations', 0) for r in rs),
                'distinct_inputs': sum(r.get('distinct', 0) for r in rs),
                'obligations_evaluated': sum(r.get('obligations_evaluated', 0) for r in rs),
                'failures': sum(len(r.get('failures', [])) for r in rs),
                'samples': [s_ for r in rs for s_ in r.get('samples', [])][:3]}
        bounded_parts.append(part)
        for r in rs:
            if r.get('error'):
                errors.append({'task': t.name, 'case': r.get('case'), 'error': r['error']})
            for f in r.get('failures', [])[:2]:
                os.makedirs(rdir, exist_ok=True)
                fn = os.path.join(rdir, '%s__%s.json' % (
                    t.name.replace('/', '_').replace(' ', '_'), f['label'].replace('/', '_').replace(' ', '_')))
                from pyvc.api import enc_case
                rec = {'property': prop, 'task': t.name, 'case': enc_case(r['case']), 'obligation': f['label'],
                       'inputs': f['inputs'], 'confirmed_on_real_code': True, 'bounded': True,
                       'repo': repo_root(), 'how_to_replay': 'cd /verif && ./check --replay %s' % fn}
                with open(fn, 'w') as fh:
                    json.dump(rec, fh, indent=1, default=str)
                if not any(v[0] == fn for v in violations):
                    violations.append((fn, True, t.name, f['label'], f['inputs']))

    wall = time.time() - t0
    status = 0
    for line in known_lines:
        print(line)
    for fn, confirmed, tname, label, model in violations:
        print('obligation failed: %s:%s inputs=%s' % (tname, label, json.dumps(model, default=str)[:300]))
        print('VIOLATION property=%s replay=%s%s' % (
            prop, fn, '' if confirmed else ' no-failing-input-found'))
        status = 1
    if errors:
        for r in errors:
            print('CHECKER-ERROR task=%s case=%s\n%s' % (r['task'], r['case'], r['error']))
        if status == 0:
            status = 3
    if problems and status == 0:
        for p in problems:
            print('CHECKER-ERROR %s' % p)
        status = 3
    if (undecided or undecided_paths) and status == 0:
        for r, o in undecided[:20]:
            print('UNDECIDED %s:%s %s' % (r['task'], o['label'], o.get('reason')))
        for r, u in undecided_paths[:20]:
            print('UNDECIDED %s %s %s' % (r['task'], r['case'], u[1][:300]))
        status = 2
    if obligations == 0 and status == 0 and jobs:
        print('CHECKER-ERROR zero obligations')
        status = 3
    for b in bounded_parts:
        print('bounded (not proved): %s: %d sampled inputs, %d obligations evaluated natively, %d failures [%s]' % (
            b['task'], b['evaluations'], b['obligations_evaluated'], b['failures'], b['scope']))

    print('%s tier=%s: %d obligations, %d discharged, %d refuted, %d undecided, %d jobs, '
          '%d functions, %.1fs' % (prop, tier, obligations, discharged, len(refuted),
                                   len(undecided) + len(undecided_paths), len(jobs),
                                   len(functions), wall))
    if args.verbose:
        for k in sorted(labels):
            print('   %-60s %d/%d' % (k, labels[k]['discharged'], labels[k]['n']))
        for r in sorted(ok, key=lambda r: -r['wall'])[:5]:
            print('   slowest: %s %s %.1fs paths=%d' % (r['task'], r['case'], r['wall'], r['paths']))

    if not args.no_evidence:
        samples = []
        for r in ok:
            for s in r['samples']:
                if len(samples) < 6:
                    samples.append({'task': r['task'], 'case': r['case'], **s})
        if not samples:
            samples = [{'obligation': k, **v} for k, v in list(sorted(labels.items()))[:5]]
        bounded = bounded_parts or None
        ev = {
            'property_id': prop,
            'tier': tier,
            'seed': seed,
            'level': 'proof',
            'coverage': {
                'obligations': obligations,
                'discharged': discharged,
                'checker_cmd': 'cd /verif && ./check %s --tier %s' % (prop, tier),
                'trusted_base': TRUSTED_BASE + list(getattr(mod, 'TRUSTED', [])),
                'samples': samples,
                'obligations_by_label': labels,
                'discharged_by_backend': by_backend,
                'functions_under_contract': functions,
                'functions_by_assumed_contract': sorted(set(x for r in ok for x in r['by_contract'])),
                'loops_by_invariant': sorted(set(x for r in ok for x in r.get('loop_contracts', []))),
                'builtin_summaries_used': sorted(set(x for r in ok for x in r['summaries_used'])),
                'jobs': len(jobs),
                'paths': sum(r['paths'] for r in ok),
                'solver_time_s': round(sum(r['solver_time'] for r in ok), 2),
                'solver_calls': sum(r['solver_calls'] for r in ok),
                'undecided': [{'task': r['task'], 'label': o['label'], 'reason': o.get('reason')}
                              for r, o in undecided][:50] +
                             [{'task': r['task'], 'case': r['case'], 'reason': u[1][:300]}
                              for r, u in undecided_paths][:50],
                'covers': {t.name: list(t.covers) for t in mod.TASKS if t.covers},
                'canaries_fired': sorted(set('%s:%s' % (r['task'], k) for r in ok
                                             for k, v in r['canaries'].items() if v)),
                'known_findings': [k.split(': ', 1)[1] for k in known_lines],
                'not_covered': list(getattr(mod, 'NOT_COVERED', [])),
                'exit_status': status,
            },
            'assumptions': sorted(assumptions),
            'wall_s': round(wall, 2),
            'violations': len(violations),
        }
        if bounded:
            ev['coverage']['bounded_parts'] = bounded
        os.makedirs(os.path.join(VERIF, 'evidence'), exist_ok=True)
        with open(os.path.join(VERIF, 'evidence', '%s.json' % prop), 'w') as f:
            json.dump(ev, f, indent=1, default=str)
    return status


TRUSTED_BASE = [
    'pyvc VC generator: AST interpreter + symbolic encoding of the Python subset (pyvc/interp.py, sym.py, engine.py)',
    'builtin summaries in pyvc/summaries.py (struct, bytearray/memoryview/bytes, int2byte, dict/list protocol)',
    'z3 4.x/5.1 (python3-vt wheel) and /usr/bin/cvc5 1.0.3 as SMT back ends',
    'Python int modelled as mathematical integer (exact for CPython); no floats unless stated',
    'CPython for native replay of counter-models and known-finding witnesses',
]


if __name__ == '__main__':
    sys.exit(main())
