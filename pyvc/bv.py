"""
pyvc.bv - second back end: exact translation of a bounded integer query to bit-vectors.

The primary encoding is mathematical integers (z3 Int). Bitwise operations between two
symbolic operands (16-bit AND/OR/XOR ...) are not something an arithmetic solver decides
well, so they are kept in the Int world as uninterpreted band/bor/bxor applications
(plus sound bound axioms) and decided here: when every integer variable of a query has
asserted finite bounds, an interval analysis bounds every subterm, a width W is chosen
such that no subterm can wrap, and the query is translated to W-bit signed bit-vector
arithmetic (exact under those bounds) and bit-blasted.
"""

import z3

INT = z3.IntSort()
BAND = z3.Function('band', INT, INT, INT)
BOR = z3.Function('bor', INT, INT, INT)
BXOR = z3.Function('bxor', INT, INT, INT)
_UF = {'band': '&', 'bor': '|', 'bxor': '^'}


class NotTranslatable(Exception):
    pass


def has_bitops(terms):
    seen = set()
    todo = list(terms)
    while todo:
        t = todo.pop()
        i = t.get_id()
        if i in seen:
            continue
        seen.add(i)
        if z3.is_app(t):
            if t.decl().kind() == z3.Z3_OP_UNINTERPRETED and t.decl().name() in _UF:
                return True
            todo.extend(t.children())
    return False


def _is_pow2(d):
    return d > 0 and d & (d - 1) == 0


class Translator(object):

    def __init__(self, bounds):
        self.bounds = bounds      # var name -> (lo, hi)
        self.iv = {}              # term id -> (lo, hi)
        self.cache = {}
        self.W = None
        self.vars = {}

    # -- interval analysis on Int terms
    def interval(self, t):
        i = t.get_id()
        r = self.iv.get(i)
        if r is not None:
            return r
        r = self._interval(t)
        self.iv[i] = r
        return r

    def _interval(self, t):
        if z3.is_int_value(t):
            v = t.as_long()
            return (v, v)
        if not z3.is_app(t):
            raise NotTranslatable('non-application term')
        k = t.decl().kind()
        ch = t.children()
        if k == z3.Z3_OP_UNINTERPRETED:
            name = t.decl().name()
            if not ch:
                b = self.bounds.get(name)
                if b is None or b[0] is None or b[1] is None:
                    raise NotTranslatable('unbounded variable %s' % name)
                return b
            if name in _UF:
                a, b = self.interval(ch[0]), self.interval(ch[1])
                # two's complement: the result fits in the width of the wider operand
                if a[0] >= 0 and b[0] >= 0:
                    if name == 'band':
                        return (0, min(a[1], b[1]))
                    w = max(a[1], b[1]).bit_length()
                    return (0, (1 << w) - 1)
                w = max(abs(a[0]), abs(a[1]), abs(b[0]), abs(b[1])).bit_length()
                return (-(1 << w), (1 << w) - 1)
            raise NotTranslatable('uninterpreted function %s' % name)
        if k == z3.Z3_OP_ADD:
            ivs = [self.interval(c) for c in ch]
            return (sum(x[0] for x in ivs), sum(x[1] for x in ivs))
        if k == z3.Z3_OP_SUB:
            ivs = [self.interval(c) for c in ch]
            lo, hi = ivs[0]
            for x in ivs[1:]:
                lo, hi = lo - x[1], hi - x[0]
            return (lo, hi)
        if k == z3.Z3_OP_UMINUS:
            a = self.interval(ch[0])
            return (-a[1], -a[0])
        if k == z3.Z3_OP_MUL:
            lo, hi = 1, 1
            for c in ch:
                a = self.interval(c)
                cands = [lo*a[0], lo*a[1], hi*a[0], hi*a[1]]
                lo, hi = min(cands), max(cands)
            return (lo, hi)
        if k in (z3.Z3_OP_IDIV, z3.Z3_OP_DIV):
            a, b = self.interval(ch[0]), self.interval(ch[1])
            if b[0] != b[1] or b[0] <= 0:
                if b[0] > 0:
                    # positive symbolic divisor: |q| <= |a|
                    m = max(abs(a[0]), abs(a[1]))
                    return (-m - 1, m)
                raise NotTranslatable('division by non-positive or zero-crossing divisor')
            d = b[0]
            return (a[0] // d, a[1] // d)
        if k == z3.Z3_OP_MOD:
            a, b = self.interval(ch[0]), self.interval(ch[1])
            if b[0] <= 0:
                raise NotTranslatable('modulo by non-positive divisor')
            return (0, b[1] - 1)
        if k == z3.Z3_OP_ITE:
            a, b = self.interval(ch[1]), self.interval(ch[2])
            self.scan_bool(ch[0])
            return (min(a[0], b[0]), max(a[1], b[1]))
        raise NotTranslatable('integer operator %s' % t.decl().name())

    def scan_bool(self, t):
        """Visit the integer subterms of a boolean term (to size W)."""
        i = t.get_id()
        if i in self.iv:
            return
        self.iv[i] = True
        if z3.is_app(t):
            for c in t.children():
                if z3.is_bool(c):
                    self.scan_bool(c)
                elif z3.is_int(c):
                    self.interval(c)
                else:
                    raise NotTranslatable('sort %s' % c.sort())

    # -- translation
    def width(self):
        m = 1
        for v in self.iv.values():
            if v is True:
                continue
            m = max(m, abs(v[0]), abs(v[1]))
        return m.bit_length() + 2

    def tr_int(self, t):
        i = t.get_id()
        r = self.cache.get(i)
        if r is None:
            r = self._tr_int(t)
            self.cache[i] = r
        return r

    def _tr_int(self, t):
        W = self.W
        if z3.is_int_value(t):
            return z3.BitVecVal(t.as_long(), W)
        k = t.decl().kind()
        ch = t.children()
        if k == z3.Z3_OP_UNINTERPRETED:
            name = t.decl().name()
            if not ch:
                v = z3.BitVec(name, W)
                self.vars[name] = v
                return v
            a, b = self.tr_int(ch[0]), self.tr_int(ch[1])
            return {'band': a & b, 'bor': a | b, 'bxor': a ^ b}[name]
        if k == z3.Z3_OP_ADD:
            r = self.tr_int(ch[0])
            for c in ch[1:]:
                r = r + self.tr_int(c)
            return r
        if k == z3.Z3_OP_SUB:
            r = self.tr_int(ch[0])
            for c in ch[1:]:
                r = r - self.tr_int(c)
            return r
        if k == z3.Z3_OP_UMINUS:
            return -self.tr_int(ch[0])
        if k == z3.Z3_OP_MUL:
            r = self.tr_int(ch[0])
            for c in ch[1:]:
                r = r * self.tr_int(c)
            return r
        if k in (z3.Z3_OP_IDIV, z3.Z3_OP_DIV, z3.Z3_OP_MOD):
            a = self.tr_int(ch[0])
            div = k != z3.Z3_OP_MOD
            if z3.is_int_value(ch[1]):
                d = ch[1].as_long()
                if _is_pow2(d):
                    sh = d.bit_length() - 1
                    if div:
                        return a >> sh          # arithmetic shift = floor division
                    return a & z3.BitVecVal(d - 1, W)
            b = self.tr_int(ch[1])
            # Euclidean division for positive divisor
            r = z3.SRem(a, b)
            r = z3.If(r < 0, r + b, r)
            if not div:
                return r
            # (a - r) / b is exact
            return (a - r) / b      # signed division on BitVecRef
        if k == z3.Z3_OP_ITE:
            return z3.If(self.tr_bool(ch[0]), self.tr_int(ch[1]), self.tr_int(ch[2]))
        raise NotTranslatable('integer operator %s' % t.decl().name())

    def tr_bool(self, t):
        i = ('b', t.get_id())
        r = self.cache.get(i)
        if r is None:
            r = self._tr_bool(t)
            self.cache[i] = r
        return r

    def _tr_bool(self, t):
        if z3.is_true(t) or z3.is_false(t):
            return t
        k = t.decl().kind()
        ch = t.children()
        if k == z3.Z3_OP_UNINTERPRETED and not ch:
            return t   # boolean variable
        if k == z3.Z3_OP_AND:
            return z3.And(*[self.tr_bool(c) for c in ch])
        if k == z3.Z3_OP_OR:
            return z3.Or(*[self.tr_bool(c) for c in ch])
        if k == z3.Z3_OP_NOT:
            return z3.Not(self.tr_bool(ch[0]))
        if k == z3.Z3_OP_IMPLIES:
            return z3.Implies(self.tr_bool(ch[0]), self.tr_bool(ch[1]))
        if k == z3.Z3_OP_XOR:
            return z3.Xor(self.tr_bool(ch[0]), self.tr_bool(ch[1]))
        if k == z3.Z3_OP_ITE:
            return z3.If(self.tr_bool(ch[0]), self.tr_bool(ch[1]), self.tr_bool(ch[2]))
        if k in (z3.Z3_OP_EQ, z3.Z3_OP_IFF):
            if z3.is_bool(ch[0]):
                return self.tr_bool(ch[0]) == self.tr_bool(ch[1])
            return self.tr_int(ch[0]) == self.tr_int(ch[1])
        if k == z3.Z3_OP_DISTINCT:
            if len(ch) != 2:
                raise NotTranslatable('n-ary distinct')
            if z3.is_bool(ch[0]):
                return self.tr_bool(ch[0]) != self.tr_bool(ch[1])
            return self.tr_int(ch[0]) != self.tr_int(ch[1])
        if k == z3.Z3_OP_LE:
            return self.tr_int(ch[0]) <= self.tr_int(ch[1])
        if k == z3.Z3_OP_LT:
            return self.tr_int(ch[0]) < self.tr_int(ch[1])
        if k == z3.Z3_OP_GE:
            return self.tr_int(ch[0]) >= self.tr_int(ch[1])
        if k == z3.Z3_OP_GT:
            return self.tr_int(ch[0]) > self.tr_int(ch[1])
        raise NotTranslatable('boolean operator %s' % t.decl().name())


def check(terms, bounds, rlimit, max_width=200):
    """Decide the conjunction of `terms`. Returns ('unsat'|'sat'|'unknown', model dict|None, width)."""
    tr = Translator(bounds)
    for t in terms:
        tr.scan_bool(t)
    W = tr.width()
    if W > max_width:
        raise NotTranslatable('needs %d-bit vectors' % W)
    tr.W = W
    s = z3.SolverFor('QF_BV')
    s.set('rlimit', rlimit)
    for t in terms:
        s.add(tr.tr_bool(t))
    r = s.check()
    if r == z3.unsat:
        return 'unsat', None, W
    if r == z3.sat:
        m = s.model()
        out = {}
        for name, v in tr.vars.items():
            val = m.eval(v, model_completion=True)
            out[name] = val.as_signed_long()
        return 'sat', (m, out), W
    return 'unknown', None, W
