"""Claims per property (source of MANIFEST.json)."""

NOTES = ('Every check re-reads the functions under contract from /repo (or $VERIF_REPO) on each run; '
         'exit 0 proved / 1 refuted (VIOLATION) / 2 undecided / 3 checker error. '
         'Repairs of genuine defects are "fix:" commits in /repo listed in known_findings.jsonl.')

_TB = ('Trusted: the pyvc VC generator and its encoding of the Python subset (ints as mathematical integers, '
       'byte buffers as cell vectors, exceptions as outcomes), the builtin summaries (struct, bytearray/memoryview, int2byte), '
       'z3/cvc5; native replay under /venv/bin/python. ')

CLAIMS = {
 'C02': {
  'text': 'Proof: every obligation of the contracts on Integer.iadd/isub/ineg/iabs/idiv_int/imod, values.intdiv/mod_/not_/and_/or_/xor_/eqv_/imp_ '
          'and Interpreter.iterate_loop (integer counter) is discharged for all 2^32 operand pairs (symbolic byte patterns), no bound. '
          'Postconditions are the statement: truncating division, MOD sign and identity, Division by zero / Overflow conditions, bitwise semantics on the 16-bit pattern, exact FOR counter addition.',
  'note': _TB + 'FOR counter: code stream / scalar table are stand-ins (position bookkeeping only). Known finding: logical operators reject operands 32768..65535 (GW-compatible).',
 },
}

CLAIMS['C03'] = {
  'text': 'Proof: contracts on Float.to_int/to_int_truncate, values.cint_/fix_/int_, Float.from_int, Integer->float promotion, Double.from_single/to_single, '
          'MKI$/MKS$/MKD$/CVI/CVS/CVD and HEX$/OCT$ with &H/&O re-reading are discharged for every single and double bit pattern '
          '(symbolic mantissa bytes; the exponent byte is forked over all 256 values so powers of two are constants) and all 65536 integers. '
          'Specs are the statement in integer arithmetic on (sign, mantissa, exponent): round half away, truncate, floor with exact re-encoding, '
          'exact widening, bracketing and nearest-within-1/256-ulp narrowing, byte preservation, digit strings that denote and re-read to the same 16-bit pattern.',
  'note': _TB + 'String space behind MKx$/CVx uses a stand-in for DataSegment (fixed layout, no memory pressure). %X/%o formatting and int(bytes, base) are builtin summaries. CVx string lengths: 10 representative lengths in quick, all 0..255 in thorough.',
}
CLAIMS['C06'] = {
  'text': 'Proof: Integer.gt/eq, Float.gt/eq/_abs_gt (Single, Double; all bit patterns incl. non-canonical zeros), values._bool_gt/_bool_eq for all 9 type pairings, '
          'and the six relational operators (modularly, against the helper contracts) are proved to return exactly the order of the denoted values; '
          'trichotomy and the magnitude-order lemma of the spec are proved as lemmas.',
  'note': _TB + 'Mixed-type pairs are specified on the operands after the promotion the operator itself performs; exactness of those promotions is proved under C03.',
}

CLAIMS['C04'] = {
  'text': 'Proof for + - *: values.add/sub/mul with Float.iadd/isub/imul, _add_den, _normalise, _check_limits, _bring_to_range are proved for every pair of single '
          '(all exponent differences) and double bit patterns (double + and -: a stated set of exponent differences on every change, all 256 in the thorough tier): '
          'result within 2 ulp (+,-) / less than 1 ulp (*) of the exact result, Overflow only beyond the largest number, zero only below the smallest positive number, '
          'non-canonical zeros included; FloatErrorHandler.handle (soft/hard handling) proved. '
          'Division: the long-division loop Float._div_den is proved by loop invariant for all mantissa pairs (invariant r = R div 2^i, 0 <= 2QR - (L-w)2^i <= (i-1)2^i, w <= 2r + i, '
          'and the remainder exceeds 2r only through truncation already accounted; nonlinear integer arithmetic): the quotient mantissa is L/R*2^(p-1) within strictly less than p/2 units; values.div is then proved for ALL single and double operands against that contract: '
          'division by zero, zero dividend, sign, Overflow / zero only beyond the limits (within the tolerance), and the result within strictly less than 1 ulp of the exact quotient on every path.',
  'note': _TB + 'values.mul and values.div are verified against the proved contracts of Float._denormalise / Float._div_den (modular); mul with the mantissa product as a shared atom with interval axioms. A bounded native sampling of division (< 1 ulp) still runs and is reported separately, never counted as proved.',
}
CLAIMS['C05'] = {
  'text': 'Proof: relational obligations on the real code, all bit patterns: x+y = y+x and x*y = y*x byte for byte (single: all exponent differences; double +: stated set in quick, all in thorough), '
          'x+0 = x, 0+x = x, x*1 = x, x-x = 0 for every zero encoding, -(-x) = x, ABS, SGN for Integer/Single/Double, and promotion of mixed operands to the wider type '
          '(modular: the arithmetic methods are replaced by recording stubs, the operands they receive are the exactly promoted values). x/1 = x bit for bit is proved from the exact power-of-two contract of Float._div_den (loop invariant).',
  'note': _TB + 'Float._denormalise by contract in the multiplication identity; integers are computed in single precision for + - * / (as the code does).',
}

CLAIMS['C12'] = {
  'text': 'Proof: Arrays.index is within [0, number of elements) and injective on in-bounds subscript tuples (nonlinear integer arithmetic, ranks 1..4, symbolic bounds and subscripts up to 32767, both OPTION BASE values); '
          'view_buffer returns exactly the element slot inside the buffer; check_dim raises Subscript out of range / Illegal function call exactly for invalid tuples and changes no element, auto-dimensions undeclared arrays; '
          'allocate / erase_ / option_base_ follow the statement (Duplicate definition, re-dimensioning after ERASE, base rules, memory bookkeeping).',
  'note': _TB + 'Ranks are separate cases (1..4 for index, 1..3 for the rest); array buffers have symbolic length with unmodelled content; DataSegment is a stand-in. Call sites added: DataSegment.view_or_create_variable dimensions an undeclared array on a first use by read, and ExpressionParser.parse_indices hands subscripts on unjudged (the expression parser is a stand-in there).',
}
CLAIMS['C26'] = {
  'text': 'Proof: Locks.acquire_record_lock / release_record_lock / try_record_access / open_file / close_file: Permission denied iff the requested range overlaps a lock held on the same file name through any number, '
          'pairwise disjointness of held locks is preserved, UNLOCK succeeds only for exactly the locked bounds, access inside a range locked through another number is denied, '
          'a file open for OUTPUT/APPEND cannot be opened again until closed. All range bounds are unbounded symbolic integers.',
  'note': _TB + 'Harness structure: up to 2 locks per file number on 3 numbers (10 shapes); lock sets use a by-value set stand-in; LOCK/ACCESS clause matrix of OPEN only in its default row. Two defects found and fixed (705e918b).',
}

CLAIMS['C39'] = {
  'text': 'Proof: Randomiser._cycle is the fixed linear congruential step with the state invariant 0 <= seed < 2^24; full period 2^24 is a lemma chain over that contract '
          '(affine-map composition lemma, T^(2^24) = identity and T^(2^23) without fixed point for all states, constants read from the class); '
          'rnd_ returns the single whose value is exactly seed/2^24 in [0,1) for every state (the 32-step long division by 2^24 is executed with state merging and decided by the bit-vector back end), '
          'RND(0) keeps the state, RND(x<0) reseeds with the mantissa independent of the old state, Integer/Double arguments are converted once; reseed depends only on the argument bytes and seed mod 256; clear restores the fixed seed.',
  'note': _TB + 'The squaring schedule for the period lemma is carried out by the contract in exact integer arithmetic, each step justified by the proved composition lemma. RND(x<0) is verified modularly (division replaced by a recording stub; the division itself is proved for every state in the other branches).',
}
CLAIMS['C44'] = {
  'text': 'Proof for Clock.time_ / Clock.date_: for every separator structure in a stated list and arbitrary field values (int() of each field abstracted to any integer or ValueError) the outcome is either Illegal function call with the clock unchanged, '
          'exactly for invalid fields, or the offset becomes old + (new - now) with new carrying exactly the fields set; no other exception escapes. '
          'ENVIRON/ENVIRON$ and the string formatting of TIME$/DATE$ are covered only by bounded end-to-end tasks (literal strings through a real Session), reported separately and never counted as proved.',
  'note': _TB + 'datetime is replaced by an abstract calendar (constructor range checks as in CPython, symbolic date arithmetic); separator structures are enumerated (9 + 8 shapes). Two defects found and fixed (b16e0aff).',
}

CLAIMS['C15'] = {
  'text': 'Proof: converter.protect / converter.unprotect are mutually inverse on every byte string of lengths 0,1,2,142..145 and 290 (all bytes symbolic; every one of the 143 key-schedule indices covered twice including the wrap-around), '
          'decided by the bit-vector back end; Program.save followed by Program.load in protected and tokenised mode restores byte-identical program memory, position and flags.',
  'note': _TB + 'Streams are io.BytesIO stand-ins; the disk layer EOF byte is supplied by the harness; rebuild_line_dict stubbed (C13). ASCII format and the command-line converter are not covered. One defect found and fixed (empty protected stream crashed). TextFile.read_line (the line reader of ASCII LOAD/MERGE) is checked for lines of 0..300 characters with symbolic contents. Cipher and save/load jobs carry a per-job time cap so that a change that makes them explode reports what the short cases refute instead of timing out.',
}
CLAIMS['C16'] = {
  'text': 'Proof of guard obligations: with the program protected (and not in run mode for memory access) Program.store_line/list_lines/save(B,A)/edit/merge, Memory.peek_/poke_/bload_/bsave_ and CHAIN MERGE raise Illegal function call before any collaborator '
          '(files, lister, tokeniser, console, code stream, memory) is touched - EDIT shows the digits of the line number only; the protection flag byte can be cleared only through the guarded POKE path with allow_protect; the DRAW/PLAY macro parser resolves an embedded VARPTR$ pointer (all 2^24 pointers) only through DataSegment.get_value_for_varptrstr and touches memory in no other way.',
  'note': _TB + 'Collaborators are recording spies; entry points are the list read off the code - a new disclosing entry point would not be seen; behavioural equivalence of the protected program is not covered.',
}

CLAIMS['C25'] = {
  'text': 'Proof: RandomFile.put writes exactly the L-byte field buffer at byte offset (n-1)*L, zero-fills only the gap beyond the old end of file, leaves LOF = max(old, n*L) and LOC = n; '
          'RandomFile.get takes the L bytes at (n-1)*L or zeros at/after the end, writes nothing; lof/loc; Files._check_pos raises Bad record number exactly outside 1..2^25. '
          'Record length, record numbers and file length are unbounded symbolic integers. '
          'Contents byte for byte (concrete record and file lengths on a grid, symbolic file and field bytes, the real FieldFile.get_buffer/set_buffer): after PUT n the file is the old file, zero-extended, with exactly record n replaced, and every GET m returns record m (the bytes PUT for m = n; zeros beyond the end or for the missing tail of a partial record).',
  'note': _TB + 'In the offset tasks the host file is a stand-in of symbolic length with logged accesses and FieldFile by assumed contract; in the contents tasks lengths are case parameters. Locks by assumed contract; float rounding of the record number abstracted (C03). Two defects found and fixed (POKE 1050, PEEK(1052); a head pointer below the ring).',
}

CLAIMS['C37'] = {
  'text': 'Proof over an enumerated state structure with symbolic key contents: KeyboardBuffer.append/getc/peek behave as a FIFO limited to 15 waiting keys (further keys dropped with a tone), '
          'the head/tail pointers and the 16 ring slots mirror the waiting keys for every ring alignment, POKE 1050, PEEK(1052) empties the buffer, and ring_set_boundaries(a, b) for all 256 pointer pairs leaves exactly the slots between head and tail waiting with ring memory unchanged (pointers outside the ring wrap around); Keyboard._key_down delivers every key press to the buffer as exactly one keystroke for every scancode and modifier set, except Alt+keypad digits, which are collected and delivered on releasing Alt.',
  'note': _TB + 'State structure (consumed entries 16..47, waiting keys 0..16) is enumerated, contents symbolic; the code depends on the consumed count only through its value mod 16 (assumption). Keyboard plumbing and the address arithmetic in machine.Memory are not covered. One defect found and fixed.',
}

CLAIMS['C14'] = {
  'text': 'Proof of the core only: Program.renum builds the old->new map (lines from `old` onward get new, new+step, ... in order), accepts exactly when no kept line would be overwritten and no number exceeds 65529, rewrites the line-number fields and rebuilds the table; '
          'Interpreter.renum_ makes an active ON ERROR trap and every event trap follow their lines (lines outside the range keep their number) and lets only Illegal function call escape. new/old/step symbolic over 4 concrete program shapes.',
  'note': _TB + 'Also checked on the real code: BasicEvents.reset lists every handler that can hold a trap line (all KEY slots included) in `all`, which renum_ walks; Tokeniser.tokenise_line stores exactly the line-number references of 27 concrete lines (GOTO/GOSUB/THEN/ELSE/ON../RESTORE/RUN/RESUME/ON ERROR/ON KEY/ON TIMER, ERL compared with each of = <> < > <= >=, LIST/DELETE/EDIT ranges) as line-number tokens and no other number (concrete inputs: a test of the current source, not a proof over all lines). NOT proved: the token-stream scan that rewrites the references inside the byte code, and behavioural equivalence of the renumbered program. One defect found and fixed (KeyError for a trap line outside the range).',
}

CLAIMS['C11'] = {
  'text': 'Proof over a concrete layout with symbolic contents, on a real DataSegment with its Scalars and Arrays: PEEK(VARPTR(v)+k) is byte k of the stored value for every scalar, array element and k (also after a scalar created later moves the arrays), '
          'records carry type size and name, storage ranges are pairwise disjoint and inside variable/array space, assigning one variable changes no other.',
  'note': _TB + 'The layout (six numeric scalars with short and long names, three arrays of rank 1 and 2) is a concrete scenario; string variables and string space are not covered (C10). One defect found and fixed (PEEK into arrays after the first).',
}

CLAIMS['C40'] = {
  'text': 'Proof of the second clause only: state.load_session returns only if all 24 header bytes equal pack(HEADER_FORMAT, crc32(blob), format version, Python version, PC-BASIC version) for an arbitrary symbolic header and an arbitrary checksum value; '
          'otherwise it raises ValueError and nothing is unpickled. The first clause (resume equals uninterrupted run) is not claimed.',
  'note': _TB + 'open/zlib/pickle are stand-ins; that CRC-32 changes under every single-byte alteration of the blob is the standard property of CRC-32 and is assumed. One defect found and fixed (format_version was never compared).',
}

CLAIMS['C01'] = {
  'text': 'Proof of per-function exception contracts only ("only BASICError / Break / Exit / Reset leave this function"): the error funnel Implementation._handle_exceptions/_handle_error, '
          'the value layer swept over every operand type pairing that involves a string (binary operators) and every unary conversion/string function over all four types with symbolic contents, PEEK on a Memory built with the documented default peek_values=None, Interpreter._handle_break for every error position, and the C44 clock contracts; '
          'plus the exception obligations inside the other claimed properties. The whole-program statement (all programs, all inputs, all files) is NOT decided by this technique.',
  'note': _TB + 'The statement parser, tokeniser, device layers and callbacks without a contract are not covered. BOUNDED, not proved: 28 literal direct-mode statements (PEEK/POKE/OUT/VARPTR/BSAVE/BLOAD boundary arguments) and 20 literal tokenised/protected program files (truncated tokens, oversize) are run through a real Session with default arguments. Twelve internal-error defects were found through these and the other contracts and fixed (PEEK default, TIME$, ENVIRON, RENUM, empty protected file, IMP with a string, HEX$ of values below -65536, OUT to the EGA plane registers in text mode, PEEK/POKE between FIELD buffers, VARPTR(#string), LIST of a truncated number token, LOAD of an oversize file).',
}

CLAIMS['C18'] = {
  'text': 'Proof of the core: (1) the precedence table is the strict GW-BASIC chain with equal precedence inside each group and every operator token bound to its value-layer function (ground facts re-read each run); '
          '(2) ExpressionParser._drain applies exactly the stacked operators of precedence >= the incoming one, top first, operands in source order, for symbolic precedences/arities (stack depth <= 4) - i.e. left-to-right grouping at equal precedence; '
          '(3) result classes of + - * / \\ MOD and the logical operators for all 9 numeric operand pairings (modular). The token loop of parse is only read structurally.',
  'note': _TB + 'Not proved: ExpressionParser.parse token loop, parentheses, function calls, ^ typing. Relational result type is C06, string/number Type mismatch is C01.',
}

CLAIMS['C30'] = {
  'text': 'Proof of the frame argument: the viewport rectangle invariant (established by init/unset, preserved by set under the range checks of Graphics.view_, which are proved); '
          'GraphicsViewPort.__setitem__/_convert_slice hand the pixel buffer only an empty or an in-viewport, in-screen rectangle with non-negative ends for every index form, screen size, rectangle and symbolic coordinates '
          '(under the stated precondition that cutoff_coord establishes, itself proved, with _draw_box_filled checked end to end); every pixel store in class Graphics goes through the viewport (AST check on the current source); '
          'every graphics statement raises Illegal function call before any effect in text mode.',
  'note': _TB + 'The pixel buffer writes only the cells of the index it is given (stand-in). Call sites other than _draw_box_filled are assumed to satisfy the stop >= 0 precondition via cutoff_coord; the active page is the buffer bound by set_page.',
}

CLAIMS['C23'] = {
  'text': 'Proof of the reset postconditions on the real reset code (Implementation.clear_/new_/run_/_clear_all, Interpreter.clear/clear_stacks_and_pointers, DataSegment.clear with the real Scalars/Arrays/StringSpace/UserFunctionManager/Randomiser clear methods): '
          'after CLEAR, NEW and RUN no scalar, array, string, DEF FN, DEFtype, OPTION BASE, FOR/WHILE/GOSUB stack, error trap, event trap or random state survives. CHAIN/COMMON is not covered.',
  'note': _TB + 'Devices, program object and event table are recording stand-ins; the populated state is one concrete scenario. One defect found and fixed (CLEAR kept the GOSUB stack). Also: UserFunctionManager.clear leaves no callable function (define, call, clear, call history); Implementation.chain_ passes exactly the stated preservation flags to _clear_all and opens the program file before anything is cleared (a failing CHAIN loses nothing - one defect found and fixed there, and one in preserve_commons for string-valued DEF FN entries).',
}

CLAIMS['C36'] = {
  'text': 'Proof of the cursor arithmetic for symbolic screen sizes, scroll windows and positions: TextScreen.set_pos/_wrap_around_and_scroll_as_needed keep the cursor on the screen and inside the scroll window, wrap at the edges as specified and scroll only at the bottom of the window when allowed and only the rows of the window; '
          'LOCATE moves exactly to the requested cell or raises Illegal function call without moving; CSRLIN/POS report the cursor with the overflow convention; VIEW PRINT validates and sets the window. '
          'Plain text placement, per character (induction over the string): TextScreen.write_char from every cursor state inside the window writes exactly one cell - the cursor cell, or column 1 of the next row from the overflow position - inside the window, scrolls the window up exactly when the text moves below its bottom row and only its rows, never pushes rows down when printing, and leaves the cursor one cell on (overflow position in the last column); Console.write hands printable text to the screen in order, unchanged, without pushing rows down. SCREEN() contents, double-byte and control characters are not covered.',
  'note': _TB + 'Page buffer and cursor sprite are recording stand-ins; set_pos precondition -width < col <= 2*width as its callers produce.',
}

CLAIMS['C19'] = {
  'text': 'Proof of per-statement transition contracts on the interpreter record: GOSUB/RETURN push and pop exactly the return record at any nesting depth 0..3 (symbolic positions, both run modes) with RETURN without GOSUB / Undefined line number, '
          'ON x GOTO/GOSUB selects the x-th target, falls through for 0 and beyond the list, Illegal function call outside 0..255, WEND stack discipline, FOR assigns the start, pushes one record and skips the body iff the start is already past the limit in the step direction. The visit order of whole programs is not decided.',
  'note': _TB + 'Code stream is an opaque position; _find_next/_check_while_condition (token scanning, expression evaluation) and devices are stand-ins; STEP 0 is excluded (no direction). NEXT counter step is C02.',
}
CLAIMS['C21'] = {
  'text': 'Proof of transition contracts: trap_error records ERR and the error position and either enters the handler (recording the failing statement and mode, suspending event traps) or stops with the same error (no handler, ON ERROR GOTO 0, error inside the handler); '
          'RESUME / RESUME NEXT / RESUME n restore or skip or jump as specified and clear the handler state, RESUME without error outside a handler; ERL/ERR/ERROR/ON ERROR GOTO as specified, for symbolic codes and positions.',
  'note': _TB + 'Code stream is an opaque position over a fixed line table; that current_statement is the start of the failing statement is maintained by parse() and not covered.',
}
CLAIMS['C38'] = {
  'text': 'Proof of transition contracts over symbolic handler records: a trap subroutine is entered only if a program is running, traps are not suspended, and the handler is enabled, triggered, not stopped and has a line; dispatch consumes the trigger and stops the event; only its own RETURN (or ON) clears stopped; ON/OFF/STOP keep a recorded occurrence; '
          'plus an AST frame check that no other function writes event state. Hence no re-entry and no dispatch during an error handler (lemma over the contracts).',
  'note': _TB + 'Two symbolic handlers stand for any number; trigger conditions of the device handlers and the input-queue plumbing ("lost while OFF") are not covered. Also: Interpreter.set_pointer installs the enabled handlers in run mode and none in direct mode; EventQueues.set_basic_event_handlers keeps every enabled handler in the input chain whether or not it is stopped.',
}

CLAIMS['C20'] = {
  'text': 'Proof: UserFunction.evaluate on a real DataSegment/Scalars - on normal and on exceptional exit every parameter variable has byte for byte the value it had before the call (zero if new), other variables are untouched, the recursion flag and code stream position are restored, temporaries released; '
          'during evaluation the parameters hold the converted arguments; a re-entrant call raises Out of memory. Parameter lists () (X) (X,Y%) (A#,A#) with symbolic values.',
  'note': _TB + 'The function body (ExpressionParser.parse) is a stand-in that overwrites the parameters in place and returns or raises; string parameters are not covered.',
}

CLAIMS['C09'] = {
  'text': 'Proof against the reference definitions for symbolic string contents and symbolic numeric arguments over the whole Integer range: LEFT$, RIGHT$, MID$, INSTR (least matching position), STRING$, SPACE$, LEN, ASC, CHR$, concatenation (String too long iff > 255), = and > (byte-wise lexicographic, prefix first), LSET/RSET and the MID$ statement (including the overlapping source = target case), with Illegal function call exactly outside the documented ranges.',
  'note': _TB + 'String lengths are case parameters on stated grids (including 0, 1, 254, 255; shorter grids for the quadratic functions); string space uses a DataSegment stand-in; the statement wrappers DataSegment.mid_/lset_/rset_ are not covered. Added after seeding rounds: the relational operators at operator level (values.eq/neq) including operands that share an address (a computed empty string, a variable with itself), and CHR$ of single/double arguments (Overflow beyond the Integer range).',
}

CLAIMS['C41'] = {
  'text': 'Third clause only (the double-byte converter). Proof, with the lead-byte set, trail-byte set, preserve set and box-drawing relation as uninterpreted predicates (so for every shipped and every future codepage): for every well-formed converter state and every byte, Converter._process emits sequences that followed by the new buffer are exactly the old buffer followed by the byte, keeps the representation invariant, never reaches the "buffer corrupted" branches, emits only 1- or 2-byte sequences; _flush empties the buffer; _mark is structurally a fold of _process, and directly: _mark(s, flush) concatenates back to s and converting s[:k] then s[k:] emits the same sequences and ends in the same state as converting s at once, with and without box protection, for all symbolic strings up to 4 bytes (6 thorough) and every split.',
  'note': _TB + 'Clauses one and two (table round trips for each shipped codepage: Codepage.__init__, unicode_to_bytes, bytes_to_unicode) are NOT decided: they are enumerations of data tables and unicodedata.normalize, outside contract-based deduction. The unbounded-length statement rests on the per-step invariant plus the structural fold check of _mark.',
}

CLAIMS['C34'] = {
  'text': 'Proof, for every graphics mode row of display/modes.py and video memory sizes 16K-256K: the address maps of CGAMemoryMapper/EGAMemoryMapper/Tandy6MemoryMapper (_get_coords, _coord_ok, num_pages) are the inverse of the reference hardware layout in both directions (every on-screen pixel group is backed by exactly one byte per plane; an address backs content iff its coordinates lie on an existing page); GraphicsMemoryMapper._walk_memory is verified by loop invariant for all addresses and all block lengths: an arbitrary iteration emits exactly the chunk (decode(addr+ofs), ofs, length) iff that position backs content, every unit i of the chunk decodes to the i-th pixel group to the right on the same scan line, chunks are non-empty, stay inside the block, the variant decreases and the walk ends at the end of the block - so block access maps every byte exactly as byte access does; Memory._get_memory_block/_set_memory_block split a block into the part inside the 128 KiB video area and single-byte accesses at the right addresses (address symbolic over 1 MiB, lengths 0,1,2,5).',
  'note': _TB + 'Also proved: text modes (TextMemoryMapper.get_memory/set_memory by loop contract over all addresses and block lengths against a logging text page: byte i is the character/attribute of the cell at addr+i, 0/ignored where no content is backed); pixel packing (bytematrix.unpack_bytes/pack_bytes, leftmost pixel in the highest bits, mutually inverse); for the CGA and EGA mappers the step from one chunk of the walk to byte values (get_memory) and to pixel values (set_memory: exactly the pixels of the chunk, on EGA exactly the bits of the writable planes selected by the plane mask; every plane of the mode writable) with real ByteMatrix row operations; the mapper is built by the real mode constructor. BOUNDED, not proved: block = bytes through a real ByteMatrix display (12/120 sampled blocks per mode), which is the only coverage of ByteMatrix slicing and of Tandy SCREEN 6 chunk-to-byte composition. Three defects found by these contracts were repaired in /repo (fix: commits 9fc0ff8a, 3336dfac, 0d9ac272).',
}

CLAIMS['C33'] = {
  'text': 'Proof on the real Graphics._draw / _draw_step / point_ with the real macro-language parser: DRAW strings of concrete command structure (each of U D L R E F G H alone and after S; B and N prefixes; M+, M-, absolute M; C; blanks; multi-command sequences) with every count, coordinate, scale and colour symbolic over the whole Integer range: the pen ends at the sum of trunc(scale*offset/4) per axis (toward zero), absolute M sets the position, B suppresses the segment and N returns to the start for exactly one move, each drawn segment is one _draw_line(start, end, colour), POINT(0)/POINT(1) report the final position, and Illegal function call exactly for scale outside 1..255 or coordinates beyond +-9999; _draw_step for all offsets up to +-99999, all scales and both flags; literal limits (+-99999, +-9999), defaults and X substrings on concrete strings.',
  'note': _TB + 'Command structure is a case parameter; float division by 4. is modelled as an exact quotient (valid below 2**53, checked); _draw_line is taken by contract (C31 is not claimed); angle turning (A, TA), P and WINDOW are not covered.',
}

CLAIMS['C13'] = {
  'text': 'Per-operation proof on the real Program.store_line / find_pos_line_dict / update_line_dict / truncate / delete / rebuild_line_dict / erase / get_line_number (with the real Lister line-number decoding and the real CodeStream/TokenisedStream methods over a symbolic byte stream): every operation takes any state satisfying the representation invariant (memory = 00, link, number, body per line in ascending order + 00 00 00 terminator; link = address of the next line; line dictionary = {number: offset} + end marker; code size) to a state satisfying it for the reference model\'s result - insert at the sorted place, replace, delete (Undefined line number / Illegal function call when nothing matches, state unchanged), rebuild from the bytes alone, NEW. Line numbers and body bytes are symbolic; history properties follow by induction.',
  'note': _TB + 'Number of lines (0..3) and body lengths are case parameters; bodies range over letters (token skipping, string literals, REM inside lines not exercised); LIST text, tokenisation, RENUM targets (C14), MERGE/LOAD (C15) are outside this check.',
}

CLAIMS['C10'] = {
  'text': 'Per-operation proof on the real StringSpace.store/_delete_last/collect_garbage/fix_temporaries/reset_temporaries/is_permanent and DataSegment._collect_garbage/check_free/_get_free/hold_garbage/get_stack with the real Scalars and Arrays: after a collection every live scalar, array element, stack temporary and program-literal string reads back the same bytes (contents symbolic), string space holds exactly the live strings packed below the stack, the allocation pointer and FRE equal memory - stack - program - variables - arrays - live string bytes, a second collection moves nothing; check_free raises exactly when the free space after a collection is not more than the request (request size symbolic) and collects only when needed; store adds one string below all others and moves nothing else; temporaries stay temporary and permanents permanent across a collection and is_permanent never fails; hold_garbage/get_stack restore their state also when the body raises. Two defects found by these contracts were repaired in /repo.',
  'note': _TB + 'Memory layouts (allocation order, lengths, live/garbage/temporary/literal/array, a variable together with its operand view on the evaluation stack or in temp_values) are case parameters (21 layouts); the MID$ and SWAP statements are checked under memory pressure (collection triggered inside the statement) for enumerated amounts of free space; operation histories are covered only through induction over the per-operation contracts, not explored as sequences; FIELD strings, ERASE compaction and Out of memory part-way through an assignment are not covered.',
}

CLAIMS['C29'] = {
  'text': 'Proof on the real CassetteStream record framing (write, read, _flush_record_buffer, _close_record_buffer, _fill_record_buffer, open_write/open_read headers, _write_record/_read_record, _write_block/_read_block) over a byte-tape stand-in, contents symbolic: a data/ASCII file written in any of the stated splits, with the NUL terminator CASTextFile.close appends, is framed as full records plus always one final record carrying its count; reading returns exactly the bytes written, consumes exactly this file\'s records and finds the next file next (lengths 0,1,5,253..256,300,508..511,600 - every boundary of the 255-byte record); binary files (B/P/M) read back byte-identical with name, type, segment, offset and length; blocks are padded to 256 bytes, read back as written, and a changed byte is rejected by the CRC comparison. One defect found by this contract (files of 254, 509, ... bytes ran on into the next file) was repaired in /repo.',
  'note': _TB + 'The bit level (CASBitStream/WAVBitStream pulse encodings, leader/sync detection) is replaced by a byte-tape stand-in and crc() is taken by contract: WAV/CAS encodings themselves are NOT verified. File lengths and write splits are case parameters. CASDevice._search: Found exactly for the recorded name equal to the requested name (space padded, symbolic names) and a requested type; OPEN KNOWN FINDING (listed in known_findings.jsonl, replayed on every run): a data file of 164 (mod 255) bytes ends in a record whose count byte is the header marker 0xA5 and is announced as a file of its own when skipped.',
}

CLAIMS['C31'] = {
  'text': 'LINE, LINE ,B, LINE ,BF and PSET/POINT clauses (GET/PUT only through the sprite builders, see note). Proof on the real Graphics._draw_line for ALL endpoint pairs on the screen by loop invariant (line_error = dX div 2 - i*dY + j*dX, 0 <= line_error < dX, discharged with nonlinear integer arithmetic): every iteration stores exactly one pixel at (X0 + sX*i, Y0 + sY*j) in the line attribute, the minor coordinate moves by at most one step (8-connected), the loop runs max(|dx|,|dy|)+1 times at distinct major coordinates, the first pixel is one endpoint and the invariant forces the last pixel onto the other; _draw_straight stores exactly the pixels of its edge (loop invariant), _draw_box issues exactly the four edges, _draw_box_filled stores exactly the rectangle, PSET stores exactly one pixel which POINT reads.',
  'note': _TB + 'Unclipped screen (640x400 stand-in, no VIEW/WINDOW), solid pattern; for the primitives the pixel buffer is a recording stand-in behind the viewport interface; the real GraphicsViewPort is proved to pass on-screen pixels, rows, columns and rectangles through unchanged when no VIEW is set, and Graphics.line_ to hand the right endpoints to the primitives (STEP on the second coordinate relative to the first endpoint; omitted first coordinate = graphics cursor; no WINDOW). GET/PUT: the packed (CGA) sprite builder is proved to satisfy unpack(pack(sprite)) = sprite with its size record for symbolic pixel contents (sizes 1x1 .. 9x2, 1/2/4 bits per pixel); BOUNDED, not proved: the planed (EGA) and Tandy SCREEN 6 builders and the XOR/OR/AND operations of PUT (XOR twice restores) are sampled natively; the get_/put_ statements themselves are not under contract. Loop-invariant obligations are auxiliary: if a changed algorithm no longer satisfies the invariant the check reports undecided (exit 2) and relies on the BOUNDED native cross-check (300/5000 sampled endpoint pairs, never counted as proved) to show an actual violation.',
}

CLAIMS['C08'] = {
  'text': 'Field layer only - the digits themselves are NOT decided (they are decimal conversion, C07, taken by contract as an arbitrary digit string). Proof on the real StringField, NumberField.__init__/format and Formatter._print_using: ! emits the first character (space for an empty string), & the whole string, a backslash field of width w exactly w characters (cut or space-padded), contents symbolic; parsing a number field consumes exactly its specification and yields the declared digit positions, decimals and comma flag (15 specifications covering every token kind); format() asks for fixed or scientific digits with the declared parameters, emits exactly len(field) characters when sign + $ + digits + trailing sign fit, otherwise % followed by the full representation, with the sign placed as the field says, $ directly before the digits, * or space fill on the left, a leading zero before a bare point when there is room, and Illegal function call beyond 24 digit positions - for an arbitrary (symbolic) digit string and sign; _print_using emits values in order with literals and restarts the format string.',
  'note': _TB + 'The clause "the digits shown equal the value rounded to the field\'s decimal places" is NOT covered (Float.to_str_fixed/to_str_scientific/to_decimal are replaced by an arbitrary digit string). Field specifications (21, including sign positions with no digit before the point), digit-string lengths and string lengths are case parameters. BOUNDED, not proved: to_str_fixed/to_str_scientific digit strings sampled against exact rationals to within one unit of the last digit shown (detects a wrong exponent or lost carry, not the rounding of the last digit). One defect found there and fixed (a0bc5534).',
}

CLAIMS['C07'] = {
  'text': 'PROVED: the literal-reading clause - numbers.str_to_decimal on literals of 16 shapes (digit counts before/after the point, sign, E/D exponent with sign and digits, ! and # sigils) with symbolic digit values returns the mantissa spelled by the digits, exponent = written exponent - fraction digits, and double exactly for a D exponent, a # sigil or more than 7 significant digits without !; Values.from_repr gives an Integer with exactly the value for integer literals in range and otherwise a Single/Double built from exactly those digits; a zero mantissa reads as zero for every exponent (defect found and repaired: VAL("0E5") was 1.469368E-34); Integer.to_str shows every Integer exactly. BOUNDED ONLY, never counted as proved: the two accuracy clauses (shown value within one unit of the last digit shown and at most 7/16 digits; stored value within one unit in the last binary place) are sampled natively against exact rational arithmetic (3000 quick / 60000 thorough values per type and direction).',
  'note': _TB + 'The conversion loops (Float.to_decimal / from_decimal / _div10_den / _mul10_den) have no invariant in this framework: their accuracy is NOT proved, only sampled. Literal shapes are case parameters. BOUNDED additions: every float within 40 units in the last place of a power of ten is sampled for printing (one defect found and fixed, a0bc5534: doubles just below a power of ten printed ten times too small); literals of 1..20 digits are sampled for reading. OPEN KNOWN FINDING (known_findings.jsonl, replayed on every run): a literal with more significant digits than its type holds is cut off, not rounded (error up to 2.3 units in the last binary place, e.g. 8383286.0 reads as 8383285.5); inside that region the check still enforces 3 units, outside it 1.',
}

NOT_APPLICABLE = {
  'C17': 'not applicable to this technique: the tokenise/list round trip runs through two hand-written stream parsers; correctness is a grammar-level induction over token sequences with mode flags - no per-function contract short of a formal grammar of GW-BASIC lines expresses it, and the string/stream loops stay undecided in z3 and cvc5 (DESIGN.md section 4)',
  'C22': 'not applicable to this technique: the DATA pointer walks the tokenised program with skip_to_token/read_to/read_string; the property is about that scan over arbitrary programs, only restore_ (a dictionary lookup) is contract-sized (DESIGN.md section 4)',
  'C24': 'not applicable to this technique: WRITE#/INPUT# round trip through InputMixin.input_entry, a character state machine over a stream with read-ahead, CR/LF folding and quoting; an inductive proof over all item sequences is out of reach and a bounded stand-in alone would not be this family\'s result (DESIGN.md section 4)',
  'C27': 'not applicable to this technique: decided by ntpath/os.path string functions and look-ups in the host file system; sound only relative to contracts on those library functions over unbounded strings (split/replace chains stay undecided in both solvers); the property\'s own hook is run-time monitoring, a different family (DESIGN.md section 4)',
  'C28': 'not applicable to this technique: same code as C27 plus re-based wildcard matching and host directory state; the pure helpers need upper()/strip()/character-set reasoning over unbounded strings, CrossHair as stand-in failed to refute a false postcondition (DESIGN.md section 4)',
  'C32': 'not applicable to this technique: correctness of a scan-line flood fill is a reachability (4-connectivity) property of a 2-D bitmap needing an inductive invariant over pixel sets and the work queue - a research-size proof, not a contract the installed tools discharge (that PAINT stays inside the viewport is covered by C30) (DESIGN.md section 4)',
  'C35': 'not applicable to this technique: a protocol property between the signal emitter and a reference consumer in an interface plug-in over whole histories; no single-function contract carries it (DESIGN.md section 4)',
  'C42': 'not applicable to this technique: IEEE floating-point durations/frequencies, a macro-language stream parser and an asynchronous timed queue; floats are outside the verifier\'s integer/sequence fragment (DESIGN.md section 4)',
  'C43': 'not applicable to this technique: the integer slice is discharged under C03; floats go through math.log and float multiplication, strings through the codepage tables (C41\'s unclaimed clauses), arrays through recursive list comprehensions - a claim for the integer slice alone would misrepresent the property (DESIGN.md section 4)',
}
