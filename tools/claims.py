"""Claims per property (source of MANIFEST.json)."""

NOTES = ('Every check re-reads the functions under contract from /repo (or $VERIF_REPO) on each run; '
         'exit 0 proved / 1 refuted (VIOLATION) / 2 undecided / 3 checker error. '
         'Repairs of genuine defects are "fix:" commits in /repo listed in known_findings.jsonl.')

_TB = ('Trusted: the pyvc VC generator and its encoding of the Python subset (ints as mathematical integers, '
       'byte buffers as cell vectors, exceptions as outcomes), the builtin summaries (struct, bytearray/memoryview, int2byte), '
       'z3/cvc5; native replay under /venv/bin/python. ')

CLAIMS = {
 'C02': {
  'text': 'Proof: every obligation of the contracts on Integer.iadd/isub/ineg/iabs/idiv_int/imod, values.intdiv/mod_/not_/and_/or_/xor_/eqv_/imp_ '
          'and Interpreter.iterate_loop (integer counter) is discharged for all 2^32 operand pairs (symbolic byte patterns), no bound. '
          'Postconditions are the statement: truncating division, MOD sign and identity, Division by zero / Overflow conditions, bitwise semantics on the 16-bit pattern, exact FOR counter addition.',
  'note': _TB + 'FOR counter: code stream / scalar table are stand-ins (position bookkeeping only). Known finding: logical operators reject operands 32768..65535 (GW-compatible).',
 },
}

NOT_APPLICABLE = {
}
