#!/bin/bash
# tools/seedtest.sh <property> <N> [extra check args]
# Confirms a seeded change in its scratch worktree /tmp/seed_<property> (tests pass, demo
# fails with / passes without), runs the property's check against that worktree, records
# the outcome under /verif/seeded/<property>-<N>/ and restores the worktree.
id="$1"; n="$2"; shift 2
wt=/tmp/seed_$id
out=/verif/seeded/$id-$n
mkdir -p "$out"
cd "$wt" || exit 2
git checkout -q -- . 
/venv/bin/python SEED/demo$n.py > "$out/demo_clean.log" 2>&1; demo_clean=$?
git apply SEED/change$n.diff || { echo "patch does not apply"; exit 2; }
tests=$(/venv/bin/python -m pytest -q -p no:cacheprovider --timeout=900 --continue-on-collection-errors 2>&1 | tail -1)
/venv/bin/python SEED/demo$n.py > "$out/demo_changed.log" 2>&1; demo_changed=$?
cd /verif
start=$(date +%s)
VERIF_REPO=$wt timeout -k 5 1500 ./check $id --no-evidence "$@" > "$out/check.log" 2>&1; check_status=$?
end=$(date +%s)
cd "$wt"; git checkout -q -- .
cp SEED/change$n.diff "$out/patch.diff"; cp SEED/demo$n.py "$out/demo.py"
viol=$(grep -c '^VIOLATION' "$out/check.log")
echo "$id-$n tests=[$tests] demo_clean=$demo_clean demo_changed=$demo_changed check_exit=$check_status violations=$viol secs=$((end-start))"
grep -E '^obligation failed|^VIOLATION' "$out/check.log" | head -6 | cut -c1-220
python3 - "$out" "$id" "$n" "$tests" "$demo_clean" "$demo_changed" "$check_status" <<'PY'
import json,sys,re
out,id_,n,tests,dc,dch,cs=sys.argv[1:8]
log=open(out+'/check.log').read()
failed=sorted(set(re.findall(r'^obligation failed: (.*?) inputs=', log, re.M)))
meta={'property':id_,'change':int(n),
 'tests_with_change':tests,'demo_exit_clean_tree':int(dc),'demo_exit_with_change':int(dch),
 'check_cmd':'VERIF_REPO=<scratch worktree with patch applied> ./check %s --no-evidence'%id_,
 'check_exit_with_change':int(cs),'failed_obligations':failed[:20],
 'detected': int(cs)==1}
try:
    old=json.load(open(out+'/meta.json'))
    for k in ('what_breaks','needs_to_manifest'):
        if k in old: meta[k]=old[k]
except Exception: pass
json.dump(meta,open(out+'/meta.json','w'),indent=1)
PY
