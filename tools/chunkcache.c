/* LD_PRELOAD shim: cache 16 KiB anonymous private mappings.
 *
 * CPython >= 3.11 keeps interpreter frames on a "data stack" made of 16 KiB chunks that are
 * mmap'ed when a call crosses a chunk boundary and munmap'ed as soon as it returns. The
 * recursive AST interpreter of pyvc crosses such boundaries millions of times; under 16
 * parallel workers the mmap/munmap/page-fault traffic dominates the run time. This shim
 * keeps up to 64 released chunks and hands them back (zero-filled, as mmap would) instead
 * of going to the kernel. It changes no semantics; the checks run without it, only slower.
 */
#define _GNU_SOURCE
#include <dlfcn.h>
#include <string.h>
#include <sys/mman.h>
#include <stddef.h>

#define CHUNK 16384
#define NCACHE 64

static void *cache[NCACHE];
static int ncached = 0;
static void *(*real_mmap)(void *, size_t, int, int, int, off_t) = 0;
static int (*real_munmap)(void *, size_t) = 0;
static volatile int lock = 0;

static void take(void) { while (__sync_lock_test_and_set(&lock, 1)) ; }
static void give(void) { __sync_lock_release(&lock); }

void *mmap(void *addr, size_t len, int prot, int flags, int fd, off_t off)
{
    if (!real_mmap) real_mmap = dlsym(RTLD_NEXT, "mmap");
    if (addr == 0 && len == CHUNK && fd == -1 && prot == (PROT_READ | PROT_WRITE)
        && flags == (MAP_PRIVATE | MAP_ANONYMOUS)) {
        void *p = 0;
        take();
        if (ncached > 0) p = cache[--ncached];
        give();
        if (p) { memset(p, 0, CHUNK); return p; }
    }
    return real_mmap(addr, len, prot, flags, fd, off);
}

void *mmap64(void *addr, size_t len, int prot, int flags, int fd, off_t off)
{
    return mmap(addr, len, prot, flags, fd, off);
}

int munmap(void *addr, size_t len)
{
    if (!real_munmap) real_munmap = dlsym(RTLD_NEXT, "munmap");
    if (len == CHUNK && ((size_t)addr % 4096) == 0) {
        int kept = 0;
        take();
        if (ncached < NCACHE) { cache[ncached++] = addr; kept = 1; }
        give();
        if (kept) return 0;
    }
    return real_munmap(addr, len);
}
